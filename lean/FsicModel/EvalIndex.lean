import FsicModel.Basic
/-
`VectorContainer._resolve_expression_indexes` and the namespace assembly of `VectorContainer.eval`
(fsic/core/containers.py), written as the code is.

* the regex substitution `index_re = r'\[\s*(.+?)?\s*\]'` as a direct functional reading (leftmost match,
  greedy `\s*`, optional lazy group that is preferred over the empty alternative, `.` = anything but '\n');
* `resolve_indexes`: a match whose group is absent or has no backtick is returned verbatim (`match.group(0)`);
  otherwise split on ':', more than three parts → ValueError, one part → `'[' + str(index) + ']'`, else
  `f'[{start}:{stop}:{step}]'` where `start` / `stop` are resolved only if they contain a backtick (a backtick-free
  component keeps its stripped text) and `stop += 1` applies only to a resolved stop that is a Python int (not to
  text, not to a NumPy integer such as the bound of a pandas partial-string slice);
* `resolve_index_in_span`: no backtick → `int(label.strip())` (no longer reachable from `resolve_indexes`, kept as
  in the code); backtick → strip, strip backticks, look the text up as a string label, then as an `int` label,
  else KeyError;
* the span is a parameter (`Span`): membership and location.  Instances for list-like spans (first occurrence,
  Python int), NumPy-array spans (fallback locator: unique match, `int(positions[0])`) and a table (pandas: `in`
  and `get_loc` are inputs);
* the namespace: helpers (deep copy of the package table unless the caller passes `builtins`), then variables,
  then caller locals, by `dict.update`.

ASCII expressions only (Python's `\s`, `str.strip` and `int()` are modelled on ASCII).
-/
namespace Fsic.EvalIdx

/-! ### Labels and spans -/

/-- A period label up to Python `==`: strings, integers (any label equal to an `int`, e.g. `2001`, `2001.0`,
    `True`, `np.int64(2001)`), and other hashables (equal only to themselves). -/
inductive Label where
  | str (s : List Char)
  | int (i : Int)
  | other (id : Nat)
  deriving DecidableEq, Repr

/-- What `_locate_period_in_span` returns.  `pyInt` = the integer is a Python `int` (list/range `.index`, the
    fallback locator, pandas `get_loc`), as opposed to a NumPy integer (bounds of a pandas partial-string slice). -/
inductive Loc where
  | pos (i : Int) (pyInt : Bool)
  | slice (start stop : Int) (pyInt : Bool)
  | keyError
  | opaque            -- something else (boolean mask, …): not modelled
  deriving DecidableEq, Repr

structure Span where
  contains : Label → Bool     -- `period in self.span`
  locate : Label → Loc        -- `self._locate_period_in_span(period)`

/-- First index of `l` (`list.index`, `range.index`, `tuple.index`). -/
def firstIndex (l : Label) : List Label → Option Nat
  | [] => none
  | x :: xs => if x = l then some 0 else (firstIndex l xs).map (· + 1)

def countEq (l : Label) (xs : List Label) : Nat := (xs.filter (· = l)).length

def locOfIndex (pyInt : Bool) : Option Nat → Loc
  | some i => .pos i pyInt
  | none => .keyError

/-- list / tuple / range spans. -/
def listSpan (xs : List Label) : Span :=
  ⟨fun l => xs.contains l, fun l => locOfIndex true (firstIndex l xs)⟩

/-- NumPy-array spans: `in` is `(arr == period).any()`, the fallback locator wants exactly one match and returns
    `int(positions[0])`. -/
def numpySpan (xs : List Label) : Span :=
  ⟨fun l => xs.contains l, fun l => if countEq l xs = 1 then locOfIndex true (firstIndex l xs) else .keyError⟩

/-- pandas spans: both answers are inputs. -/
def tableSpan (tbl : List (Label × Bool × Loc)) : Span :=
  ⟨fun l => match tbl.lookup l with | some (c, _) => c | none => false,
   fun l => match tbl.lookup l with | some (_, r) => r | none => .keyError⟩

/-! ### Python string helpers (ASCII) -/

/-- `str.isspace` / regex `\s` on ASCII. -/
def isWs (c : Char) : Bool :=
  c == ' ' || c == '\t' || c == '\n' || c == '\r' || c == '\x0b' || c == '\x0c' ||
  c == '\x1c' || c == '\x1d' || c == '\x1e' || c == '\x1f'

/-- Whitespace skipped by `int()` on ASCII text. -/
def isWsInt (c : Char) : Bool :=
  c == ' ' || c == '\t' || c == '\n' || c == '\r' || c == '\x0b' || c == '\x0c'

def stripBy (p : Char → Bool) (cs : List Char) : List Char :=
  ((cs.dropWhile p).reverse.dropWhile p).reverse

/-- `str.strip()`. -/
def strip (cs : List Char) : List Char := stripBy isWs cs

def isBacktick (c : Char) : Bool := c == '`'

/-- `str.strip('`')`. -/
def stripBackticks (cs : List Char) : List Char := stripBy isBacktick cs

def digitVal (c : Char) : Option Nat :=
  if '0' ≤ c ∧ c ≤ '9' then some (c.toNat - 48) else none

/-- Decimal digits with single underscores between digits. -/
def parseNatAux : List Char → Nat → Bool → Option Nat
  | [], acc, prevDigit => if prevDigit then some acc else none
  | c :: cs, acc, prevDigit =>
    if c == '_' then (if prevDigit then parseNatAux cs acc false else none)
    else match digitVal c with
      | some d => parseNatAux cs (acc * 10 + d) true
      | none => none

def parseSigned : List Char → Option Int
  | '-' :: r => (parseNatAux r 0 false).map fun n => -(n : Int)
  | '+' :: r => (parseNatAux r 0 false).map fun n => (n : Int)
  | r => (parseNatAux r 0 false).map fun n => (n : Int)

/-- `int(text)` for a `str`; `none` = ValueError. -/
def parsePyInt (cs : List Char) : Option Int := parseSigned (stripBy isWsInt cs)

/-- `str.split(sep)` for a one-character separator (always at least one part). -/
def splitOn (sep : Char) : List Char → List (List Char)
  | [] => [[]]
  | c :: cs =>
    if c == sep then [] :: splitOn sep cs
    else match splitOn sep cs with
      | [] => [[c]]
      | p :: ps => (c :: p) :: ps

/-! ### The regex `\[\s*(.+?)?\s*\]` -/

/-- `\s*\]` at the head of `cs`: number of characters consumed (including the `]`). -/
def closeAfterWs : List Char → Option Nat
  | [] => none
  | c :: cs => if c == ']' then some 1 else if isWs c then (closeAfterWs cs).map (· + 1) else none

/-- The lazy group `.+?` followed by `\s*\]`: `acc` holds the (reversed) characters already in the group; the
    group grows one non-newline character at a time until `\s*\]` matches.  Returns the group and the number of
    characters of `cs` consumed. -/
def lazyGroup (acc : List Char) : List Char → Option (List Char × Nat)
  | [] => none
  | c :: cs =>
    match closeAfterWs (c :: cs) with
    | some k => some (acc.reverse, k)
    | none => if c == '\n' then none else (lazyGroup (c :: acc) cs).map fun r => (r.1, r.2 + 1)

/-- After the greedy `\s*`: `cs` starts at the first non-blank character. -/
def matchAfterWs : List Char → Option (Option (List Char) × Nat)
  | [] => none
  | c :: cs =>
    match lazyGroup [c] cs with
    | some (g, k) => some (some g, k + 1)
    | none => if c == ']' then some (none, 1) else none

/-- Match of the whole pattern right after a `[`: `(group(1) or None, characters consumed after the '[')`. -/
def matchBracket (after : List Char) : Option (Option (List Char) × Nat) :=
  (matchAfterWs (after.dropWhile isWs)).map fun r => (r.1, r.2 + (after.length - (after.dropWhile isWs).length))

/-! ### `resolve_index_in_span` / `resolve_indexes` -/

inductive Err where
  | keyError | valueError | unmodelled
  deriving DecidableEq, Repr

/-- The label object a backticked text denotes: the string if the span has it, else the integer it spells. -/
def denotes (sp : Span) (period : List Char) : Option Label :=
  if sp.contains (.str period) then some (.str period)
  else match parsePyInt period with
    | some i => if sp.contains (.int i) then some (.int i) else none
    | none => none

/-- Result of resolving one component. -/
inductive Ix where
  | int (i : Int) (pyInt : Bool)
  | slice (start stop : Int) (pyInt : Bool)
  deriving DecidableEq, Repr

def ixOfLoc : Loc → Except Err Ix
  | .pos i b => .ok (.int i b)
  | .slice a b py => .ok (.slice a b py)
  | .keyError => .error .keyError
  | .opaque => .error .unmodelled

def periodText (label : List Char) : List Char := stripBackticks (strip label)

/-- `resolve_index_in_span(label)`. -/
def resolveIndexInSpan (sp : Span) (label : List Char) : Except Err Ix :=
  if label.contains '`' then
    match denotes sp (periodText label) with
    | some l => ixOfLoc (sp.locate l)
    | none => .error .keyError
  else
    match parsePyInt (strip label) with
    | some i => .ok (.int i true)
    | none => .error .valueError

/-- A slice bound in the rewritten text: the component's own (stripped, possibly empty) text when it has no
    backtick, or the integer a backticked component resolves to. -/
inductive Bound where
  | text (t : List Char)
  | val (i : Int)
  deriving DecidableEq, Repr

/-- What one bracket group is rewritten to. -/
inductive Resolved where
  | verbatim                                         -- `return match.group(0)`
  | index (i : Int)                                  -- `[i]`
  | sliceObj (start stop : Int)                      -- `[slice(a, b, None)]` (pandas partial-string match)
  | slice (start stop : Bound) (step : List Char)    -- `[start:stop:step]`, `step` copied verbatim
  deriving DecidableEq, Repr

/-- `if len(start) and '`' in start: start = resolve_index_in_span(start); if isinstance(start, slice):
    start = start.start` — otherwise `start` stays the text it is. -/
def startBound (sp : Span) (txt : List Char) : Except Err Bound :=
  if txt.contains '`' then
    match resolveIndexInSpan sp txt with
    | .ok (.int i _) => .ok (.val i)
    | .ok (.slice a _ _) => .ok (.val a)
    | .error e => .error e
  else .ok (.text txt)

/-- `if len(stop) and '`' in stop: stop = …; if isinstance(stop, slice): stop = stop.stop` and then
    `if isinstance(stop, int): stop += 1` (text is not an int). -/
def stopBound (sp : Span) (txt : List Char) : Except Err Bound :=
  if txt.contains '`' then
    match resolveIndexInSpan sp txt with
    | .ok (.int i py) => .ok (.val (if py then i + 1 else i))
    | .ok (.slice _ b py) => .ok (.val (if py then b + 1 else b))
    | .error e => .error e
  else .ok (.text txt)

def mkSlice (a b : Except Err Bound) (step : List Char) : Except Err Resolved :=
  match a with
  | .error e => .error e
  | .ok a' => match b with
    | .error e => .error e
    | .ok b' => .ok (.slice a' b' step)

def resolveSingle (sp : Span) (txt : List Char) : Except Err Resolved :=
  match resolveIndexInSpan sp txt with
  | .ok (.int i _) => .ok (.index i)
  | .ok (.slice a b _) => .ok (.sliceObj a b)
  | .error e => .error e

/-- `resolve_indexes` on the parts of `match.group(1).split(':')`. -/
def resolveParts (sp : Span) : List (List Char) → Except Err Resolved
  | [one] => resolveSingle sp one
  | [start, stop] => mkSlice (startBound sp (strip start)) (stopBound sp (strip stop)) []
  | [start, stop, step] => mkSlice (startBound sp (strip start)) (stopBound sp (strip stop)) (strip step)
  | _ => .error .valueError

/-- `resolve_indexes(match)`: a match without a group (`group(1) is None`) or whose group has no backtick is left
    as it is. -/
def resolveGroupSem (sp : Span) : Option (List Char) → Except Err Resolved
  | none => .ok .verbatim
  | some g => if g.contains '`' then resolveParts sp (splitOn ':' g) else .ok .verbatim

def intText (i : Int) : List Char := (toString i).toList

def boundText : Bound → List Char
  | .text t => t
  | .val i => intText i

/-- The replacement text for a match whose own text is `matched`. -/
def render (matched : List Char) : Resolved → List Char
  | .verbatim => matched
  | .index i => '[' :: intText i ++ [']']
  | .sliceObj a b => "[slice(".toList ++ intText a ++ ", ".toList ++ intText b ++ ", None)]".toList
  | .slice a b step => '[' :: boundText a ++ ':' :: boundText b ++ ':' :: step ++ [']']

/-- `resolve_indexes` as a function of `(match.group(1), match.group(0))`. -/
def resolveMatch (sp : Span) (g : Option (List Char)) (matched : List Char) : Except Err (List Char) :=
  match resolveGroupSem sp g with
  | .ok r => .ok (render matched r)
  | .error e => .error e

/-- `index_re.finditer(expression)` interleaved with the text between the matches: a literal character, or a
    match with its `group(1)` and its whole text `group(0)`.  `skip` = characters of the current match still to
    pass over. -/
inductive Seg where
  | lit (c : Char)
  | grp (g : Option (List Char)) (text : List Char)
  deriving DecidableEq, Repr

def segments : List Char → Nat → List Seg
  | [], _ => []
  | _ :: cs, skip + 1 => segments cs skip
  | c :: cs, 0 =>
    if c == '[' then
      match matchBracket cs with
      | some (g, len) => .grp g (c :: cs.take len) :: segments cs len
      | none => .lit c :: segments cs 0
    else .lit c :: segments cs 0

def Seg.text : Seg → List Char
  | .lit c => [c]
  | .grp _ t => t

/-- The substitution: matches are replaced left to right (the first exception propagates), the rest is copied. -/
def substitute (f : Option (List Char) → List Char → Except Err (List Char)) : List Seg → Except Err (List Char)
  | [] => .ok []
  | .lit c :: ss => (substitute f ss).map (c :: ·)
  | .grp g t :: ss =>
    match f g t with
    | .error e => .error e
    | .ok r => (substitute f ss).map (r ++ ·)

/-- `index_re.sub(resolve_indexes, expression)`. -/
def subAll (f : Option (List Char) → List Char → Except Err (List Char)) (expr : List Char) : Except Err (List Char) :=
  substitute f (segments expr 0)

/-- Step 1 of `eval`: `if '`' in expression: expression = self._resolve_expression_indexes(expression)`. -/
def resolveExpression (sp : Span) (expr : List Char) : Except Err (List Char) :=
  if expr.contains '`' then subAll (resolveMatch sp) expr else .ok expr

/-! ### Label indexing (`obj[name, a:b]`, `_resolve_period_slice`) — what eval is compared with -/

/-- `(start_location, stop_location)` of `_resolve_period_slice(slice(a, b))` for labels `a`, `b`. -/
def labelSliceBounds (sp : Span) (a b : Label) : Except Err (Int × Int) :=
  match sp.locate a, sp.locate b with
  | .pos i _, .pos j _ => .ok (i, j + 1)
  | .pos i _, .slice _ d _ => .ok (i, d)
  | .slice c _ _, .pos j _ => .ok (c, j + 1)
  | .slice c _ _, .slice _ d _ => .ok (c, d)
  | .keyError, _ => .error .keyError
  | _, .keyError => .error .keyError
  | _, _ => .error .unmodelled

/-! ### Namespace assembly of `eval` -/

/-- A Python `dict` as an association list; `update` lets later bindings win. -/
abbrev Dict (V : Type) := List (String × V)

def Dict.get {V} (d : Dict V) (k : String) : Option V := List.lookup k d

/-- `d.update(other)` up to lookup: the bindings of `other` (a dict: one entry per key) shadow those of `d`. -/
def Dict.update {V} (d other : Dict V) : Dict V := other ++ d

/-- The world `eval` touches: a store of dicts (location 0 = the package-level `fsic.functions.builtins`). -/
structure NsWorld (V : Type) where
  dicts : List (Dict V)

def NsWorld.read {V} (w : NsWorld V) (l : Nat) : Dict V := w.dicts.getD l []

/-- `builtins = copy.deepcopy(_builtins)` when the caller passes `None`, else the caller's own dict. -/
def nsTarget {V} (w : NsWorld V) (builtinsArg : Option Nat) : NsWorld V × Nat :=
  match builtinsArg with
  | none => (⟨w.dicts ++ [w.read 0]⟩, w.dicts.length)
  | some l => (w, l)

/-- `locals_ = builtins; locals_.update(variables); if locals is not None: locals_.update(locals)` —
    in-place updates of the dict at the target location. -/
def assemble {V} (w : NsWorld V) (builtinsArg : Option Nat) (vars : Dict V) (locals_ : Option (Dict V)) :
    NsWorld V × Nat :=
  (⟨Fsic.setAt (nsTarget w builtinsArg).1.dicts (nsTarget w builtinsArg).2
      ((((nsTarget w builtinsArg).1.read (nsTarget w builtinsArg).2).update vars).update (locals_.getD []))⟩,
   (nsTarget w builtinsArg).2)

/-! ### Undefined names (`except NameError` in `eval`) -/

/-- How the evaluation of a bare name ends. -/
inductive NameOutcome (V : Type) where
  | bound (v : V)
  | attributeError (name : String)     -- AttributeError whose message names the undefined name
  deriving DecidableEq, Repr

/-- `except NameError as e: suggestions = self.get_closest_match(e.name)` — whatever `difflib` suggests (no name,
    one name, several names differing only by case) the code raises AttributeError naming `e.name`; only the
    wording differs ("Object is empty …" / "Did you mean: '<first suggestion>'?"). -/
def undefinedOutcome {V : Type} (name : String) : List String → NameOutcome V
  | [] => .attributeError name
  | _ :: _ => .attributeError name

/-- Evaluating the name `name` in the assembled namespace `ns`; `suggestions` = `get_closest_match(name)`. -/
def evalName {V : Type} (ns : Dict V) (suggestions : List String) (name : String) : NameOutcome V :=
  match ns.get name with
  | some v => .bound v
  | none => undefinedOutcome name suggestions

/-! ### eval inside a history of operations on the container

The namespace of `eval` is built from the store as it is at the moment of the call
(`{x: self[x] for x in self.index}`): nothing is remembered from one call to the next. -/

/-- Operations between (and including) `eval` calls, as far as the variable store is concerned. -/
inductive StoreOp (V : Type) where
  | rebind (name : String) (v : V)          -- `obj.X = [list]`, `obj['X'] = (tuple)`, `replace_values(X=range(n))`: a NEW array under the name
  | inplace (name : String) (f : V → V)     -- `obj.X[i] = v`, `obj.X = 5.0`, `obj.X = ndarray`: the same array, changed
  | add (name : String) (v : V)             -- `add_variable`
  | eval                                    -- an `eval()` call: reads, changes nothing

def applyOp {V : Type} (s : Dict V) : StoreOp V → Dict V
  | .rebind n v => (n, v) :: s
  | .inplace n f => s.map fun kv => if kv.1 == n then (kv.1, f kv.2) else kv
  | .add n v => s ++ [(n, v)]
  | .eval => s

def applyOps {V : Type} (s : Dict V) (ops : List (StoreOp V)) : Dict V := ops.foldl applyOp s

def StoreOp.isEval {V : Type} : StoreOp V → Bool
  | .eval => true
  | _ => false

/-- The namespace an `eval()` call assembles after the history `ops` (with `builtins=None`). -/
def namespaceAfter {V : Type} (w : NsWorld V) (s0 : Dict V) (ops : List (StoreOp V)) (locals_ : Option (Dict V)) :
    Dict V :=
  (assemble w none (applyOps s0 ops) locals_).1.read (assemble w none (applyOps s0 ops) locals_).2

end Fsic.EvalIdx
