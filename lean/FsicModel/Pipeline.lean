import FsicModel.Lexer
import FsicModel.Parser
/-
The whole of `fsic.parser.parse_model(text, check_syntax=False)` as the composition of the two hand-written
models that were built (and tied to the code) separately:

  text ──M2 `Lx.parseScript`──▶ per statement: (lhs terms, rhs terms, equation, code) ──M3 `Parser.parseModel`──▶ symbols

M2 (`FsicModel/Lexer.lean`) owns everything up to and including `str.format`; M3 (`FsicModel/Parser.lean`) owns
`parse_equation_terms`' retyping, the per-statement symbol loop, `Symbol.combine` and the cross-statement merge.
Nothing new is modelled here: this file only converts M2's outputs into M3's inputs.  The composed function is
compared with the real `parse_model` on whole scripts (driver kind `parse_model_text`), which ties the *interface*
between the two models to the code as well.
-/
namespace Fsic.Pipeline
open Fsic

def str (cs : List Char) : String := String.ofList cs

def kindType : Lx.Kind → Parser.TermType
  | .verbatim => .verbatim
  | .invalid => .invalid
  | .keyword => .keyword
  | .function => .function
  | .parameter => .parameter
  | .error => .error
  | .variable => .variable

def idxOf : Lx.Index → Parser.Idx
  | .int i => .int i
  | .str s => .str (str s)
  | .none => .none

def termOf (t : Lx.Term) : Parser.Term := ⟨str t.name, kindType t.kind, idxOf t.index⟩

/-- Exception classes of `parse_model` (text level + symbol level); `internal` = anything that is not one of the
    parser's own errors (unreachable for M2 since the parser fixes; kept so that a regression is expressible). -/
inductive Err where
  | parserError | indentationError | symbolError | internal
  deriving DecidableEq, Repr

def ofLx : Lx.PErr → Err
  | .parserError => .parserError
  | .indentationError => .indentationError
  | .symbolError => .symbolError
  | .formatFailure => .internal

def ofParser : Parser.Err → Err
  | .symbolError => .symbolError
  | .parserError => .parserError
  | .typeError => .internal
  | .assertionError => .internal

/-- One M2 result as an M3 statement (`none` = an empty statement, which contributes nothing). -/
def stmtOf : Lx.EqOut → Except Err (Option Parser.Stmt)
  | .empty => .ok none
  | .verbatim e c => .ok (some (.verb (str e) (str c)))
  | .parsed lt rt (.ok e) (.ok c) =>
    match Parser.equationTerms (lt.map termOf) (rt.map termOf) with
    | .ok ts => .ok (some (.eqn ts (str e) (str c)))
    | .error x => .error (ofParser x)
  | .parsed _ _ _ _ => .error .internal
  | .err e => .error (ofLx e)

def stmtsOf : List Lx.EqOut → Except Err (List Parser.Stmt)
  | [] => .ok []
  | r :: rs =>
    match stmtOf r with
    | .error e => .error e
    | .ok none => stmtsOf rs
    | .ok (some s) =>
      match stmtsOf rs with
      | .ok ss => .ok (s :: ss)
      | .error e => .error e

/-- `parse_model(text, check_syntax=False)`. -/
def parseModelText (text : List Char) : Except Err (List Parser.Symbol) :=
  match stmtsOf (Lx.parseScript text) with
  | .error e => .error e
  | .ok stmts =>
    match Parser.parseModel stmts with
    | .ok syms => .ok syms
    | .error e => .error (ofParser e)

end Fsic.Pipeline
