"""Reflected behaviour switches of `VectorContainer` (read by lean/FsicModel/Container.lean as `Cfg.current`).

Three behaviours that candidate fixes of C09/C10 findings would change are not hard-wired into the model: they are
probed on the imported fsic on every run and written to Generated.lean, so the model follows the tree as it is now
and the theorems that depend on a switch (`inv_step`, `no_shadow_*`, `strict_values_setter_*`) apply exactly when
the code has that behaviour.  A probe that gives an unexpected answer raises (reported as a broken obligation)."""
import warnings


def _probe():
    from fsic.core.containers import VectorContainer
    from fsic.exceptions import DimensionError, DuplicateNameError
    with warnings.catch_warnings():
        warnings.simplefilter('ignore')
        # 1. does `obj.A = <nested list with outer length len(span)>` get rejected?
        c = VectorContainer(range(3))
        c.add_variable('A', 0.0)
        try:
            c.A = [[1, 2], [3, 4], [5, 6]]
            full_shape = False
        except DimensionError:
            full_shape = True
        # 2. which property names does the strict guard let through?
        exempt = []
        for name, value in (('strict', True), ('values', 0)):
            c = VectorContainer(range(2), strict=True)
            c.add_variable('A', 0.0)
            try:
                setattr(c, name, value)
                exempt.append(name)
            except AttributeError:
                pass
        # 3. does add_variable refuse the name of an existing attribute?
        c = VectorContainer(range(2))
        c.P = 5
        try:
            c.add_variable('P', 1.0)
            checks_attrs = False
        except DuplicateNameError:
            checks_attrs = True
        # 4. does add_variable refuse a name whose storage key ('_' + name) is already taken?
        c = VectorContainer(range(2))
        try:
            c.add_variable('attributes', 1.0)
            checks_keys = False
        except DuplicateNameError:
            checks_keys = True
        # 5. does add_attribute refuse a name that is already a key of the instance dict (a variable's storage)?
        c = VectorContainer(range(2))
        c.add_variable('A', 0.0)
        try:
            c.add_attribute('_A', 1)
            attr_checks_keys = False
        except DuplicateNameError:
            attr_checks_keys = True
    return full_shape, exempt, checks_attrs, checks_keys, attr_checks_keys


def tables():
    full_shape, exempt, checks_attrs, checks_keys, attr_checks_keys = _probe()
    b = lambda x: 'true' if x else 'false'
    return [
        '/-- `VectorContainer.__setattr__` rejects a sequence whose shape is not exactly `(len(span),)` (probed). -/',
        f'def containerSetattrFullShape : Bool := {b(full_shape)}',
        '/-- Property names the strict guard of `__setattr__` lets through (probed). -/',
        'def containerStrictExempt : List String := [' + ', '.join('"%s"' % x for x in exempt) + ']',
        '/-- `add_variable` raises DuplicateNameError for the name of an existing attribute (probed). -/',
        f'def containerAddVariableChecksAttrs : Bool := {b(checks_attrs)}',
        "/-- `add_variable(name)` raises DuplicateNameError when `'_' + name` is already a key of `__dict__` (probed). -/",
        f'def containerAddVariableChecksKeys : Bool := {b(checks_keys)}',
        '/-- `add_attribute(name)` raises DuplicateNameError when `name` is already a key of `__dict__` (probed). -/',
        f'def containerAddAttributeChecksKeys : Bool := {b(attr_checks_keys)}',
    ]
