#!/bin/sh
# usage: seedtest.sh <seed dir containing patch.diff> <Cxx> [tier]   — runs the check against a scratch copy of /repo
# with the patch applied (FSIC_REPO), never touching /repo. Prints the check's last lines and its exit code.
set -u
d="$1"; prop="$2"; tier="${3:-quick}"
w=$(mktemp -d /tmp/mut.XXXXXX)
git -C /repo worktree add -q --detach "$w/r" HEAD || exit 2
if ! git -C "$w/r" apply "$d/patch.diff"; then echo "PATCH DOES NOT APPLY"; git -C /repo worktree remove --force "$w/r"; rm -rf "$w"; exit 3; fi
if [ -f "$d/demo.py" ]; then
  (cd "$w/r" && PYTHONPATH="$w/r" PYTHONDONTWRITEBYTECODE=1 /venv/bin/python "$d/demo.py" >/dev/null 2>&1); echo "demo with patch: exit $?"
  (cd /repo && PYTHONPATH=/repo PYTHONDONTWRITEBYTECODE=1 /venv/bin/python "$d/demo.py" >/dev/null 2>&1); echo "demo on HEAD:    exit $?"
fi
cp /verif/evidence/$prop.json "$w/ev.json" 2>/dev/null
cd /verif && FSIC_REPO="$w/r" ./check "$prop" "$tier" 2>&1 | grep -E "^VIOLATION|^INFRA|^$prop (quick|thorough)" | tail -4
cp "$w/ev.json" /verif/evidence/$prop.json 2>/dev/null
# keep the first failing input found as a corpus case (replayed first on every later run)
last=$(ls -t /verif/replays/$prop-*.json 2>/dev/null | head -1)
if [ -n "$last" ]; then /venv/bin/python - "$last" "$prop" "$(basename $d)" <<'PY'
import json, os, sys
d = json.load(open(sys.argv[1]))
v = (d.get('violations') or [None])[0]
if v:
    os.makedirs(f'/verif/corpus/{sys.argv[2]}', exist_ok=True)
    json.dump({'from_seed': sys.argv[3], 'key': v['key'], 'what': v['what'][:300], 'case': v['case']},
              open(f'/verif/corpus/{sys.argv[2]}/{sys.argv[3]}.json', 'w'), indent=1, default=str)
PY
  # a corpus case must hold on the unchanged tree (otherwise it is an artefact of the harness, not a failing input of
  # the seeded change): replay it against /repo HEAD and drop it if it does not
  c=/verif/corpus/$prop/$(basename $d).json
  if [ -f "$c" ]; then
    /venv/bin/python -c "import json,sys; d=json.load(open('$c')); json.dump({'violations':[{'key':d['key'],'what':d['what'],'case':d['case']}]}, open('$w/c.json','w'), default=str)"
    if ! (cd /verif && ./check "$prop" --replay "$w/c.json" >/dev/null 2>&1); then
      echo "CORPUS CASE DROPPED (does not hold on HEAD): $c"; rm -f "$c"
    fi
  fi
fi
git -C /repo worktree remove --force "$w/r"; rm -rf "$w"
