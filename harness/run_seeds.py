#!/venv/bin/python
"""Run every seeded change in /verif/seeded against the check of its property (scratch worktree, FSIC_REPO) and
write seeded/RESULTS.json + update each meta.json with what was run. usage: run_seeds.py [Cxx ...] [--only k1,k2]"""
import fcntl, json, os, re, subprocess, sys
V = '/verif'
args = sys.argv[1:]
suffix = None          # e.g.  --only 9,10  : only the seeds Cxx_9 and Cxx_10
if '--only' in args:
    i = args.index('--only')
    suffix = set(args[i + 1].split(','))
    args = args[:i] + args[i + 2:]
only = set(args)
res = {}


def record(key, value):
    """Merge one result into seeded/RESULTS.json under a lock (several run_seeds.py processes may run side by side, one
    per group of properties)."""
    with open(f'{V}/seeded/.results.lock', 'w') as lk:
        fcntl.flock(lk, fcntl.LOCK_EX)
        path = f'{V}/seeded/RESULTS.json'
        allres = json.load(open(path)) if os.path.exists(path) else {}
        allres[key] = value
        json.dump(allres, open(path + '.tmp', 'w'), indent=1)
        os.replace(path + '.tmp', path)


for s in sorted(os.listdir(f'{V}/seeded')):
    d = f'{V}/seeded/{s}'
    if not os.path.isdir(d):
        continue
    prop = s.split('_')[0]
    if only and prop not in only:
        continue
    if suffix and s.split('_')[1] not in suffix:
        continue
    if not os.path.exists(f'{V}/harness/props/{prop.lower()}.py'):
        continue
    out = subprocess.run([f'{V}/harness/seedtest.sh', d, prop], capture_output=True, text=True).stdout
    demo_patch = re.search(r'demo with patch: exit (\d+)', out)
    demo_head = re.search(r'demo on HEAD:\s+exit (\d+)', out)
    viol = 'VIOLATION property=' + prop in out
    summ = (re.findall(r'^%s quick.*$' % prop, out, flags=re.M) or [''])[-1]
    res[s] = {'property': prop, 'patch_applies': 'PATCH DOES NOT APPLY' not in out,
              'demo_exit_with_patch': int(demo_patch.group(1)) if demo_patch else None,
              'demo_exit_on_head': int(demo_head.group(1)) if demo_head else None,
              'check_detects': viol, 'no_failing_input_found': 'no-failing-input-found' in out, 'check_summary': summ}
    record(s, res[s])
    mp = f'{d}/meta.json'
    meta = json.load(open(mp)) if os.path.exists(mp) else {}
    meta['verified_here'] = {'command': f'harness/seedtest.sh seeded/{s} {prop}  (scratch worktree of /repo HEAD, FSIC_REPO)',
                             **{k: v for k, v in res[s].items() if k != 'property'}}
    json.dump(meta, open(mp, 'w'), indent=1)
    print(s, 'DETECTED' if viol else 'MISSED', '| demo', res[s]['demo_exit_with_patch'], res[s]['demo_exit_on_head'], '|', summ[-90:])
