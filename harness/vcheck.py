#!/venv/bin/python
"""./check <Cxx> <quick|thorough>   |   ./check <Cxx> --replay <file>   |   ./check --setup"""
import importlib, os, sys

HERE = os.path.dirname(os.path.abspath(__file__))
sys.path.insert(0, HERE)
import framework  # noqa: E402  (puts /repo on sys.path)
import lean_bridge  # noqa: E402


def main(argv):
    if argv and argv[0] == '--setup':
        import reflect
        reflect.regenerate()
        ok, log, s = lean_bridge.build(['FsicModel', 'Proofs', 'Driver', 'fsicdrv'])
        print(log[-3000:] if not ok else f'lean project built in {s:.1f}s')
        return 0 if ok else 2
    pid = argv[0].upper()
    mod = importlib.import_module('props.' + pid.lower())
    if len(argv) >= 3 and argv[1] == '--replay':
        return framework.run_replay(mod, argv[2])
    tier = argv[1] if len(argv) > 1 else os.environ.get('VERIF_TIER', 'quick')
    seed = int(os.environ.get('VERIF_SEED', '0') or 0)
    return supervised(mod, tier, seed)


CHECK_DEADLINE = {'quick': 1800.0, 'thorough': 5 * 3600.0}   # seconds; the slowest checks take ~2 min / ~40 min


def _die_with_parent(parent):
    """In the supervised child (its own session): if the supervisor is killed without being able to signal us, the
    kernel kills this process too (PR_SET_PDEATHSIG); its pool workers then see their pipes close and exit, and a worker
    stuck inside the code under test is ended by its own watchdog."""
    try:
        import ctypes, signal
        ctypes.CDLL('libc.so.6', use_errno=True).prctl(1, int(signal.SIGKILL), 0, 0, 0)   # 1 = PR_SET_PDEATHSIG
        if os.getppid() != parent:      # the supervisor went away before the call took effect
            os._exit(2)
    except Exception:  # noqa: BLE001   (no libc / prctl: carry on without)
        pass


def supervised(mod, tier, seed):
    """Run the check in a child process group under a wall-clock deadline.  Code under test that no longer terminates
    somewhere (a regular expression that backtracks for ever, a loop that does not end) would otherwise make the check
    hang instead of reporting: past the deadline the whole group is killed and the run is reported as a broken
    correspondence (VIOLATION … no-failing-input-found, the replay file names the stage)."""
    import signal, time
    deadline = float(os.environ.get('FSIC_VERIF_CHECK_DEADLINE') or CHECK_DEADLINE.get(tier, 1800.0))
    t0 = time.time()
    sys.stdout.flush()
    child = os.fork()
    if child == 0:
        code = 2
        try:
            os.setsid()
            _die_with_parent(os.getppid())
            code = framework.run_check(mod, tier, seed)
        except BaseException:  # noqa: BLE001
            import traceback
            traceback.print_exc()
        finally:
            sys.stdout.flush()
            sys.stderr.flush()
            os._exit(code if isinstance(code, int) else 2)
    def _forward(signum, frame):    # the supervisor is being stopped from outside: take the whole group with it
        try:
            os.killpg(child, signal.SIGKILL)
        except OSError:
            pass
        os._exit(2)
    for sig in (signal.SIGTERM, signal.SIGINT, signal.SIGHUP):
        signal.signal(sig, _forward)
    while True:
        done, status = os.waitpid(child, os.WNOHANG)
        if done:
            code = os.waitstatus_to_exitcode(status)
            return code if code >= 0 else 2
        if time.time() - t0 > deadline:
            break
        time.sleep(0.25)
    try:
        os.killpg(child, signal.SIGKILL)
    except OSError:
        pass
    os.waitpid(child, 0)
    return framework.report_overrun(mod, tier, seed, deadline, t0)


if __name__ == '__main__':
    sys.exit(main(sys.argv[1:]))
