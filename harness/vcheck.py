#!/venv/bin/python
"""./check <Cxx> <quick|thorough>   |   ./check <Cxx> --replay <file>   |   ./check --setup"""
import importlib, os, sys

HERE = os.path.dirname(os.path.abspath(__file__))
sys.path.insert(0, HERE)
import framework  # noqa: E402  (puts /repo on sys.path)
import lean_bridge  # noqa: E402


def main(argv):
    if argv and argv[0] == '--setup':
        import reflect
        reflect.regenerate()
        ok, log, s = lean_bridge.build(['FsicModel', 'Proofs', 'Driver', 'fsicdrv'])
        print(log[-3000:] if not ok else f'lean project built in {s:.1f}s')
        return 0 if ok else 2
    pid = argv[0].upper()
    mod = importlib.import_module('props.' + pid.lower())
    if len(argv) >= 3 and argv[1] == '--replay':
        return framework.run_replay(mod, argv[2])
    tier = argv[1] if len(argv) > 1 else os.environ.get('VERIF_TIER', 'quick')
    seed = int(os.environ.get('VERIF_SEED', '0') or 0)
    return framework.run_check(mod, tier, seed)


if __name__ == '__main__':
    sys.exit(main(sys.argv[1:]))
