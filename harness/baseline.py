#!/venv/bin/python
"""Run /repo's pinned test suite and compare the set of passing tests with /root/.vp/BASELINE.json.
Exit 0 iff every baseline-stable test passes.  Usage: baseline.py [repo_dir]"""
import json, os, subprocess, sys, tempfile, xml.etree.ElementTree as ET

repo = sys.argv[1] if len(sys.argv) > 1 else '/repo'
base = json.load(open('/root/.vp/BASELINE.json'))
with tempfile.TemporaryDirectory() as d:
    xml = os.path.join(d, 'r.xml')
    env = dict(os.environ, PYTHONDONTWRITEBYTECODE='1')
    env.pop('FSIC_VERIF', None)
    subprocess.run(['/venv/bin/python', '-m', 'pytest', '-ra', '-q', '-p', 'no:cacheprovider', '--timeout=900',
                    '--continue-on-collection-errors', '--junitxml=' + xml], cwd=repo, env=env,
                   stdout=subprocess.DEVNULL, stderr=subprocess.DEVNULL)
    passed = set()
    for tc in ET.parse(xml).getroot().iter('testcase'):
        if not any(c.tag in ('failure', 'error', 'skipped') for c in tc):
            passed.add(tc.get('classname') + '::' + tc.get('name'))
missing = [t for t in base['stable_pass'] if t not in passed]
print(f'baseline: {len(base["stable_pass"]) - len(missing)}/{len(base["stable_pass"])} stable tests pass; {len(passed)} passed in total')
for t in missing:
    print('  MISSING', t)
sys.exit(1 if missing else 0)
