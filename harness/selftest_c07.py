#!/venv/bin/python
"""Self-test of the C07 check (BUILDERS.md "Self-test before you report"): hand-made mutations of fsic/fortran.py in
a scratch copy of /repo; each must make `./check C07 quick` exit 1 with a VIOLATION line, the harmless ones must
leave it at exit 0.  Not a registered command.   usage: harness/selftest_c07.py [name ...]"""
import os, shutil, subprocess, sys, tempfile

VERIF = os.path.dirname(os.path.dirname(os.path.abspath(__file__)))
LAGS_BLOCK = ("  if(index <= lags) then\n     error_code = index_error_lags\n     return\n"
              "  else if(index > (ncols - leads)) then\n     error_code = index_error_leads\n     return\n  end if\n")

# name -> (expected exit code, [(old, new), ...]) applied to fsic/fortran.py
MUTATIONS = {
    'offset-sign': (1, [("match[2].replace('t', 'index')",
                         "match[2].replace('t', 'index').replace('-', '#').replace('+', '-').replace('#', '+')")]),
    'param-numbering': (1, [("itertools.chain(endogenous, exogenous, parameters, errors), start=1",
                             "itertools.chain(endogenous, exogenous, errors, parameters), start=1")]),
    'numbering-start': (1, [("itertools.chain(endogenous, exogenous, parameters, errors), start=1",
                             "itertools.chain(endogenous, exogenous, parameters, errors), start=0")]),
    'iter-adjust-dropped': (1, [("  if(.not. converged) then\n     iteration = iteration - 1\n  end if\n", "")]),
    'template-code-swap': (1, [("numerical_error_raise = 21", "numerical_error_raise = 22"),
                               ("numerical_error_skip = 22", "numerical_error_skip = 21")]),
    'wrapper-code-swap': (1, [("elif error_code == 22 and errors == 'skip':\n            status = SolutionStatus.SKIPPED.value",
                               "elif error_code == 21 and errors == 'skip':\n            status = SolutionStatus.SKIPPED.value")]),
    'error-option-swap': (1, [("'skip':    1,\n        'ignore':  2,", "'skip':    2,\n        'ignore':  1,")]),
    'tol-le': (1, [("if(all(abs(diff) < tol)) then", "if(all(abs(diff) <= tol)) then")]),
    'tol-no-abs': (1, [("if(all(abs(diff) < tol)) then", "if(all(diff < tol)) then")]),
    'all-to-any': (1, [("if(all(abs(diff) < tol)) then", "if(any(abs(diff) < tol)) then")]),
    'fortran-offset-copy-skipped': (1, [("     solved_values(endogenous, index) = solved_values(endogenous, offset_location)\n", "")]),
    'python-offset-copy-skipped': (1, [("            for name in self.endogenous:\n                self.__dict__['_' + name][t] = self.__dict__['_' + name][t + offset]\n", "")]),
    'lags-check-lt': (1, [(LAGS_BLOCK + "\n  ! ----", LAGS_BLOCK.replace("index <= lags", "index < lags") + "\n  ! ----"),
                          (LAGS_BLOCK + "\n  ! Optionally", LAGS_BLOCK.replace("index <= lags", "index < lags") + "\n  ! Optionally")]),
    'leads-check-ge': (1, [("else if(index > (ncols - leads)) then", "else if(index >= (ncols - leads)) then")]),
    'evaluate-t-not-shifted': (1, [("self.values.astype(float), t + 1\n", "self.values.astype(float), t\n")]),
    'solve-index-shift': (1, [("[t + 1 for t in indexes]", "[t + 2 for t in indexes]")]),
    'min-iter-le': (1, [("if(iteration < min_iter) then", "if(iteration <= min_iter) then")]),
    'solve-no-stop-on-failure': (1, [("        else if(failure_control == failure_control_raise) then\n           ! Failed to converge: Raise an error as required\n           return\n",
                                      "        else if(failure_control == failure_control_raise) then\n           ! Failed to converge: Raise an error as required\n           continue\n")]),
    'solve-iterations-off-by-one': (1, [("                self.status[t] = SolutionStatus.FAILED.value\n                self.iterations[t] = iteration\n                solved[i] = False\n",
                                         "                self.status[t] = SolutionStatus.FAILED.value\n                self.iterations[t] = iteration - 1\n                solved[i] = False\n")]),
    'loop-one-trip-short': (1, [("  do iteration = 1, max_iter\n", "  do iteration = 1, max_iter - 1\n")]),
    'negative-t-normalisation': (1, [("  index = t\n  if(index < 1) then\n     index = index + ncols\n  end if\n\n  ! Error if `index` is still out of bounds\n  if(index < 1) then\n     error_code = index_error_below\n     return\n  else if(index > ncols) then\n     error_code = index_error_above\n     return\n  end if\n\n  ! Check that `index` allows for enough lags and leads\n  if(index <= lags) then\n     error_code = index_error_lags\n     return\n  else if(index > (ncols - leads)) then\n     error_code = index_error_leads\n     return\n  end if\n\n  ! Optionally",
                                      "  index = t\n  if(index < 1) then\n     index = index + ncols - 1\n  end if\n\n  ! Error if `index` is still out of bounds\n  if(index < 1) then\n     error_code = index_error_below\n     return\n  else if(index > ncols) then\n     error_code = index_error_above\n     return\n  end if\n\n  ! Check that `index` allows for enough lags and leads\n  if(index <= lags) then\n     error_code = index_error_lags\n     return\n  else if(index > (ncols - leads)) then\n     error_code = index_error_leads\n     return\n  end if\n\n  ! Optionally")]),
    'nonconvergence-not-raised': (1, [("        if status == SolutionStatus.FAILED.value and failures == 'raise':", "        if status == SolutionStatus.FAILED.value and failures == 'never':")]),
    'codegen-keyerror': (1, [("variables_to_numbers[match[1]]", "variables_to_numbers[match[2]]")]),
    'engine-crash-wild-index': (1, [("match[2].replace('t', 'index')", "match[2].replace('t', 'index*10000000')")]),
    # regressions of the four repairs (need a base tree that has c07-fix1..4: FSIC_BASE=<copy> or /repo once applied)
    'revert-fix1-both-sites': (1, [("[self.names.index(x) + 1 for x in self.check]", "[self.names.index(x) for x in self.check]")]),
    'revert-fix2': (1, [("  error_code = 0\n\n  do iteration = 1, max_iter\n", "  do iteration = 1, max_iter\n")]),
    'revert-fix3-solve-dispatch': (1, [("            elif error_code in (11, 12, 13, 14):\n                raise IndexError(",
                                        "            elif error_code in (111, 112, 113, 114):\n                raise IndexError(")]),
    'revert-fix3-upfront-check': (1, [("        if t_position - self.lags < 0 or t_position + self.leads >= len(self.span):\n            raise IndexError(",
                                       "        if False:\n            raise IndexError(")]),
    'revert-fix4': (1, [("     else if(.not. (error_code == numerical_error_skip .and. error_control == error_control_skip)) then",
                         "     else if(error_control == error_control_raise) then")]),
    # history: the wrapper's solve() resets the record of every period it hands over before stamping the results
    'solve-resets-record': (1, [("        # Loop through results information and update object and return values\n",
                                 "        for t_ in indexes:\n            self.status[t_] = '-'\n            self.iterations[t_] = -1\n\n        # Loop through results information and update object and return values\n")]),
    # layout: the equation comment is emitted verbatim, so a line break inside it would land as bare text
    'comment-with-newline': (1, [("        block = f'! {equation}\\n' + ", "        block = f'! {equation[:len(equation) // 2]}\\n{equation[len(equation) // 2:]}\\n' + ")]),
    # entry point x indexed left-hand side: _evaluate writes back only period t of what the engine returned
    'evaluate-writes-back-only-t': (1, [("        # If here, store the values back to this Python instance\n        self.values = solved_values\n",
                                         "        # If here, store the values back to this Python instance\n        for name_, row_ in zip(self.names, solved_values):\n            self.__dict__['_' + name_][t] = row_[t]\n")]),
    # instance dtype: the NaN/Inf guard of solve_t applied to a fancy-indexed block (dtype object -> TypeError)
    'solve_t-guard-on-packed-values': (1, [("        current_values = get_check_values()\n\n        # Raise an exception if there are pre-existing NaNs or infinities, and\n        # error checking is at its strictest ('raise')\n        if errors == 'raise' and np.any(~np.isfinite(current_values)):\n            raise SolutionError(\n                f'Pre-existing NaNs or infinities found '\n                f'in one or more `CHECK` variables '",
                                            "        current_values = self.values[[self.names.index(x) for x in self.check], t]\n\n        # Raise an exception if there are pre-existing NaNs or infinities, and\n        # error checking is at its strictest ('raise')\n        if errors == 'raise' and np.any(~np.isfinite(current_values)):\n            raise SolutionError(\n                f'Pre-existing NaNs or infinities found '\n                f'in one or more `CHECK` variables '")]),
    # harmless: must stay exit 0
    'refactor-rename-reorder': (0, [("variables_to_numbers", "numbering"),
                                    ("    endogenous = [s.name for s in symbols if s.type == Type.ENDOGENOUS]\n    exogenous  = [s.name for s in symbols if s.type == Type.EXOGENOUS]\n",
                                     "    exogenous  = [s.name for s in symbols if s.type == Type.EXOGENOUS]\n    endogenous = [s.name for s in symbols if s.type == Type.ENDOGENOUS]\n")]),
    'refactor-wrap-width': (0, [("wrap_width: int = 100", "wrap_width: int = 72")]),
    'refactor-wrapper-locals': (0, [("        converged = bool(converged)\n", "        converged = True if converged else False\n"),
                                    ("t_check", "t_position")]),
}


def run(name):
    expect, edits = MUTATIONS[name]
    work = tempfile.mkdtemp(prefix='fsic-c07-selftest-')
    try:
        dst = os.path.join(work, 'repo')
        shutil.copytree(os.environ.get('FSIC_BASE', '/repo'), dst,
                        ignore=shutil.ignore_patterns('.git', '*.f95', '__pycache__', '*.so'))
        path = os.path.join(dst, 'fsic', 'fortran.py')
        src = open(path).read()
        for old, new in edits:
            if old not in src:
                return name, expect, None, 'PATTERN NOT FOUND: ' + old[:60]
            src = src.replace(old, new)
        open(path, 'w').write(src)
        env = dict(os.environ, FSIC_REPO=dst)
        p = subprocess.run([os.path.join(VERIF, 'check'), 'C07', 'quick'], env=env, stdout=subprocess.PIPE,
                           stderr=subprocess.STDOUT, text=True)
        lines = p.stdout.strip().splitlines()
        viol = [l for l in lines if l.startswith('VIOLATION')]
        return name, expect, p.returncode, (viol[0] if viol else '') + ' | ' + (lines[-1] if lines else '')
    finally:
        shutil.rmtree(work, ignore_errors=True)


if __name__ == '__main__':
    names = sys.argv[1:] or list(MUTATIONS)
    bad = 0
    for n in names:
        name, expect, code, info = run(n)
        ok = code == expect and (expect == 0 or 'VIOLATION' in info)
        bad += 0 if ok else 1
        print(f"{'ok  ' if ok else 'FAIL'} {name:32s} expected exit {expect} got {code}  {info[:230]}", flush=True)
    # leave Generated.lean / the build in the state of the real tree
    subprocess.run([os.path.join(VERIF, 'check'), '--setup'], stdout=subprocess.DEVNULL, stderr=subprocess.DEVNULL)
    sys.exit(1 if bad else 0)
