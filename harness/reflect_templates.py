"""Reflected tables for the parser family (C15): the annotation- and docstring-stripped AST skeletons of
`MODEL_TEMPLATE_TYPED` and `MODEL_TEMPLATE_UNTYPED`, as /repo declares them now.

Both templates are filled with the same placeholder values, parsed with `ast`, stripped of everything that cannot
change behaviour (annotations: `AnnAssign` -> `Assign`, argument annotations, `returns`; docstrings) and dumped.
`Proofs/C15.lean: template_skeletons_equal` is then an equality of the two reflected constants: editing one
template and not the other (a default value, a keyword name, a class attribute, a hook) breaks that proof."""
import ast
import collections

from reflect import lstr, llist


class _Placeholders(collections.defaultdict):
    def __missing__(self, key):
        return f'__{key.upper()}__'


def _is_docstring(node):
    return isinstance(node, ast.Expr) and isinstance(node.value, ast.Constant) and isinstance(node.value.value, str)


class _Strip(ast.NodeTransformer):
    def _body(self, node):
        self.generic_visit(node)
        if getattr(node, 'body', None) and _is_docstring(node.body[0]):
            node.body = node.body[1:]
        if hasattr(node, 'body') and not node.body and not isinstance(node, ast.Module):
            node.body = [ast.Pass()]
        return node

    def visit_Module(self, node):
        return self._body(node)

    def visit_ClassDef(self, node):
        return self._body(node)

    def visit_FunctionDef(self, node):
        node.returns = None
        node.type_comment = None
        return self._body(node)

    visit_AsyncFunctionDef = visit_FunctionDef

    def visit_arg(self, node):
        node.annotation = None
        node.type_comment = None
        return node

    def visit_AnnAssign(self, node):
        self.generic_visit(node)
        if node.value is None:  # a bare annotation defines nothing
            return None
        return ast.Assign(targets=[node.target], value=node.value, type_comment=None)


def skeleton(template):
    values = _Placeholders()
    values['equations'] = '        pass'
    tree = ast.parse(template.format_map(values))
    tree = _Strip().visit(tree)
    ast.fix_missing_locations(tree)
    stmts = []
    for node in tree.body:
        if isinstance(node, ast.ClassDef):
            stmts += [ast.dump(s) for s in node.body]
        else:
            stmts.append(ast.dump(node))
    return ast.dump(tree), stmts


def tables():
    from fsic import parser
    L = []
    for lean_name, attr in (('templateTyped', 'MODEL_TEMPLATE_TYPED'), ('templateUntyped', 'MODEL_TEMPLATE_UNTYPED')):
        try:
            dump, stmts = skeleton(getattr(parser, attr))
        except Exception as e:  # noqa: BLE001  (a template that no longer parses: reflect that fact, do not crash)
            dump, stmts = f'<unparseable {attr}: {type(e).__name__}>', []
        L.append(f'/-- `ast.dump` of `{attr}` (placeholders filled, annotations and docstrings stripped). -/')
        L.append(f'def {lean_name}Skeleton : String := {lstr(dump)}')
        L.append(f'/-- The statements of the class body of `{attr}`, in order. -/')
        L.append(f'def {lean_name}Stmts : List String := ' + llist(lstr(s) for s in stmts))
    return L
