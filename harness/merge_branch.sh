#!/bin/sh
# usage: merge_branch.sh <branch> "<message>"  — merge a builder branch; evidence/manifest/results conflicts take theirs
cd /verif || exit 2
git add -A; git commit -q -m "evidence refresh" 2>/dev/null
git merge --no-commit "$1" 2>&1 | grep -i "conflict" 
for f in $(git status --short | grep -E "^(UU|AA)" | awk '{print $2}'); do
  case $f in evidence/*|MANIFEST.json|seeded/RESULTS.json) git checkout --theirs $f; git add $f;; *) echo "REAL CONFLICT $f"; exit 1;; esac
done
git commit -q -m "$2"
harness/gen_manifest.py | tail -1
./check --setup | tail -1
