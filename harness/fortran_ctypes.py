"""gfortran + ctypes stand-in for the f2py extension module that `fsic.fortran.FortranEngine` expects as `ENGINE`.

`numpy.f2py` cannot build extension modules in this sandbox (no Meson tool chain), so the text returned by
`build_fortran_definition` is compiled with `gfortran -shared -fPIC` and the three external subroutines
(`evaluate_`, `solve_t_`, `solve_`) are called through ctypes.  `Engine` exposes exactly the call signatures f2py
derives from the subroutine declarations of FORTRAN_TEMPLATE:

    solved_values, error_code                          = ENGINE.evaluate(initial_values, t)
    solved_values, converged, iteration, error_code    = ENGINE.solve_t(initial_values, t, min_iter, max_iter, tol,
                                                                        offset, convergence_variables, error_control)
    solved_values, convergence_results, iterations, solution_error_codes
                                                       = ENGINE.solve(initial_values, indexes, min_iter, max_iter, tol,
                                                                      offset, convergence_variables, failure_control,
                                                                      error_control)

As f2py does: `intent(in)` arrays are copied into Fortran (column-major) order, `intent(out)` arrays are fresh
Fortran-ordered arrays, scalars are passed by reference as C int / double, hidden dimension arguments (nrows, ncols,
nvars, nperiods) are taken from the array shapes, a scalar `logical` comes back as an int and a `logical` array as
an int array.  This shim is part of the trusted base of C07 (it stands in for f2py)."""
import ctypes, os, subprocess

import numpy as np

c_int = ctypes.c_int
c_double = ctypes.c_double
_dp = ctypes.POINTER(c_double)
_ip = ctypes.POINTER(c_int)


class CompileError(Exception):
    def __init__(self, log):
        super().__init__(log[-2000:])
        self.log = log


def compile_fortran(source, workdir, name='m', timeout=120):
    """Compile `source` into `<workdir>/<name>.so`; returns the path.  Raises CompileError with gfortran's output."""
    os.makedirs(workdir, exist_ok=True)
    src = os.path.join(workdir, name + '.f95')
    so = os.path.join(workdir, name + '.so')
    with open(src, 'w') as f:
        f.write(source)
    p = subprocess.run(['gfortran', '-shared', '-fPIC', '-O0', '-Wl,-Bsymbolic', '-J', workdir, '-o', so, src], cwd=workdir,
                       stdout=subprocess.PIPE, stderr=subprocess.STDOUT, text=True, timeout=timeout)
    if p.returncode != 0 or not os.path.exists(so):
        raise CompileError(p.stdout)
    return so


def _f64_in(a):
    a = np.array(a, dtype=np.float64, order='F', copy=True)
    if a.ndim != 2:
        raise ValueError('initial_values must be 2-dimensional')
    return a


def _f64_out(nrows, ncols):
    """Fresh Fortran-ordered output block.  One extra double (0.0) precedes it in memory: the template reads
    `solved_values(0, 1)` when a convergence row number 0 is passed (see C07 finding
    `convergence-variables-zero-based`), which is outside the array; the guard makes that read deterministic."""
    buf = np.zeros(nrows * ncols + 1, dtype=np.float64)
    return buf[1:].reshape((nrows, ncols), order='F')


def _i32_in(xs):
    a = np.array(list(xs), dtype=np.int32)
    if a.ndim != 1:
        raise ValueError('expected a 1-dimensional integer sequence')
    return np.ascontiguousarray(a)


class Engine:
    """Object with the attribute interface of an f2py module built from FORTRAN_TEMPLATE."""

    def __init__(self, so_path):
        self._lib = ctypes.CDLL(so_path)
        self._evaluate = self._lib.evaluate_
        self._solve_t = self._lib.solve_t_
        self._solve = self._lib.solve_
        for f in (self._evaluate, self._solve_t, self._solve):
            f.restype = None

    # subroutine evaluate(initial_values, t, solved_values, error_code, nrows, ncols)
    def evaluate(self, initial_values, t):
        iv = _f64_in(initial_values)
        nrows, ncols = iv.shape
        out = _f64_out(nrows, ncols)
        code = c_int(0)
        self._evaluate(iv.ctypes.data_as(_dp), ctypes.byref(c_int(int(t))), out.ctypes.data_as(_dp),
                       ctypes.byref(code), ctypes.byref(c_int(nrows)), ctypes.byref(c_int(ncols)))
        return out, int(code.value)

    # subroutine solve_t(initial_values, t, min_iter, max_iter, tol, offset, convergence_variables, error_control,
    #                    solved_values, converged, iteration, error_code, nrows, ncols, nvars)
    def solve_t(self, initial_values, t, min_iter, max_iter, tol, offset, convergence_variables, error_control):
        iv = _f64_in(initial_values)
        nrows, ncols = iv.shape
        cv = _i32_in(convergence_variables)
        out = _f64_out(nrows, ncols)
        converged, iteration, code = c_int(0), c_int(0), c_int(0)
        self._solve_t(iv.ctypes.data_as(_dp), ctypes.byref(c_int(int(t))), ctypes.byref(c_int(int(min_iter))),
                      ctypes.byref(c_int(int(max_iter))), ctypes.byref(c_double(float(tol))),
                      ctypes.byref(c_int(int(offset))), cv.ctypes.data_as(_ip), ctypes.byref(c_int(int(error_control))),
                      out.ctypes.data_as(_dp), ctypes.byref(converged), ctypes.byref(iteration), ctypes.byref(code),
                      ctypes.byref(c_int(nrows)), ctypes.byref(c_int(ncols)), ctypes.byref(c_int(len(cv))))
        return out, int(converged.value != 0), int(iteration.value), int(code.value)

    # subroutine solve(initial_values, indexes, min_iter, max_iter, tol, offset, convergence_variables,
    #                  failure_control, error_control, solved_values, convergence_results, iterations,
    #                  solution_error_codes, nrows, ncols, nvars, nperiods)
    def solve(self, initial_values, indexes, min_iter, max_iter, tol, offset, convergence_variables,
              failure_control, error_control):
        iv = _f64_in(initial_values)
        nrows, ncols = iv.shape
        idx = _i32_in(indexes)
        cv = _i32_in(convergence_variables)
        nper = len(idx)
        out = _f64_out(nrows, ncols)
        conv = np.zeros(nper, dtype=np.int32)
        iters = np.zeros(nper, dtype=np.int32)
        codes = np.zeros(nper, dtype=np.int32)
        self._solve(iv.ctypes.data_as(_dp), idx.ctypes.data_as(_ip), ctypes.byref(c_int(int(min_iter))),
                    ctypes.byref(c_int(int(max_iter))), ctypes.byref(c_double(float(tol))),
                    ctypes.byref(c_int(int(offset))), cv.ctypes.data_as(_ip),
                    ctypes.byref(c_int(int(failure_control))), ctypes.byref(c_int(int(error_control))),
                    out.ctypes.data_as(_dp), conv.ctypes.data_as(_ip), iters.ctypes.data_as(_ip),
                    codes.ctypes.data_as(_ip),
                    ctypes.byref(c_int(nrows)), ctypes.byref(c_int(ncols)), ctypes.byref(c_int(len(cv))),
                    ctypes.byref(c_int(nper)))
        return out, (conv != 0).astype(np.int32), iters, codes


def build_engine(source, workdir, name='m'):
    return Engine(compile_fortran(source, workdir, name))
