"""Generator of fsic model scripts from a grammar AST, with layouts, a reference interpreter and the
property-level expectations (symbol classes, lags/leads).  Shared by the parser-side properties
(C01, C03, C04, C13, C14, C15, C20).

The AST is the *meaning* of a script; `render(program, layout)` is one of its many texts.  Everything that the
properties say about "the equations written in the script" is computed here from the AST alone, never from fsic.
"""
import ast as _pyast
import itertools
import math
import random
from dataclasses import dataclass, field
from typing import List, Optional, Union

import numpy as np

# ---------------------------------------------------------------------------------------------------------------
# AST


@dataclass(frozen=True)
class Term:
    kind: str                      # 'var' | 'param' | 'error'
    name: str
    index: Union[int, str, None]   # int offset, None (= no index written), or a named period: ("'2001'") / ('`2001`')

    @property
    def offset(self):
        return self.index if isinstance(self.index, int) else 0


@dataclass(frozen=True)
class Num:
    text: str


@dataclass(frozen=True)
class Un:
    op: str            # '-' | 'not'
    e: 'Expr'


@dataclass(frozen=True)
class Bin:
    op: str            # + - * / ** < > <= >= == != and or
    l: 'Expr'
    r: 'Expr'


@dataclass(frozen=True)
class Call:
    fname: str         # exp log max min abs np.sqrt np.maximum ...
    args: tuple


@dataclass(frozen=True)
class IfElse:
    a: 'Expr'
    c: 'Expr'
    b: 'Expr'


@dataclass(frozen=True)
class Verb:
    text: str          # partial verbatim fragment, written between single backticks


Expr = Union[Term, Num, Un, Bin, Call, IfElse, Verb]


@dataclass(frozen=True)
class Equation:
    lhs: Term
    rhs: Expr


@dataclass(frozen=True)
class VerbatimBlock:
    lines: tuple       # fenced ``` block


@dataclass
class Program:
    statements: List[Union[Equation, VerbatimBlock]]


# precedence (higher binds tighter)
PREC = {'ifelse': 1, 'or': 2, 'and': 3, 'not': 4, 'cmp': 5, '+': 6, '-': 6, '*': 7, '/': 7, 'neg': 8, '**': 9, 'atom': 10}
CMP = ('<', '>', '<=', '>=', '==', '!=')


def prec(e):
    if isinstance(e, IfElse):
        return PREC['ifelse']
    if isinstance(e, Bin):
        if e.op in CMP:
            return PREC['cmp']
        return PREC[e.op]
    if isinstance(e, Un):
        return PREC['neg'] if e.op == '-' else PREC['not']
    if isinstance(e, Num) and e.text.startswith('-'):
        return PREC['neg']
    return PREC['atom']


# ---------------------------------------------------------------------------------------------------------------
# Layout


@dataclass
class Layout:
    """Every choice the renderer makes that must not change the meaning."""
    rng: Optional[random.Random] = None
    op_space: str = ' '            # around binary operators (keywords always get at least one space)
    brace_space: str = ''          # inside { } and < >
    index_space: str = ''          # inside [ ]
    explicit_zero: bool = False    # write [0] where no index is needed
    plus_sign: bool = False        # write [+1] instead of [1]
    call_space: str = ''           # between function name and (
    paren_space: str = ''          # after ( and before )
    comma_space: str = ' '
    eq_space: str = ' '
    wrap_rhs: bool = False         # (rhs) with a line break after every top-level binary operator
    inner_blank: bool = False      # with wrap_rhs: blank / whitespace-only / comment-only lines between the physical
                                   # lines of one statement (while its parenthesis is still open)
    comment: bool = False          # trailing comment on each statement
    blank_lines: int = 0           # blank / comment-only lines between statements
    vary: bool = False             # draw each spacing independently from rng at every site

    def sp(self, base, options=('', ' ', '  ', '\t')):
        if self.vary and self.rng is not None:
            return self.rng.choice(options)
        return base


PLAIN = Layout()


def random_layout(rng):
    return Layout(rng=rng, op_space=rng.choice(['', ' ', '  ']), brace_space=rng.choice(['', ' ', '  ']),
                  index_space=rng.choice(['', ' ', '  ']), explicit_zero=rng.random() < 0.4,
                  plus_sign=rng.random() < 0.4, call_space=rng.choice(['', ' ', '  ']),
                  paren_space=rng.choice(['', ' ']), comma_space=rng.choice(['', ' ', '  ']),
                  eq_space=rng.choice(['', ' ', '   ']), wrap_rhs=rng.random() < 0.3, inner_blank=rng.random() < 0.4,
                  comment=rng.random() < 0.3,
                  blank_lines=rng.choice([0, 0, 1, 2]), vary=rng.random() < 0.5)


LAYOUT_CATALOGUE = {
    'plain': dict(),
    'tight': dict(op_space='', comma_space='', eq_space=''),
    'wide': dict(op_space='  ', eq_space='   ', comma_space='  '),
    'brace_spaces': dict(brace_space=' '),
    'index_spaces': dict(index_space=' '),
    'explicit_zero': dict(explicit_zero=True),
    'plus_sign': dict(plus_sign=True),
    'call_space': dict(call_space=' '),
    'paren_space': dict(paren_space=' '),
    'wrapped': dict(wrap_rhs=True),
    'wrapped_blank': dict(wrap_rhs=True, inner_blank=True),
    'comments': dict(comment=True, blank_lines=1),
    'blank_lines': dict(blank_lines=2),
}


def catalogue_layout(name, rng=None):
    return Layout(rng=rng, **LAYOUT_CATALOGUE[name])


def render_index(ix, L: Layout, lhs=False):
    """`lhs=True`: no whitespace inside the brackets (the statement regex wants a whitespace-free left-hand side
    unless the whole statement starts with a parenthesis; see the LHS-space finding in C14)."""
    sp = (lambda: '') if lhs else (lambda: L.sp(L.index_space))
    if ix is None or ix == 0:
        if ix == 0 or L.explicit_zero:
            return f'[{sp()}0{sp()}]'
        return ''
    if isinstance(ix, int):
        txt = (f'+{ix}' if (ix > 0 and L.plus_sign) else str(ix))
    else:
        txt = ix
    return f'[{sp()}{txt}{sp()}]'


def render_term(t: Term, L: Layout, lhs=False):
    ix = render_index(t.index, L, lhs=lhs)
    if t.kind == 'var':
        return t.name + ix
    if t.kind == 'param':
        return '{' + L.sp(L.brace_space) + t.name + L.sp(L.brace_space) + '}' + ix
    if t.kind == 'error':
        return '<' + L.sp(L.brace_space) + t.name + L.sp(L.brace_space) + '>' + ix
    raise AssertionError(t.kind)


def render_expr(e, L: Layout, ctx=0, top_break=False):
    """`ctx` = minimal precedence allowed without parentheses."""
    p = prec(e)
    if isinstance(e, Term):
        s = render_term(e, L)
    elif isinstance(e, Num):
        s = e.text
    elif isinstance(e, Verb):
        s = '`' + e.text + '`'
    elif isinstance(e, Call):
        inner = (',' + L.sp(L.comma_space)).join(render_expr(a, L, 0) for a in e.args)
        s = e.fname + L.sp(L.call_space, ('', ' ', '  ')) + '(' + L.sp(L.paren_space, ('', ' ')) + inner + L.sp(L.paren_space, ('', ' ')) + ')'
    elif isinstance(e, Un):
        if e.op == '-':
            s = '-' + render_expr(e.e, L, PREC['neg'])
        else:
            s = 'not ' + render_expr(e.e, L, PREC['not'])
    elif isinstance(e, IfElse):
        s = (render_expr(e.a, L, PREC['ifelse'] + 1) + ' ' + L.sp('', ('', ' ')) + 'if ' +
             render_expr(e.c, L, PREC['ifelse'] + 1) + ' else ' + render_expr(e.b, L, PREC['ifelse']))
    elif isinstance(e, Bin):
        if e.op == '**':
            l = render_expr(e.l, L, p + 1)
            r = render_expr(e.r, L, PREC['neg'])     # right operand of ** may be a unary minus or another **
        elif e.op in CMP:
            l = render_expr(e.l, L, p + 1)
            r = render_expr(e.r, L, p + 1)
        else:
            l = render_expr(e.l, L, p)
            r = render_expr(e.r, L, p + 1)
        if e.op in ('and', 'or'):
            sp_l = sp_r = ' '
        else:
            sp_l, sp_r = L.sp(L.op_space, ('', ' ', '  ')), L.sp(L.op_space, ('', ' ', '  '))
        if top_break:
            sp_r = sp_r + '\n'
            if L.inner_blank:
                k = L.rng.randrange(4) if L.rng else 3
                if k == 1:
                    sp_r += '\n'
                elif k == 2:
                    sp_r += '   \t\n'
                elif k == 3:
                    sp_r += (L.rng.choice(['    ', '', '\t']) if L.rng else '    ') + render_comment(L, 'comment-only line') + '\n'
            sp_r += ' ' * (L.rng.choice([0, 4, 8]) if L.rng else 4)
        s = l + sp_l + e.op + sp_r + r
    else:
        raise AssertionError(e)
    if p < ctx:
        s = '(' + L.sp(L.paren_space, ('', ' ')) + s + L.sp(L.paren_space, ('', ' ')) + ')'
    return s


# comment texts: a comment is stripped before anything else looks at the line, so brackets, braces, backticks and
# equation-like text inside it must be inert (unbalanced on purpose)
COMMENTS = ['comment', 'Y = X', '{a} <e> [1]', '', 'a) income identity', '(continued below', 'see f(x', ')) ((', '} {', '` tick',
            '# nested', 'Z = (1 +']


def render_comment(L: 'Layout', default='comment'):
    """A comment from its `#` to the end of the line, in every SHAPE (not just with every text): `# text`, `#text`
    (no blank), a bare `#` (the usual spacer line of a comment block), `#` followed by blanks or a tab only, `##text`,
    trailing blanks after the text.  Deterministic `# <default>` without an rng."""
    if not L.rng:
        return '# ' + default
    text = L.rng.choice(COMMENTS)
    return L.rng.choice(['# ' + text, '# ' + text, '#' + text, '#', '#', '#   ', '#\t', '##' + text, '## ' + text,
                         '# ' + text + '  ', '#' + text + '\t'])


def comment_gap(L: 'Layout'):
    """What separates code from a trailing comment: blanks, a tab, or nothing at all (`X#c`)."""
    return L.rng.choice(['  ', '  ', ' ', '', '\t']) if L.rng else '  '


def comment_indent(L: 'Layout'):
    """Column of a comment-only line between statements: 0, or indented."""
    return L.rng.choice(['', '', '    ', '\t']) if L.rng else ''


def render_equation(eq: Equation, L: Layout):
    lhs = render_term(eq.lhs, L, lhs=True)
    if L.wrap_rhs:
        rhs = '(' + render_expr(eq.rhs, L, 0, top_break=True) + ')'
    else:
        rhs = render_expr(eq.rhs, L, 0)
    s = lhs + L.sp(L.eq_space, ('', ' ', '   ')) + '=' + L.sp(L.eq_space, ('', ' ', '   ')) + rhs
    if L.comment:
        s += comment_gap(L) + render_comment(L, 'comment')
    return s


def render(prog: Program, L: Layout = PLAIN):
    out = []
    for i, st in enumerate(prog.statements):
        if i and L.blank_lines:
            for j in range(L.blank_lines):
                out.append('' if j % 2 == 0 else comment_indent(L) + render_comment(L, 'a comment-only line'))
        if isinstance(st, Equation):
            out.append(render_equation(st, L))
        else:
            out.append('```')
            out.extend(st.lines)
            out.append('```')
    return '\n'.join(out)


# ---------------------------------------------------------------------------------------------------------------
# Meaning: terms, expected symbols, reference evaluation


def terms_of(e, acc=None):
    """Terms of an expression in left-to-right (script) order."""
    acc = [] if acc is None else acc
    if isinstance(e, Term):
        acc.append(e)
    elif isinstance(e, Un):
        terms_of(e.e, acc)
    elif isinstance(e, Bin):
        terms_of(e.l, acc)
        terms_of(e.r, acc)
    elif isinstance(e, Call):
        for a in e.args:
            terms_of(a, acc)
    elif isinstance(e, IfElse):
        terms_of(e.a, acc)
        terms_of(e.c, acc)
        terms_of(e.b, acc)
    return acc


def functions_of(e, acc=None):
    acc = [] if acc is None else acc
    if isinstance(e, Call):
        acc.append(e.fname)
        for a in e.args:
            functions_of(a, acc)
    elif isinstance(e, Un):
        functions_of(e.e, acc)
    elif isinstance(e, Bin):
        functions_of(e.l, acc)
        functions_of(e.r, acc)
    elif isinstance(e, IfElse):
        functions_of(e.a, acc)
        functions_of(e.c, acc)
        functions_of(e.b, acc)
    return acc


def expected_classes(prog: Program):
    """The property's classification: endogenous iff assigned by some equation, parameter iff in braces, error iff
    in angle brackets, exogenous otherwise; each class in order of first appearance in the script.
    Returns dict(endogenous=[...], exogenous=[...], parameters=[...], errors=[...], lags=int, leads=int,
    conflict=bool) — `conflict` when a name is used both as variable and as parameter/error (must be rejected)."""
    first = {}      # name -> order of first appearance
    kinds = {}      # name -> set of kinds
    assigned = set()
    offsets = []
    order = 0
    for st in prog.statements:
        if not isinstance(st, Equation):
            continue
        for t in [st.lhs] + terms_of(st.rhs):
            if t.name not in first:
                first[t.name] = order
                order += 1
            kinds.setdefault(t.name, set()).add(t.kind)
            offsets.append(t.offset)
        if st.lhs.kind == 'var':
            assigned.add(st.lhs.name)
    conflict = any(len(k) > 1 for k in kinds.values())
    names = sorted(first, key=first.get)
    endo = [n for n in names if n in assigned and kinds[n] == {'var'}]
    exo = [n for n in names if n not in assigned and kinds[n] == {'var'}]
    par = [n for n in names if kinds[n] == {'param'}]
    err = [n for n in names if kinds[n] == {'error'}]
    lags = max([0] + [-o for o in offsets])
    leads = max([0] + offsets)
    return dict(endogenous=endo, exogenous=exo, parameters=par, errors=err, lags=lags, leads=leads, conflict=conflict)


FUNCS = {
    'exp': np.exp, 'log': np.log, 'max': max, 'min': min, 'abs': abs,
    'np.sqrt': np.sqrt, 'np.maximum': np.maximum, 'np.abs': np.abs, 'float': float,
}


import operator as _op
_CMP_FUNCS = {'<': _op.lt, '>': _op.gt, '<=': _op.le, '>=': _op.ge, '==': _op.eq, '!=': _op.ne}


class ReadLog(list):
    pass


def eval_expr(e, read, env=None):
    """Evaluate with Python/NumPy scalar semantics in script order. `read(term)` returns the value of a term."""
    if isinstance(e, Term):
        return read(e)
    if isinstance(e, Num):
        return _pyast.literal_eval(e.text)
    if isinstance(e, Verb):
        return eval(e.text, dict(env or {}))
    if isinstance(e, Un):
        v = eval_expr(e.e, read, env)
        return -v if e.op == '-' else (not v)
    if isinstance(e, Call):
        return FUNCS[e.fname](*[eval_expr(a, read, env) for a in e.args])
    if isinstance(e, IfElse):
        return eval_expr(e.a, read, env) if eval_expr(e.c, read, env) else eval_expr(e.b, read, env)
    if isinstance(e, Bin):
        if e.op == 'and':
            l = eval_expr(e.l, read, env)
            return eval_expr(e.r, read, env) if l else l
        if e.op == 'or':
            l = eval_expr(e.l, read, env)
            return l if l else eval_expr(e.r, read, env)
        l = eval_expr(e.l, read, env)
        r = eval_expr(e.r, read, env)
        if e.op == '+':
            return l + r
        if e.op == '-':
            return l - r
        if e.op == '*':
            return l * r
        if e.op == '/':
            return l / r
        if e.op == '**':
            return l ** r
        return _CMP_FUNCS[e.op](l, r)      # only the comparison written (complex values support == and != only)
    raise AssertionError(e)


def evaluation_order(prog: Program):
    """Equations in *symbol-list order*: by first appearance of the left-hand-side name anywhere in the script
    (a variable mentioned on an earlier right-hand side keeps that earlier slot)."""
    first = {}
    order = 0
    for st in prog.statements:
        if isinstance(st, Equation):
            for t in [st.lhs] + terms_of(st.rhs):
                if t.name not in first:
                    first[t.name] = order
                    order += 1
    eqs = [st for st in prog.statements if isinstance(st, Equation)]
    return sorted(eqs, key=lambda st: first[st.lhs.name])


def reference_pass(prog: Program, data: dict, t: int, locate=None, env=None):
    """One Gauss-Seidel evaluation pass at position t on `data` (name -> 1-D float array, modified in place).
    Returns (writes, reads): lists of (name, position)."""
    writes, reads = [], []

    def pos_of(term):
        if isinstance(term.index, str):
            return locate(term.index)
        return t + term.offset

    def read(term):
        p = pos_of(term)
        reads.append((term.name, p))
        return data[term.name][p]

    for st in evaluation_order(prog):
        v = eval_expr(st.rhs, read, env)
        p = pos_of(st.lhs)
        data[st.lhs.name][p] = v
        writes.append((st.lhs.name, p))
    return writes, reads


# ---------------------------------------------------------------------------------------------------------------
# Generation

VAR_POOL = ['C', 'Y', 'X', 'Z', 'W', 'H_d', 'x1', '_', 'v_', 'is_open', 'Pin', 'not_X', 'e5', 'YD', 'G', 'T',
            'orx', 'For', 'None_', 'k2', 'exp_', 'logx', 'maximum', 'defn']
PARAM_POOL = ['alpha_1', 'a', 'b', 'theta', 'in_', 'k']
ERROR_POOL = ['e', 'u', 'eps_1']
REPLACED = ['exp', 'log', 'max', 'min']
OTHER_FUNCS = ['abs', 'np.sqrt', 'np.maximum', 'np.abs']
NUMS = ['1', '2', '0.5', '3.25', '10', '0.1', '100.0', '7', '1.5', '0.25']
MANGLED_POOL = ['_v', '__x', '_Y1']   # `self._` + name is name-mangled inside the class body (finding)


@dataclass
class GenConfig:
    max_equations: int = 4
    max_depth: int = 3
    max_lag: int = 3
    max_lead: int = 2
    allow_leads: bool = True
    allow_params: bool = True
    allow_errors: bool = True
    allow_calls: bool = True
    allow_cmp: bool = True
    allow_ifelse: bool = True
    allow_verbatim: bool = False
    allow_named_periods: bool = False     # X['2001'] / X[`2001`]
    span_labels: Optional[list] = None    # needed for named periods
    lhs_offsets: bool = False             # LHS written with a lag/lead
    pow_ok: bool = True
    var_pool: List[str] = field(default_factory=lambda: list(VAR_POOL))


def gen_index(rng, cfg, lhs=False):
    r = rng.random()
    if lhs and not cfg.lhs_offsets:
        return rng.choice([None, None, 0])
    if cfg.allow_named_periods and cfg.span_labels and r < 0.1 and not lhs:
        lab = rng.choice(cfg.span_labels)
        return repr(str(lab)) if isinstance(lab, str) else f'`{lab}`'
    if r < 0.45:
        return None
    if r < 0.55:
        return 0
    if r < 0.85 or not cfg.allow_leads:
        return -rng.randint(1, cfg.max_lag) if cfg.max_lag else None
    return rng.randint(1, cfg.max_lead) if cfg.max_lead else None


def gen_term(rng, cfg, names):
    r = rng.random()
    if cfg.allow_params and r < 0.15 and names['param']:
        return Term('param', rng.choice(names['param']), gen_index(rng, cfg) if rng.random() < 0.2 else None)
    if cfg.allow_errors and r < 0.22 and names['error']:
        return Term('error', rng.choice(names['error']), gen_index(rng, cfg) if rng.random() < 0.2 else None)
    return Term('var', rng.choice(names['var']), gen_index(rng, cfg))


# verbatim fragments: passed through untouched, so whitespace inside them (runs of spaces, spaces inside parentheses,
# also inside string literals, where they change the value) must survive
VERBS = ['2.5', '(1 + 1)', 'len(self.span)', "len('a  b')", "float(len('( x )'))", "len( 'p   q\tr' )",
         "len('f (1)  ,  2')", "( 1  +  1 )"]


def gen_expr(rng, cfg, names, depth):
    if depth <= 0 or rng.random() < 0.25:
        r = rng.random()
        if r < 0.2:
            return Num(rng.choice(NUMS))
        if cfg.allow_verbatim and r < 0.25:
            return Verb(rng.choice(VERBS))
        return gen_term(rng, cfg, names)
    r = rng.random()
    if r < 0.55:
        op = rng.choice(['+', '-', '*', '/', '+', '*'] + (['**'] if cfg.pow_ok else []))
        l = gen_expr(rng, cfg, names, depth - 1) if op != '**' else gen_term(rng, cfg, names)
        r_ = gen_expr(rng, cfg, names, depth - 1) if op != '**' else Num(rng.choice(['2', '0.5', '3']))
        return Bin(op, l, r_)
    if r < 0.65:
        return Un('-', gen_expr(rng, cfg, names, depth - 1))
    if r < 0.85 and cfg.allow_calls:
        f = rng.choice(REPLACED + REPLACED + OTHER_FUNCS)
        nargs = 2 if f in ('max', 'min', 'np.maximum') else 1
        return Call(f, tuple(gen_expr(rng, cfg, names, depth - 1) for _ in range(nargs)))
    if r < 0.93 and cfg.allow_ifelse and cfg.allow_cmp:
        c = Bin(rng.choice(CMP), gen_expr(rng, cfg, names, depth - 2), gen_expr(rng, cfg, names, depth - 2))
        if rng.random() < 0.25:
            c = Bin(rng.choice(['and', 'or']), c,
                    Bin(rng.choice(CMP), gen_expr(rng, cfg, names, 0), gen_expr(rng, cfg, names, 0)))
        return IfElse(gen_expr(rng, cfg, names, depth - 1), c, gen_expr(rng, cfg, names, depth - 1))
    return Bin(rng.choice(['+', '-', '*']), gen_expr(rng, cfg, names, depth - 1), gen_expr(rng, cfg, names, depth - 1))


def gen_program(rng, cfg: GenConfig = None) -> Program:
    """A well-formed program: every name has one kind, every endogenous variable one equation, no variable shares its
    name with a function called in the program."""
    cfg = cfg or GenConfig()
    pool = list(cfg.var_pool)
    rng.shuffle(pool)
    nvars = rng.randint(2, min(7, len(pool)))
    names = {'var': pool[:nvars],
             'param': rng.sample(PARAM_POOL, rng.randint(0, 2)) if cfg.allow_params else [],
             'error': rng.sample(ERROR_POOL, rng.randint(0, 1)) if cfg.allow_errors else []}
    neq = rng.randint(1, min(cfg.max_equations, nvars))
    lhs_names = rng.sample(names['var'], neq)
    stmts = []
    for n in lhs_names:
        lhs = Term('var', n, gen_index(rng, cfg, lhs=True))
        stmts.append(Equation(lhs, gen_expr(rng, cfg, names, rng.randint(1, cfg.max_depth))))
    return Program(stmts)


def all_names(prog: Program):
    seen = []
    for st in prog.statements:
        if isinstance(st, Equation):
            for t in [st.lhs] + terms_of(st.rhs):
                if t.name not in seen:
                    seen.append(t.name)
    return seen


def random_data(rng, prog: Program, n: int, lo=0.5, hi=3.0):
    """Finite positive data (so that log / sqrt / ** stay finite most of the time)."""
    return {name: np.array([rng.uniform(lo, hi) for _ in range(n)], dtype=float) for name in all_names(prog)}


# ---------------------------------------------------------------------------------------------------------------
# Exhaustive small statements (tier-independent enumeration used by C01/C14)

SMALL_NAMES = ['C', '_', 'x1', 'H_d', 'is_open', 'Pin', 'not_X', 'e5']
SMALL_INDEXES = [None, 0, -1, 1, -12, 10]


def small_statements(max_terms=2):
    """Y = t1 [op t2] over the stress pool x index forms x term kinds."""
    kinds = ['var', 'param', 'error']
    atoms = [Term(k, n, ix) for k in kinds for n in SMALL_NAMES[:4] for ix in SMALL_INDEXES[:4]]
    atoms += [Term('var', n, ix) for n in SMALL_NAMES[4:] for ix in SMALL_INDEXES]
    lhs = Term('var', 'Y', None)
    for a in atoms:
        if a.name == 'Y':
            continue
        yield Program([Equation(lhs, a)])
    if max_terms >= 2:
        for a, b in itertools.product(atoms[::3], atoms[1::5]):
            if a.name == b.name and a.kind != b.kind:
                continue
            for op in ('+', '*', '-', '/'):
                yield Program([Equation(lhs, Bin(op, a, b))])
        for f in REPLACED + OTHER_FUNCS:
            for a in atoms[::4]:
                args = (a, Num('2')) if f in ('max', 'min', 'np.maximum') else (a,)
                yield Program([Equation(lhs, Call(f, args))])
