#!/venv/bin/python
"""Regenerate MANIFEST.json from the property modules that exist (harness/props/cXX.py) and manifest_meta.json."""
import json, os, sys
HERE = os.path.dirname(os.path.abspath(__file__))
VERIF = os.path.dirname(HERE)
meta = json.load(open(os.path.join(VERIF, 'manifest_meta.json')))
props = [json.loads(l) for l in open(os.path.join(VERIF, 'properties.jsonl'))]


def module_meta(pid):
    """META dict literal of harness/props/<pid>.py (read with ast, the module is not imported)."""
    import ast
    path = os.path.join(HERE, 'props', pid.lower() + '.py')
    if not os.path.exists(path):
        return None
    for node in ast.parse(open(path).read()).body:
        if isinstance(node, ast.Assign) and any(getattr(t, 'id', None) == 'META' for t in node.targets):
            return ast.literal_eval(node.value)
    return None


checks, na = [], []
for p in props:
    pid = p['id']
    m = module_meta(pid)
    if m:
        checks.append({
            'property_id': pid,
            'quick_cmd': f'./check {pid} quick',
            'thorough_cmd': f'./check {pid} thorough',
            'evidence_file': f'/verif/evidence/{pid}.json',
            'replay_cmd_template': f'./check {pid} --replay {{path}}',
            'engine': 'lean4-proof+correspondence',
            'level_claimed': {'category': 'proof', 'text': m['text'], 'design_ref': m['design_ref']},
            'level_note': m['note'],
            'technique': m['technique'],
        })
    else:
        na.append({'property_id': pid, 'reason': meta['not_applicable'].get(pid, 'check not built yet in this round; no claim is made')})
man = {
    'version': 1,
    'setup_cmd': './check --setup',
    'hooks': meta['hooks'],
    'engines': [{'name': 'lean4-proof+correspondence', 'path': 'lean/ + harness/', 'serves_properties': [c['property_id'] for c in checks],
                 'kind_free_text': 'Lean 4 theorems over hand-written executable models (lake build + #print axioms audit), tied to /repo by a differential correspondence check through a native line-protocol driver and by reflected tables; property oracles search the real code for failing inputs'}],
    'checks': checks,
    'notes': meta['notes'],
    'not_applicable': na,
}
json.dump(man, open(os.path.join(VERIF, 'MANIFEST.json'), 'w'), indent=1)
print(f'{len(checks)} checks, {len(na)} not claimed')
