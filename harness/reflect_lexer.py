"""Reflected tables for the lexer model (M2): the keyword alternation of `term_re` and the replacement table as
character lists (so that `decide`/`rfl` over them never has to unfold `String`), plus the group order of `term_re`
(the alternation order the scanner's `matchAt` follows)."""
import keyword, os, sys

REPO = os.environ.get('FSIC_REPO', '/repo')
if REPO not in sys.path:
    sys.path.insert(0, REPO)


def lchar(c):
    if c == "'":
        return "'\\''"
    if c == '\\':
        return "'\\\\'"
    if c == '\n':
        return "'\\n'"
    if 32 <= ord(c) < 127:
        return f"'{c}'"
    return f'(Char.ofNat {ord(c)})'


def lchars(s):
    return '[' + ', '.join(lchar(c) for c in s) + ']'


def tables():
    from fsic import parser
    L = []
    L.append('/-- `keyword.kwlist` as character lists, in the alternation order used inside `term_re`. -/')
    L.append('def keywordChars : List (List Char) := [' + ', '.join(lchars(k) for k in keyword.kwlist) + ']')
    L.append('')
    L.append('/-- `replacement_function_names` as character lists, in insertion order. -/')
    L.append('def replacementChars : List (List Char × List Char) := [' + ', '.join(
        f'({lchars(k)}, {lchars(v)})' for k, v in parser.replacement_function_names.items()) + ']')
    L.append('')
    # order of the named groups of term_re = order of the alternatives (group INDEX is shared by the last three)
    groups = sorted(parser.term_re.groupindex.items(), key=lambda kv: kv[1])
    import sys as _sys
    L.append('/-- `sys.get_int_max_str_digits()`: `int(str)` raises ValueError beyond this many digits (0 = no limit). -/')
    L.append(f'def intMaxStrDigits : Nat := {_sys.get_int_max_str_digits() if hasattr(_sys, "get_int_max_str_digits") else 0}')
    L.append('')
    L.append('/-- Named groups of `term_re` in pattern order. -/')
    L.append('def termGroups : List String := [' + ', '.join('"' + g + '"' for g, _ in groups) + ']')
    return L
