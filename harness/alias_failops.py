"""C18, part (I): histories with FAILING operations — a plain twin in every history and absolute snapshots.

Every case builds an object with `AliasMixin` in front (a model, a linker with an aliased submodel, a plain
container) and the SAME class without the mixin (the plain twin).  Operations — successful and failing ones
interleaved — are applied to the aliased object through randomly chosen spellings and to the plain twin through
the canonical names.  After every operation:

* the outcome is compared with the plain twin's (value / exception family: the aliased operation on a resolvable
  name must fail iff the canonical one fails on the plain twin);
* if the operation failed (and is not one that HEAD applies piecewise) or only reads: the observable state of the
  aliased object itself must be exactly what it was before (`failed-op-changed-state:<field>`,
  `read-op-changed-state:<field>`);
* the observable state must equal the plain twin's (`plain-twin-diverges:<field>`), so that anything the mixin adds
  to the object's storage or name lists is seen, whatever path added it.

The property text only: "aliases create no additional storage", "exactly the effect of the same operation on the
underlying variable", "no data column is changed, dropped or duplicated".  Independent of the Lean model; the model
(`FsicModel/AliasFail.lean`) is compared on the cases that stay inside its operations (`teligible`).
"""
import copy as _copy
import difflib
import json
import keyword
import warnings

import numpy as np

import fsic
from fsic.extensions import AliasMixin
from fsic.exceptions import (DimensionError, DuplicateNameError, FSICError, InitialisationError, NonConvergenceError,
                             SolutionError)

_B = {}


def base():
    """props.c18 (imported lazily: that module imports this one)."""
    if 'm' not in _B:
        import props.c18 as m
        _B['m'] = m
    return _B['m']


# ---------------------------------------------------------------------------------------------------------------
# vocabulary

FAMILIES = [KeyError, IndexError, AttributeError, NotImplementedError, TypeError, DimensionError, DuplicateNameError,
            InitialisationError, NonConvergenceError, SolutionError, FSICError, ValueError, ZeroDivisionError,
            ArithmeticError, LookupError, RuntimeError]


def family(e):
    for f in FAMILIES:
        if isinstance(e, f):
            return f.__name__
    return 'Exception:' + type(e).__name__


MIXIN_ATTRS = ('aliases', 'preferred_names')
READ_OPS = {'getattr', 'getitem', 'getat', 'rawget', 'eval', 'export', 'reindex', 'copy', 'deepcopy', 'closest',
            'contains', 'dir', 'ipython'}
# operations that HEAD applies piecewise before it fails: the plain twin is the reference for what is left behind
PARTIAL_OPS = {'replace', 'solve', 'solve_t', 'solve_period', 'values_set'}
# operations the Lean model has (FsicModel/AliasFail.lean)
MODEL_OPS = {'getattr', 'setattr', 'getitem', 'setitem', 'getat', 'setat', 'replace', 'eval', 'addvar', 'setpref',
             'export', 'closest'}

POOL_PLAIN = ['Y', 'C', 'G', 'H', 'alpha', 'X', 'Cons', 'YD']
# class-member-like names (solver_common.MEMBER_NAMES and more): candidates, filtered by what HEAD constructs
MEMBER_CANDIDATES = ['size', 'copy', 'eval', 'nbytes', 'LAGS', 'CODE', 'reindex', 'values', 'solve_t', 'to_dataframe',
                     'strict_', 'NAMES_', 'NAMES', 'solve', 'replace_values', 'add_variable', 'get_closest_match',
                     'sizes', 'submodels', 'strict', 'names', 'index', 'span', 'dtype', 'lags', 'check', 'engine',
                     'status', 'iterations']
MIXIN_NAMED = ['aliases', 'preferred_names']          # names of the mixin's own attributes, used as variable names
ALIAS_PLAIN = ['GDP', 'income', 'cons', 'wealth', 'k1', 'out', 'gdp_', '_priv']
ALIAS_MEMBER = ['size', 'values', 'copy', 'nbytes', 'eval']   # alias names that are members of the object
NEW_VARS = ['W', 'Z2', 'extra']

KEY_ALIAS_IS_ATTRIBUTE = 'alias-name-is-object-attribute:getattr'
KEY_VAR_IS_MIXIN_ATTRIBUTE = 'variable-named-like-mixin-attribute:getattr'
KEY_ADDVAR_ALIAS = 'add-variable-alias-name:unreachable'
STORAGE_FIELDS = ('names', 'index', '_attributes', 'dict-keys', 'span', 'strict', 'size', 'series', 'attr', 'class', 'submodel-keys')

_USABLE = {}


def usable_member_names():
    """Member-like names that HEAD accepts as variable names of a model (constructed once, on the plain class)."""
    if 'names' not in _USABLE:
        ok = []
        for nm in MEMBER_CANDIDATES:
            try:
                cls = type('Probe', (fsic.BaseModel,), dict(ENDOGENOUS=['Y'], EXOGENOUS=[nm], NAMES=['Y', nm], CHECK=['Y']))
                cls(list(range(3)))
                ok.append(nm)
            except Exception:  # noqa: BLE001
                pass
        _USABLE['names'] = ok
    return _USABLE['names']


RESERVED = {'names', 'index', 'span', 'dtype', 'lags', 'leads', 'endogenous', 'check', 'engine', 'strict', 'values',
            'aliases', 'preferred_names', 'status', 'iterations', 'submodels', 'name', 'size', 'nbytes', 'sizes',
            'ALIASES', 'PREFERRED_NAMES', 'NAMES', 'ENDOGENOUS', 'EXOGENOUS', 'CHECK', 'LAGS', 'LEADS', 'CODE'}


def typo(rng, name):
    """A near miss of `name` (never the name of an attribute the classes themselves rely on)."""
    for _ in range(8):
        t = _typo(rng, name)
        if t not in RESERVED and not hasattr(fsic.BaseLinker, t) and not hasattr(fsic.BaseModel, t):
            return t
    return name + 'x9'


def _typo(rng, name):
    r = rng.random()
    if r < 0.2 and len(name) > 1:
        i = rng.randrange(len(name))
        return name[:i] + name[i + 1:]
    if r < 0.45:
        i = rng.randrange(len(name) + 1)
        return name[:i] + rng.choice('xqz') + name[i:]
    if r < 0.6:
        return name + name[-1]
    if r < 0.8:
        return name.swapcase() if name.swapcase() != name else name + 'x'
    return name.lower() if name.lower() != name else name.upper() if name.upper() != name else name + '_'


def closest_py(names, name, cutoff=0.1):
    """What `get_closest_match(name, possibilities=names)` is documented to return (difflib on the lower-cased names,
    every spelling of the winner)."""
    cands = {}
    for x in names:
        cands[x.lower()] = cands.get(x.lower(), []) + [x]
    hit = difflib.get_close_matches(name.lower(), cands.keys(), n=1, cutoff=cutoff)
    return cands[hit[0]] if hit else []


# ---------------------------------------------------------------------------------------------------------------
# classes

def _sub_evaluate(self, t, **kwargs):
    self['Y'][t] = 0.25 * self['Y'][t - 1] + 0.5 * self['G'][t]


_SUB = {}


def sub_class(extra=()):
    """Submodel class Y, G plus `extra` exogenous variables (underscore twins / member-like names)."""
    key = tuple(extra)
    if key not in _SUB:
        names = ['Y', 'G'] + list(extra)
        _SUB[key] = type('Sub', (fsic.BaseModel,), dict(ENDOGENOUS=['Y'], EXOGENOUS=names[1:], NAMES=names,
                                                         CHECK=['Y'], LAGS=1, LEADS=0, _evaluate=_sub_evaluate))
    return _SUB[key]


def build_pair(case):
    """[(aliased, plain, map)] — the main object first, then (linker) the aliased submodel.  Raises whatever the
    constructors raise, separately for the two sides: returns (objs | None, err_a, err_p)."""
    b = base()
    kind, span = case['kind'], case['span']
    m, pref = dict(map(tuple, case['m'])), list(case['pref'])
    Base = b.opts_base(kind, case['endo'], case['exo'])
    A = type('Aliased', (AliasMixin, Base), {'ALIASES': dict(m), 'PREFERRED_NAMES': list(pref)})
    kw_a = dict(case['kwargs'])
    kw_p = {b.chain_end(m, k): v for k, v in kw_a.items()}
    strict = case['strict']
    extra = []

    def make(cls, kw, aliased):
        if kind == 'model':
            return cls(list(span), strict=strict, **kw)
        if kind == 'linker':
            Sub = sub_class(case.get('sub_extra', ()))
            sm = dict(map(tuple, case['sub_m']))
            SubA = type('SubAliased', (AliasMixin, Sub), {'ALIASES': dict(sm)}) if aliased else Sub
            subs = {'a': SubA(list(span), G=1.0), 'b': Sub(list(span), G=2.5)}
            obj = cls(subs, **kw)
            if strict:
                obj.strict = True
            return obj
        obj = cls(list(span), strict=strict)
        for nm in case['endo'] + case['exo']:
            obj.add_variable(nm, kw_p.get(nm, 0.0))       # a container has no constructor keywords
        return obj
    a = p = None
    ea = ep = None
    try:
        with b.time_limit(2.0):
            try:
                a = make(A, kw_a, True)
            except b.Hang:
                raise
            except Exception as e:  # noqa: BLE001
                ea = family(e)
    except b.Hang:
        ea = 'Hang'
    try:
        p = make(Base, kw_p, False)
    except Exception as e:  # noqa: BLE001
        ep = family(e)
    if a is None or p is None:
        return None, ea, ep, (A, Base)
    objs = [(a, p, m)]
    if kind == 'linker':
        objs.append((a.submodels['a'], p.submodels['a'], dict(map(tuple, case['sub_m']))))
    return objs, None, None, (A, Base)


# ---------------------------------------------------------------------------------------------------------------
# observation

EXPORT_SETS = {'model': [('default', {}), ('internal', {'include_internal': True, 'status': False})],
               'linker': [('default', {}), ('internal', {'include_internal': True, 'iterations': False})],
               'container': [('default', {})]}


def _guard(f):
    try:
        return ('ok', f())
    except Exception as e:  # noqa: BLE001
        return ('exc', family(e))


def _val(v):
    b = base()
    if isinstance(v, (np.ndarray, np.generic, float)):
        return b.fingerprint(v)
    if isinstance(v, (list, tuple, dict, str, int, bool, type(None), type)):
        return repr(v)
    return ('obj', type(v).__name__)


def frame_fp(df):
    b = base()
    return (tuple(map(str, df.columns)), repr(list(df.index)), tuple(b.frame_cols(df)))


def _hashable(x):
    return x


def observe(obj, kind, cache=None):
    """Everything the checks of this part look at, as comparable (hashable) values.  The exports are a function of
    the instance dict and of the class attributes, all of which are observed by value: with `cache` they are
    recomputed only when something else in the observation changed."""
    b = base()
    d = obj.__dict__
    mixin = isinstance(obj, AliasMixin)
    o = {}
    o['names'] = (tuple(d['names']) if isinstance(d['names'], list) else repr(d['names'])) if 'names' in d else None
    o['index'] = tuple(d['index'])
    o['_attributes'] = tuple(d['_attributes'])
    o['dict-keys'] = tuple(sorted(map(str, d)))
    o['span'] = repr(list(d['span']))
    o['strict'] = repr(d.get('_strict'))
    covered = {'names', 'index', '_attributes', 'span', '_strict', 'aliases', 'preferred_names', 'submodels'}
    for n in d['index']:
        o['series:' + n] = b.fingerprint(d['_' + n]) if '_' + n in d else ('missing',)
        covered.add('_' + n)
    for k in d['_attributes']:
        if k not in ('_attributes', 'index', 'names') and k in d:
            o['attr:' + k] = _val(d[k])
            covered.add(k)
    for k in d:
        if k not in covered:
            o['dict-other:' + str(k)] = _val(d[k])
    o['aliases'] = repr(sorted(d['aliases'].items(), key=repr)) if isinstance(d.get('aliases'), dict) else repr(d.get('aliases'))
    o['preferred_names'] = repr(d['preferred_names']) if 'preferred_names' in d else None
    o['size'] = _guard(lambda: int(obj.size))
    o['nbytes'] = _guard(lambda: int(obj.nbytes))
    o['values'] = _guard(lambda: b.fingerprint(obj.values))
    cls = type(obj)
    for attr in ('NAMES', 'ENDOGENOUS', 'EXOGENOUS', 'CHECK'):
        if isinstance(getattr(cls, attr, None), list):
            o['class.' + attr] = repr(getattr(cls, attr))
    if mixin:
        o['class.ALIASES'] = repr(sorted(cls.ALIASES.items()))
        o['class.PREFERRED_NAMES'] = repr(list(cls.PREFERRED_NAMES))
    if 'submodels' in d:
        o['submodel-keys'] = repr(list(d['submodels']))
    ck = None
    if cache is not None:
        try:
            ck = (id(obj), hash(tuple(sorted(o.items()))))
        except TypeError:
            ck = None
        if ck is not None and ck in cache:
            o.update(cache[ck])
            return o
    ex = {}
    with warnings.catch_warnings():
        warnings.simplefilter('ignore')
        for tag, kw in EXPORT_SETS[kind]:
            ex['export:' + tag] = _guard(lambda: frame_fp(obj.to_dataframe(**kw)))
            if mixin:
                ex['export-aliased:' + tag] = _guard(lambda: frame_fp(obj.to_dataframe(use_aliases=True, **kw)))
    if ck is not None:
        cache[ck] = ex
    o.update(ex)
    return o


def observe_all(objs, side, kinds, cache=None):
    out = {}
    for i, trio in enumerate(objs):
        for k, v in observe(trio[side], kinds[i], cache).items():
            out[f'{i}.{k}' if i else k] = v
    return out


def field_of(key):
    """`series:Y` -> `series`, `1.names` -> `sub.names`: the part of a key that names the kind of field."""
    sub = ''
    if key[:2] in ('1.',):
        sub, key = 'sub.', key[2:]
    return sub + key.split(':', 1)[0]


FIELD_ORDER = ['names', 'index', '_attributes', 'dict-keys', 'aliases', 'preferred_names', 'class', 'submodel-keys',
               'span', 'strict', 'series', 'attr', 'dict-other', 'size', 'nbytes', 'values', 'export', 'export-aliased']


def _prio(key):
    f = field_of(key)
    sub = f.startswith('sub.')
    f = f[4:] if sub else f
    f = f.split('.')[0] if f.startswith('class') else f
    return (FIELD_ORDER.index(f) if f in FIELD_ORDER else len(FIELD_ORDER), sub, key)


def diff_abs(before, after):
    """Fields of the aliased object that differ between two observations (the most basic field first)."""
    return sorted((k for k in set(before) | set(after) if before.get(k) != after.get(k)), key=_prio)


ONLY_MIXIN = ('aliases', 'preferred_names', 'class.ALIASES', 'class.PREFERRED_NAMES')


def diff_plain(oa, op):
    """Fields in which the aliased object differs from the plain twin (what only the mixin has is left out; the
    aliased exports are judged by the export oracle)."""
    out = []
    for k in sorted(set(oa) | set(op)):
        f = k.split('.', 1)[1] if k[:2] == '1.' else k
        if f in ONLY_MIXIN or f.startswith('export-aliased:'):
            continue
        x, y = oa.get(k), op.get(k)
        if f in ('_attributes', 'dict-keys'):
            x = tuple(z for z in x if z not in MIXIN_ATTRS)
        if f.startswith('attr:') and f[5:] in MIXIN_ATTRS:
            continue
        if x != y:
            out.append(k)
    return sorted(out, key=_prio)


def short(x, n=140):
    s = repr(x)
    return s if len(s) <= n else s[:n - 3] + '...'


# ---------------------------------------------------------------------------------------------------------------
# operations

def to_value(v):
    """Case values are JSON-able; `{'nd': …}` = an ndarray, `{'nan': 1}` = NaN."""
    if isinstance(v, dict):
        if 'nd' in v:
            return np.array(v['nd'], dtype=float)
        if 'nan' in v:
            return float('nan')
        if 'obj' in v:
            return object()
    return v


def to_label(ix):
    if isinstance(ix, dict) and 'slice' in ix:
        return slice(ix['slice'][0], ix['slice'][1])
    return ix


def subst(template, names):
    out = template
    for i, n in enumerate(names):
        out = out.replace('{%d}' % i, n)
    return out


def apply_fop(obj, op, names, via_item=False):
    """Apply `op` to `obj` with the variables spelled as `names`.  ('ok', value) | ('exc', family).  `via_item`: the
    attribute read of an in-place write is done by item access (the plain twin's read of a variable whose name is
    also a class member, when the aliased side spelled an alias)."""
    k = op['k']
    try:
        with warnings.catch_warnings():
            warnings.simplefilter('ignore')
            if k == 'getattr':
                return ('ok', getattr(obj, names[0]))
            if k == 'setattr':
                setattr(obj, names[0], to_value(op['v']))
            elif k == 'delattr':
                delattr(obj, names[0])
            elif k == 'inplace':
                (obj[names[0]] if via_item else getattr(obj, names[0]))[op['i']:op['j']] = to_value(op['v'])
            elif k == 'getitem':
                return ('ok', obj[names[0]])
            elif k == 'setitem':
                obj[names[0]] = to_value(op['v'])
            elif k == 'getat':
                return ('ok', obj[names[0], to_label(op['ix'])])
            elif k == 'setat':
                obj[names[0], to_label(op['ix'])] = to_value(op['v'])
            elif k == 'rawget':
                return ('ok', obj[tuple(names[:1] + [to_label(x) for x in op['rest']]) if op['tuple'] else op['key']])
            elif k == 'rawset':
                obj[tuple(names[:1] + [to_label(x) for x in op['rest']]) if op['tuple'] else op['key']] = to_value(op['v'])
            elif k == 'replace':
                obj.replace_values(**{n: to_value(v) for n, v in zip(names, op['vs'])})
            elif k == 'eval':
                return ('ok', obj.eval(subst(op['expr'], names)))
            elif k == 'addvar':
                kw = {'dtype': op['dtype']} if op.get('dtype') else {}
                obj.add_variable(op['name'], to_value(op['v']), **kw)
            elif k == 'setpref':
                obj.preferred_names = list(op['l'])
            elif k == 'export':
                kw = dict(op['opts'])
                if op['ua'] and isinstance(obj, AliasMixin):
                    kw['use_aliases'] = True
                return ('ok', obj.to_dataframe(**kw))
            elif k == 'reindex':
                kw = {n: to_value(v) for n, v in zip(names, op['vs'])}
                if op.get('strict') is not None:
                    kw['strict'] = op['strict']
                return ('ok', obj.reindex(list(op['span']), **kw))
            elif k == 'copy':
                return ('ok', obj.copy())
            elif k == 'deepcopy':
                return ('ok', _copy.deepcopy(obj))
            elif k == 'closest':
                return ('ok', obj.get_closest_match(op['name']))
            elif k == 'contains':
                return ('ok', names[0] in obj)
            elif k == 'dir':
                return ('ok', sorted(dir(obj)))
            elif k == 'ipython':
                return ('ok', list(obj._ipython_key_completions_()))
            elif k == 'set_strict':
                obj.strict = op['v']
            elif k == 'values_set':
                v = op['v']
                obj.values = np.zeros(tuple(v['shape'])) if isinstance(v, dict) and 'shape' in v else to_value(v)
            elif k == 'solve':
                return ('ok', repr(obj.solve(**op['args'])))
            elif k == 'solve_t':
                return ('ok', repr(obj.solve_t(op['t'], **op['args'])))
            elif k == 'solve_period':
                return ('ok', repr(obj.solve_period(op['p'], **op['args'])))
            else:
                raise RuntimeError('unknown op ' + k)
        return ('ok', None)
    except Exception as e:  # noqa: BLE001
        if type(e) is RuntimeError and str(e).startswith('unknown op'):
            raise
        hang = getattr(base(), 'Hang')
        if isinstance(e, hang):
            raise
        return ('exc', family(e))


def comparable(r, kind):
    """The outcome as a value that can be compared between the aliased object and the plain twin."""
    b = base()
    if r[0] == 'exc':
        return r
    v = r[1]
    if isinstance(v, (np.ndarray, np.generic, float)):
        return ('ok', b.fingerprint(v))
    if v is None or isinstance(v, (str, int, bool, list, tuple)):
        return ('ok', repr(v))
    if hasattr(v, 'columns') and hasattr(v, 'iloc'):
        return ('ok', frame_fp(v))
    if isinstance(v, fsic.core.containers.VectorContainer):
        return ('ok', 'object')        # compared by observation, see `object_result`
    return ('ok', ('obj', type(v).__name__))


# ---------------------------------------------------------------------------------------------------------------
# generation

def pick_variables(rng, pool_kind, kind):
    n = rng.choice([3, 4, 5])
    plain = rng.sample(POOL_PLAIN, n)
    if pool_kind == 'underscore':
        k = rng.choice([1, 1, 2])
        names = plain[:n - k] + ['_' + x for x in plain[:k]]
    elif pool_kind == 'member':
        mem = [x for x in usable_member_names() if not (kind == 'linker' and x in ('sizes', 'submodels', 'LAGS'))]
        names = plain[:max(1, n - 2)] + rng.sample(mem, 2)
    elif pool_kind == 'case':
        k = rng.choice([1, 1, 2])
        names = plain[:n - k] + [x.swapcase() for x in plain[:k]]
    elif pool_kind == 'mixin-named':
        names = plain[:n - 1] + [rng.choice(MIXIN_NAMED)]
    else:
        names = plain
    names = list(dict.fromkeys(names))
    rng.shuffle(names)
    return names


def ident_ok(name):
    return name.isidentifier() and not keyword.iskeyword(name)


def gen_fail_case(rng, teligible=None):
    b = base()
    teligible = rng.random() < 0.35 if teligible is None else teligible
    if teligible:
        kind = rng.choice(['model', 'model', 'container'])
        pool_kind = rng.choice(['plain', 'plain', 'case'])
    else:
        kind = rng.choice(['model'] * 5 + ['linker'] * 2 + ['container'] * 2)
        pool_kind = rng.choice(['plain', 'underscore', 'underscore', 'member', 'member', 'case', 'mixin-named'])
    names = pick_variables(rng, pool_kind, kind)
    k = rng.randrange(1, len(names))
    endo, exo = names[:k], names[k:]
    alias_pool = list(ALIAS_PLAIN)
    alias_kinds = set()
    if not teligible:
        r = rng.random()
        if r < 0.12:
            alias_pool = rng.sample(ALIAS_MEMBER, 2) + alias_pool[:4]       # an alias called like a member
            alias_kinds.add('member-named')
        elif r < 0.2:
            alias_pool = ['_' + rng.choice(names)] + alias_pool[:4]          # an alias called like a storage key
            alias_kinds.add('storage-key-named')
        rng.shuffle(alias_pool)
    items = b.random_alias_map(rng, names, alias_pool, ['undefined_x'], max_n=5, self_p=0.1)
    m = dict(items)
    # the generator spells by the declared map; names that are both alias and variable stay out of this part
    if any(k2 in names for k2 in b.strip_self(m)):
        items = [it for it in items if it[0] not in names or it[0] == it[1]]
        m = dict(items)
    n = rng.choice([3, 4, 5])
    span = [f'p{i}' for i in range(n)] if rng.random() < 0.2 and not teligible else list(range(2000, 2000 + n))
    names_for_pref = list(dict.fromkeys(list(b.strip_self(m)) + names))
    pref = rng.sample(names_for_pref, min(len(names_for_pref), rng.choice([0, 0, 1, 2])))
    if b.pref_ambiguous(m, pref):
        pref = []
    strict = rng.random() < 0.5
    by_target, targets = b.spellings_by_target(m, names)
    kwargs = {}
    if kind != 'container' or True:
        for t in rng.sample(targets, min(len(targets), rng.choice([0, 1, 2]))):
            kwargs[rng.choice(by_target[t])] = rng.randrange(1, 50) if rng.random() < 0.6 else [rng.randrange(1, 50) for _ in range(n)]
        if not teligible and rng.random() < 0.12 and kind == 'model':
            # a near miss as a constructor keyword: InitialisationError under strict, an ignored keyword otherwise
            kwargs[typo(rng, rng.choice(list(m) + names))] = 1
    case = {'part': 'failops', 'kind': kind, 'pool': pool_kind, 'alias_kinds': sorted(alias_kinds), 'endo': endo,
            'exo': exo, 'm': items, 'pref': pref, 'span': span, 'strict': strict, 'kwargs': kwargs,
            'teligible': teligible}
    if kind == 'linker':
        r = rng.random()
        case['sub_extra'] = ['_Y'] if r < 0.25 else ['_G', 'y'] if r < 0.35 else \
            rng.sample([x for x in usable_member_names() if x not in ('status', 'iterations')], 1) if r < 0.6 else []
        case['sub_m'] = b.random_alias_map(rng, ['Y', 'G'] + case['sub_extra'], ['out', 'gov', 'k9'], ['undefined_x'],
                                           max_n=3, self_p=0.0)
    case['ops'] = gen_fail_ops(rng, case, rng.randrange(4, 13))
    return case


def gen_fail_ops(rng, case, count):
    b = base()
    kind, span, teligible = case['kind'], case['span'], case['teligible']
    n = len(span)
    variables = case['endo'] + case['exo']
    maps = [dict(map(tuple, case['m']))] + ([dict(map(tuple, case['sub_m']))] if kind == 'linker' else [])
    varsets = [variables] + ([['Y', 'G'] + list(case.get('sub_extra', []))] if kind == 'linker' else [])

    def ints(k):
        return [rng.randrange(1, 99) for _ in range(k)]

    def good_value(whole=True):
        if whole and rng.random() < 0.4:
            return ints(n)
        return rng.randrange(1, 99)

    def bad_value():
        r = rng.random()
        if r < 0.35:
            return ints(n + rng.choice([1, 2]))            # wrong length
        if r < 0.5 and n > 1:
            return ints(n - 1)
        if r < 0.7:
            return [ints(2), ints(2)]                      # wrong shape
        if r < 0.85 or teligible:
            return 'abc'                                   # not a number
        return {'obj': 1}

    ops = []
    added = []
    for _ in range(count):
        on = 1 if (len(maps) > 1 and rng.random() < 0.3) else 0
        m, vs = maps[on], varsets[on] + (added if on == 0 else [])
        by_target, targets = b.spellings_by_target(m, vs)
        aliases = [x for x in b.strip_self(m)]

        def pick():
            t = rng.choice(targets)
            return rng.choice(by_target[t])

        def pick_alias_first():
            al = [x for x in aliases if b.chain_end(m, x) in vs]
            return rng.choice(al) if al and rng.random() < 0.7 else pick()

        def near_miss():
            return typo(rng, rng.choice(aliases + vs))

        def unknown():
            r = rng.random()
            dangling = [x for x in aliases if b.chain_end(m, x) not in vs]
            if dangling and r < 0.3:
                return rng.choice(dangling)                # an alias whose target is not defined
            if r < 0.75:
                return near_miss()
            return rng.choice(['nope', 'undefined_x', 'zz9'])

        def label(bad=False):
            if bad:
                return rng.choice([9999, 'nolabel', -1])
            return rng.choice(span)

        def a_slice(bad=False):
            i = rng.randrange(n)
            j = rng.randrange(i, n)
            return {'slice': [span[i], label(True) if bad else span[j]]}, j - i + 1
        if teligible:
            group = rng.choice(['ok', 'ok', 'strict-typo', 'eval', 'key', 'bad-assign', 'undefined-target', 'addvar',
                                'bad-label', 'replace-bad', 'export', 'closest'])
        else:
            group = rng.choice(['ok', 'ok', 'ok', 'strict-typo', 'strict-typo', 'eval', 'eval', 'key', 'bad-assign',
                                'bad-assign', 'undefined-target', 'addvar', 'bad-label', 'replace-bad', 'export',
                                'reindex', 'solve-bad', 'values-bad', 'misc-read', 'closest', 'delattr', 'rawkey'])
        op = None
        if group == 'ok':
            kk = rng.choice(['setattr', 'setitem', 'setat', 'getattr', 'getitem', 'getat', 'replace', 'adhoc'] +
                            ([] if teligible else ['inplace', 'solve', 'set_strict', 'solve_t']))
            if kk in ('setattr', 'setitem'):
                op = {'k': kk, 'names': [pick()], 'v': good_value()}
            elif kk == 'inplace':
                i = rng.randrange(n)
                op = {'k': 'inplace', 'names': [pick()], 'i': i, 'j': rng.randrange(i, n + 1),
                      'v': {'nan': 1} if rng.random() < 0.15 else rng.randrange(1, 99)}
            elif kk == 'setat':
                if rng.random() < 0.5:
                    op = {'k': 'setat', 'names': [pick()], 'ix': label(), 'v': rng.randrange(1, 99)}
                else:
                    sl, ln = a_slice()
                    op = {'k': 'setat', 'names': [pick()], 'ix': sl, 'v': ints(ln) if rng.random() < 0.5 else rng.randrange(1, 99)}
            elif kk in ('getattr', 'getitem'):
                op = {'k': kk, 'names': [pick()]}
            elif kk == 'getat':
                op = {'k': 'getat', 'names': [pick()], 'ix': label() if rng.random() < 0.5 else a_slice()[0]}
            elif kk == 'replace':
                ts = rng.sample(targets, min(len(targets), rng.choice([1, 2, 3])))
                op = {'k': 'replace', 'names': [rng.choice(by_target[t]) for t in ts], 'vs': [good_value() for _ in ts]}
            elif kk == 'adhoc':
                op = {'k': 'setattr', 'names': [rng.choice(['memo', 'note', '_scratch'] if not teligible else ['memo', 'note'])],
                      'v': rng.randrange(1, 99)}
            elif kk == 'solve':
                op = {'k': 'solve', 'names': [], 'args': {'max_iter': rng.choice([1, 5, 30]), 'failures': 'ignore', 'errors': 'ignore'}}
            elif kk == 'solve_t':
                op = {'k': 'solve_t', 'names': [], 't': rng.randrange(1, n), 'args': {'max_iter': 20, 'failures': 'ignore', 'errors': 'ignore'}}
            elif kk == 'set_strict':
                op = {'k': 'set_strict', 'names': [], 'v': rng.random() < 0.6}
        elif group == 'strict-typo':
            # rejected under strict=True (near misses of variable names and of alias names); an attribute otherwise
            op = {'k': 'setattr', 'names': [near_miss()], 'v': good_value()}
        elif group == 'eval':
            terms = []
            for _ in range(rng.choice([1, 2, 3])):
                r = rng.random()
                terms.append(pick() if r < 0.45 else rng.choice(aliases) if aliases and r < 0.7 else unknown())
            terms = [t for t in terms if ident_ok(t)] or ['nope']
            parts = []
            for i, _ in enumerate(terms):
                r = rng.random()
                parts.append('{%d}' % i if r < 0.6 else '{%d}[%d]' % (i, rng.randrange(n)) if r < 0.8 or teligible else
                             '{%d}[`%s`]' % (i, rng.choice([span[0], 'nolabel'])) if r < 0.93 else '{%d}[`%s`:`%s`:1:2]' % (i, span[0], span[-1]))
            op = {'k': 'eval', 'names': terms, 'expr': ' + '.join(parts)}
        elif group == 'key':
            kk = rng.choice(['getitem', 'getat', 'getattr', 'setitem', 'setat'])
            op = {'k': kk, 'names': [unknown()]}
            if kk in ('getat', 'setat'):
                op['ix'] = label()
            if kk in ('setitem', 'setat'):
                op['v'] = rng.randrange(1, 99)
        elif group == 'bad-assign':
            kk = rng.choice(['setattr', 'setitem', 'setat', 'setat'])
            if kk == 'setat':
                if rng.random() < 0.5:
                    op = {'k': 'setat', 'names': [pick_alias_first()], 'ix': label(), 'v': ints(2)}
                else:
                    sl, ln = a_slice()
                    op = {'k': 'setat', 'names': [pick_alias_first()], 'ix': sl, 'v': ints(ln + rng.choice([1, 2, 3]))}
            else:
                op = {'k': kk, 'names': [pick_alias_first()], 'v': bad_value()}
        elif group == 'undefined-target':
            dangling = [x for x in aliases if b.chain_end(m, x) not in vs] or [unknown()]
            kk = rng.choice(['setattr', 'setitem', 'getitem', 'getattr', 'setat'])
            op = {'k': kk, 'names': [rng.choice(dangling)]}
            if kk == 'setat':
                op['ix'] = label()
            if kk in ('setattr', 'setitem', 'setat'):
                op['v'] = rng.randrange(1, 99)
        elif group == 'addvar':
            r = rng.random()
            if r < 0.3:
                name = rng.choice(vs)                                     # an existing variable
            elif r < 0.45:
                name = rng.choice(['span', 'names', 'index', 'memo', 'strict', 'scratch'] if kind != 'container'
                                  else ['span', 'index', 'memo', 'strict', 'scratch'])   # an attribute / a taken storage key
            elif r < 0.55 and aliases and on == 0 and not teligible and not any(o2['k'] == 'addvar' and o2['name'] in aliases for o2 in ops):
                name = rng.choice(aliases)                                # an alias name (the mixin does not look)
            else:
                name = rng.choice(NEW_VARS)
            v = bad_value() if rng.random() < 0.35 else good_value()
            if isinstance(v, dict):
                v = 'abc'
            if v == 'abc' and kind == 'container' and teligible:
                v = ints(n + 1)            # a plain container takes a string variable
            op = {'k': 'addvar', 'names': [], 'name': name, 'v': v}
            if on == 0 and name in NEW_VARS and name not in added:
                added.append(name)
        elif group == 'bad-label':
            kk = rng.choice(['getat', 'setat'])
            op = {'k': kk, 'names': [pick_alias_first()], 'ix': label(True) if rng.random() < 0.6 or teligible else a_slice(True)[0]}
            if kk == 'setat':
                op['v'] = rng.randrange(1, 99)
        elif group == 'replace-bad':
            ts = rng.sample(targets, min(len(targets), rng.choice([2, 3])))
            names = [rng.choice(by_target[t]) for t in ts]
            vals = [good_value() for _ in ts]
            pos = rng.randrange(len(names) + 1)
            if rng.random() < 0.5:
                names.insert(pos, unknown())
                vals.insert(pos, rng.randrange(1, 99))
            else:
                names.insert(pos, pick_alias_first())
                vals.insert(pos, bad_value())
            seen, nn, vv = set(), [], []
            for x, y in zip(names, vals):          # keyword arguments: one per spelling, one spelling per variable
                if b.chain_end(m, x) not in seen and ident_ok(x):
                    seen.add(b.chain_end(m, x))
                    nn.append(x)
                    vv.append(y)
            op = {'k': 'replace', 'names': nn, 'vs': vv}
        elif group == 'export':
            if on == 0 and rng.random() < 0.6:
                # preferred_names set at run time: ambiguous (two aliases of one variable) now and then
                groups = [al for t, al in by_target.items() if t in vs and len([x for x in al if x in aliases]) >= 2]
                if groups and rng.random() < 0.6:
                    g = [x for x in rng.choice(groups) if x in aliases]
                    l = rng.sample(g, 2)
                else:
                    l = rng.sample(aliases + vs, min(len(aliases + vs), rng.choice([0, 1, 2])))
                op = {'k': 'setpref', 'names': [], 'l': l}
            else:
                opts = {} if kind == 'container' or rng.random() < 0.6 or teligible else rng.choice(
                    [{'status': False}, {'include_internal': True}, {'nosuch': 1}])
                op = {'k': 'export', 'names': [], 'ua': rng.random() < 0.7, 'opts': opts}
        elif group == 'reindex':
            keys = [pick() if rng.random() < 0.5 else unknown() for _ in range(rng.choice([0, 1, 2]))]
            keys = [x for x in dict.fromkeys(keys) if ident_ok(x) and x not in ('span', 'strict', 'fill_value', 'self')]
            new_span = span[1:] + ([span[-1] + 1] if isinstance(span[-1], int) else ['q9'])
            op = {'k': 'reindex', 'names': keys, 'vs': [rng.randrange(1, 9) for _ in keys], 'span': new_span,
                  'strict': rng.choice([None, None, True, False])}
        elif group == 'solve-bad':
            r = rng.random()
            if r < 0.2:
                op = {'k': 'solve', 'names': [], 'args': {'min_iter': 5, 'max_iter': 2}}
            elif r < 0.35:
                op = {'k': 'solve', 'names': [], 'args': {'start': 9999}}
            elif r < 0.5:
                op = {'k': 'solve_t', 'names': [], 't': rng.choice([99, -99, 0]), 'args': {}}
            elif r < 0.6:
                op = {'k': 'solve_t', 'names': [], 't': 1, 'args': {'offset': rng.choice([-50, 50])}}
            elif r < 0.75:
                op = {'k': 'solve_period', 'names': [], 'p': rng.choice([9999, 'nolabel']), 'args': {}}
            elif r < 0.9:
                op = {'k': 'solve', 'names': [], 'args': {'max_iter': 1, 'failures': 'raise'}}    # NonConvergenceError
            else:
                # a NaN in a checked variable, then errors='raise': SolutionError (periods before it are solved)
                if on == 0 and kind != 'container':
                    ops.append({'k': 'inplace', 'names': [rng.choice(case['endo'])], 'i': n - 1, 'j': n, 'v': {'nan': 1},
                                'on': 0, 'group': 'ok'})
                op = {'k': 'solve', 'names': [], 'args': {'errors': 'raise'}}
        elif group == 'values-bad':
            op = {'k': 'values_set', 'names': [], 'v': rng.choice([{'shape': [1, 1]}, {'shape': [n, 1]}, 'abc', 3])}
        elif group == 'misc-read':
            kk = rng.choice(['copy', 'deepcopy', 'dir', 'ipython', 'contains', 'contains'])
            op = {'k': kk, 'names': [rng.choice([pick(), unknown()])] if kk == 'contains' else []}
        elif group == 'closest':
            op = {'k': 'closest', 'names': [], 'name': near_miss()}
        elif group == 'delattr':
            # not wrapped by the mixin and not claimed: the same spelling on both sides
            op = {'k': 'delattr', 'names': [rng.choice(aliases + ['memo', 'nope'] + [x for x in vs if not x.startswith('_') and x not in MIXIN_ATTRS])]}
        elif group == 'rawkey':
            r = rng.random()
            get = rng.random() < 0.5
            if r < 0.35:
                op = {'k': 'rawget' if get else 'rawset', 'names': [pick()], 'tuple': True, 'rest': []}
            elif r < 0.7:
                op = {'k': 'rawget' if get else 'rawset', 'names': [pick()], 'tuple': True, 'rest': [label(), label()]}
            else:
                op = {'k': 'rawget' if get else 'rawset', 'names': [], 'tuple': False, 'key': rng.choice([3, 2.5, None])}
            if not get:
                op['v'] = rng.randrange(1, 99)
        op['on'] = on
        op['group'] = group
        ops.append(op)
    return ops


# ---------------------------------------------------------------------------------------------------------------
# running a case

RESOLVED_OPS = {'getattr', 'setattr', 'inplace', 'getitem', 'setitem', 'getat', 'setat', 'rawget', 'rawset',
                'replace'}
# not alias-aware on the current tree (ASSUMPTIONS): the outcome is compared only when no alias is spelled
UNAWARE_OPS = {'eval', 'reindex', 'contains'}
# the outcome is the mixin's own business (lists that include the aliases) or not part of the claim
FREE_RESULT_OPS = {'dir', 'ipython', 'closest', 'setpref'}


def is_object_attribute(obj, name):
    """`obj.<name>` is found by normal look-up (a class member, or a key of the instance dict)."""
    return name in obj.__dict__ or hasattr(type(obj), name)


def run_fail_case(ctx, rep, case, tcases=None):
    b = base()
    jc = b.jsonable_case(case)
    kind = case['kind']
    m0 = dict(map(tuple, case['m']))
    objs, ea, ep, classes = build_pair(case)
    A, Base = classes
    cls_before = (repr(sorted(A.ALIASES.items())), repr(list(A.PREFERRED_NAMES)), repr(Base.NAMES) if hasattr(Base, 'NAMES') else '')
    if objs is None:
        if ea == 'Hang':
            rep.violate(b.hang_key(m0), f'constructor did not return within 2 s for ALIASES={m0}', jc)
            return 'hang'
        cls_now = (dict(A.ALIASES), list(A.PREFERRED_NAMES), list(getattr(Base, 'NAMES', [])))
        if cls_now != (m0, list(case['pref']), (case['endo'] + case['exo']) if kind != 'container' else []):
            rep.violate('failed-op-changed-state:class', f'the failed constructor ({ea}) changed class-level declarations: '
                        f'ALIASES / PREFERRED_NAMES / NAMES are now {cls_now}', jc)
            return 'class'
        clash = [k2 for k2 in b.strip_self(m0) if hasattr(A, k2) or (k2.startswith('_') and k2[1:] in case['endo'] + case['exo'])] \
            + [v for v in case['endo'] + case['exo'] if v in MIXIN_ATTRS]
        if ea is not None and clash and (ep is None or ea != ep):
            # refusing a map / a model whose names collide with attributes of the object is a conforming answer to
            # the open findings KEY_ALIAS_IS_ATTRIBUTE / KEY_VAR_IS_MIXIN_ATTRIBUTE
            rep.dist['failops-note:constructor-refuses-clashing-names'] += 1
            return 'ctor-refuses-clashing-names'
        if ea != ep:
            rep.violate('plain-twin-diverges:constructor', f'{kind} constructor with keywords {list(case["kwargs"])} '
                        f'(strict={case["strict"]}): aliased {ea}, plain twin with the canonical keywords {ep} '
                        f'(ALIASES={m0})', jc)
            return 'ctor'
        return 'ctor-error:' + str(ea)
    kinds = [kind] + (['model'] if kind == 'linker' else [])
    attrs0 = list(objs[0][1].__dict__['_attributes'])
    cache = {}
    before = observe_all(objs, 0, kinds, cache)
    plain0 = observe_all(objs, 1, kinds, cache)
    d = diff_plain(before, plain0)
    if d:
        rep.violate('plain-twin-diverges:' + field_of(d[0]), f'after construction the {kind} differs from the same class '
                    f'without the mixin in {d[:4]}: {short(before.get(d[0]))} vs {short(plain0.get(d[0]))} '
                    f'(ALIASES={m0})', jc)
        return 'ctor-state'
    timpl = [] if (tcases is not None and case['teligible'] and kind != 'linker'
                   and all(op['k'] in MODEL_OPS for op in case['ops'])) else None
    if timpl is not None:
        timpl.append(('', obj_digest(objs[0][0])))
    talts = []
    shadowed = set()          # alias names that became variable names through add_variable (outside the guard)
    n_failed = 0
    for i, op in enumerate(case['ops']):
        a, p, m = objs[op['on']]
        k = op['k']
        names_a = list(op['names'])
        names_p = [b.chain_end(m, x) for x in names_a] if k in RESOLVED_OPS | UNAWARE_OPS else list(names_a)
        spelled_alias = [x for x in names_a if x in b.strip_self(m)]
        if any(x in shadowed for x in names_a) or (shadowed and k in ('export', 'setpref')):
            rep.dist['failops-skip:alias-shadowed-by-added-variable'] += 1
            continue
        if k == 'setpref' and 'preferred_names' in a.__dict__['index']:
            continue          # the assignment goes to the variable of that name
        if k == 'inplace' and names_a[0] in MIXIN_ATTRS:
            continue          # `obj.aliases[i:j] = v` would write into the mixin's dict (see KEY_VAR_IS_MIXIN_ATTRIBUTE)
        if k == 'inplace' and names_a[0] in b.strip_self(m) and is_object_attribute(a, names_a[0]):
            if names_p[0] in p.__dict__['index']:
                rep.violate(KEY_ALIAS_IS_ATTRIBUTE, f'op {i} in-place write through {names_a[0]!r}: `obj.{names_a[0]}` is found '
                            f'by normal attribute look-up ({short(_guard(lambda: getattr(a, names_a[0])))}), so the alias '
                            f'{names_a[0]!r} -> {names_p[0]!r} is never consulted and the write does not reach the '
                            f'variable (ALIASES={m})', jc)
            continue
        if (k == 'values_set' and 'values' in m) or (k == 'set_strict' and 'strict' in m):
            continue          # `obj.values = …` is an assignment through the alias of that name
        where = f'op {i} {k}{"" if not op["on"] else " on the submodel"} through {names_a or op.get("name", "")}'
        if timpl is not None:
            pnames = list(p.__dict__['names']) if 'names' in p.__dict__ else list(p.__dict__['index'])
            tgt = b.chain_end(m, names_a[0]) if names_a else 'preferred_names'
            talts.append(closest_py(pnames, tgt))
        try:
            with b.time_limit(5.0):
                ra = apply_fop(a, op, names_a)
        except b.Hang:
            rep.violate('failops-hang', f'{where} did not return within 5 s', jc)
            return 'hang'
        alias_read = k in ('getattr', 'inplace') and bool(names_a) and names_a[0] in b.strip_self(m) \
            and names_p[0] in p.__dict__['index']
        if k == 'setpref':
            rp = ra                                     # the plain twin has no preferred names
        else:
            rp = apply_fop(p, op, names_p, via_item=alias_read)
        failed = ra[0] == 'exc'
        if k == 'addvar' and failed and rp[0] == 'ok' and (op['name'] in b.strip_self(m) or op['name'] in MIXIN_ATTRS):
            # the mixin refuses a name that is an alias / one of its own attributes: a conforming answer to the open
            # finding KEY_ADDVAR_ALIAS; the plain twin now has a variable more: the history ends here
            after = observe_all(objs, 0, kinds, cache)
            d = diff_abs(before, after)
            if d:
                rep.violate(f'failed-op-changed-state:{field_of(d[0])}', f'{where} raised {ra[1]} but changed {d[:4]} of the '
                            f'object: {short(before.get(d[0]))} -> {short(after.get(d[0]))} (ALIASES={m})', jc)
                return 'changed-state'
            rep.dist['failops-note:add_variable-of-alias-name-refused'] += 1
            return 'ok:alias-name-refused'
        n_failed += failed
        rep.dist[f'failops-op:{op["group"]}:{k}:' + (ra[1] if failed else 'ok')] += 1
        if failed:
            rep.dist['failops-error-class:' + ra[1]] += 1
            rep.dist['failops-failed-through:' + ('alias' if spelled_alias else 'name' if names_a else 'no-name')] += 1
        after = observe_all(objs, 0, kinds, cache)
        after_p = observe_all(objs, 1, kinds, cache)
        if timpl is not None:
            timpl.append((t_result(ra), obj_digest(objs[0][0])))
        # --- the outcome against the plain twin
        ca, cp = comparable(ra, kind), comparable(rp, kind)
        compare = k not in FREE_RESULT_OPS and not (k in UNAWARE_OPS and spelled_alias)
        if k == 'export' and op['ua']:
            compare = False                             # judged by the export oracle below
        if compare and k in ('getattr', 'inplace') and names_a:
            sp, t = names_a[0], names_p[0]
            if alias_read:
                # a read through an alias is a read of the variable: its series
                if k == 'getattr':
                    try:
                        cp = comparable(('ok', p[t]), kind)
                    except Exception as e:  # noqa: BLE001  (e.g. the storage of `t` was deleted: `del obj._Y`)
                        cp = comparable(('exc', family(e)), kind)
            if sp in b.strip_self(m) and ca != cp and is_object_attribute(a, sp):
                rep.violate(KEY_ALIAS_IS_ATTRIBUTE, f'{where}: `obj.{sp}` is found by normal attribute look-up '
                            f'({short(ra)}), so the alias {sp!r} -> {t!r} is never consulted; the variable holds '
                            f'{short(cp)} (ALIASES={m})', jc)
                ca = cp
            elif sp == t and sp in MIXIN_ATTRS and ca != cp:
                rep.violate(KEY_VAR_IS_MIXIN_ATTRIBUTE, f'{where}: the variable {sp!r} reads as the mixin\'s own '
                            f'attribute ({short(ra)}); without the mixin `obj.{sp}` is the series', jc)
                ca = cp
        if compare and ca != cp and failed and rp[0] == 'exc' and \
                {ra[1], rp[1]} <= {'AttributeError', 'NotImplementedError'} and \
                not any(x in p.__dict__['index'] for x in names_p):
            # an unknown name rejected on both sides: how many near misses there are (and hence which of the two
            # classes is raised) is the hint's business, not the property's
            rep.dist['failops-note:unknown-name-rejected-with-another-class'] += 1
            cp = ca
        if compare and ca != cp and k == 'addvar' and failed and rp[0] == 'exc' and \
                (op['name'] in b.strip_self(m) or op['name'] in MIXIN_ATTRS):
            cp = ca            # refused on both sides; the mixin may refuse the name before the value is looked at
        if compare and ca != cp:
            if ra[0] != rp[0]:
                key = 'plain-twin-diverges:fails-only-' + ('aliased' if failed else 'plain')
            elif failed:
                key = 'plain-twin-diverges:error-class'
            else:
                key = 'plain-twin-diverges:result'
            rep.violate(key + ':' + k, f'{where} gave {short(ca)}; the same {kind} without the mixin through '
                        f'{names_p} gave {short(cp)} (ALIASES={m}, strict={a.__dict__.get("_strict")})', jc)
            return 'result'
        if ra[0] == 'ok' and rp[0] == 'ok' and isinstance(ra[1], fsic.core.containers.VectorContainer):
            # copy / reindex: the returned object against the plain twin's
            k2 = 'model' if kind == 'linker' and op['on'] else kind
            oa2, op2 = observe(ra[1], k2), observe(rp[1], k2)
            d = diff_plain(oa2, op2)
            if d and not (k in UNAWARE_OPS and spelled_alias):
                rep.violate('plain-twin-diverges:' + k + '-result:' + field_of(d[0]), f'{where}: the returned object '
                            f'differs from the plain twin\'s in {d[:4]}: {short(oa2.get(d[0]))} vs '
                            f'{short(op2.get(d[0]))} (ALIASES={m})', jc)
                return 'result-object'
            if k in ('copy', 'deepcopy') and oa2.get('aliases') != after.get(('1.' if op['on'] else '') + 'aliases'):
                rep.violate('failed-op-changed-state:copy-aliases', f'{where}: the copy holds aliases '
                            f'{oa2.get("aliases")}, the original {after.get("aliases")}', jc)
                return 'result-object'
        if k == 'export' and op['ua'] and ra[0] == 'ok':
            basef = _guard(lambda: a.to_dataframe(**op['opts']))
            if basef[0] == 'ok':
                eff_m = {x: y for x, y in m.items()}
                regime = b.export_oracle(rep, jc, eff_m, list(a.__dict__.get('preferred_names', [])), basef[1], ra[1],
                                         None, False, prefix='failops-export')
                if regime not in ('ok', 'outside-guard'):
                    return 'export-' + regime
        if k == 'export' and op['ua'] and failed:
            pr = list(a.__dict__.get('preferred_names', []))
            basef = _guard(lambda: p.to_dataframe(**op['opts']))
            if basef[0] == 'ok' and not b.pref_ambiguous(m, pr):
                rep.violate('failops-export-raises', f'{where} raised {ra[1]} although preferred_names={pr} is '
                            f'unambiguous and the plain export with {op["opts"]} succeeds (ALIASES={m})', jc)
                return 'export-raises'
            if basef[0] == 'exc' and basef[1] != ra[1]:
                rep.violate('plain-twin-diverges:error-class:export', f'{where} raised {ra[1]}, the plain export '
                            f'with the same options {basef[1]}', jc)
                return 'export-raises'
        # --- a failed (atomic) operation, a read: nothing moved
        if (failed and k not in PARTIAL_OPS) or k in READ_OPS:
            d = diff_abs(before, after)
            if d:
                what = 'failed-op-changed-state' if failed else 'read-op-changed-state'
                rep.violate(f'{what}:{field_of(d[0])}', f'{where} {"raised " + ra[1] if failed else "only reads"} but '
                            f'changed {d[:4]} of the object: {short(before.get(d[0]))} -> {short(after.get(d[0]))} '
                            f'(ALIASES={m}, strict={a.__dict__.get("_strict")})', jc)
                return 'changed-state'
        # --- whatever happened: the object is the plain twin plus names
        d = diff_plain(after, after_p)
        if k == 'addvar' and not failed and op['name'] in b.strip_self(m):
            # add_variable is not wrapped: it takes the alias name literally; from now on the name is both an alias and a
            # variable (outside the guard of this part): the history ends here
            rep.dist['failops-note:add_variable-of-alias-name-accepted'] += 1
            hard = [x for x in d if field_of(x).split('.')[-1] in STORAGE_FIELDS]
            if hard:
                d = hard
            else:
                if d:
                    rep.violate(KEY_ADDVAR_ALIAS, f'{where}: add_variable({op["name"]!r}) is accepted although {op["name"]!r} is '
                                f'an alias of {b.chain_end(m, op["name"])!r}: the new variable cannot be reached by name '
                                f'(obj[name] resolves the alias) and {d[:3]} show the alias\'s target in its place '
                                f'(ALIASES={m})', jc)
                return 'ok:alias-shadowed'
        if d:
            rep.violate('plain-twin-diverges:' + field_of(d[0]), f'after {where} ({"raised " + ra[1] if failed else "ok"}) '
                        f'the {kind} differs from the same class without the mixin in {d[:4]}: '
                        f'{short(after.get(d[0]))} vs {short(after_p.get(d[0]))} (ALIASES={m})', jc)
            return 'plain-state'
        before = after
    cls_after = (repr(sorted(A.ALIASES.items())), repr(list(A.PREFERRED_NAMES)), repr(Base.NAMES) if hasattr(Base, 'NAMES') else '')
    if cls_after != cls_before:
        rep.violate('failed-op-changed-state:class', f'class-level declarations changed over the history: '
                    f'{cls_before} -> {cls_after}', jc)
        return 'class'
    if timpl is not None and tcases is not None:
        tcases.append((t_request(case, attrs0, talts), timpl, jc))
    return 'ok:failed%d' % min(n_failed, 9)


# ---------------------------------------------------------------------------------------------------------------
# correspondence with the Lean model (FsicModel/AliasFail.lean) on the cases that stay inside its operations

def _ints(a):
    try:
        return ','.join(str(int(x)) for x in a.tolist())
    except (ValueError, TypeError):
        return repr(a.tolist())


def obj_digest(a):
    d = a.__dict__
    names = list(d['names']) if 'names' in d else list(d['index'])
    return '|'.join([','.join(names), ','.join(d['index']),
                     ';'.join(f'{nm}=' + _ints(d['_' + nm]) for nm in d['index'] if nm in names and '_' + nm in d),
                     ','.join(x for x in d['_attributes'] if x not in MIXIN_ATTRS),
                     ','.join(sorted(f'{k}>{v}' for k, v in d['aliases'].items())),
                     ','.join(d['preferred_names'])])


VALERR = {'DimensionError', 'ValueError', 'TypeError', 'IndexError'}


def t_result(r):
    if r[0] == 'exc':
        return 'VALERR' if r[1] in VALERR else r[1]
    v = r[1]
    if isinstance(v, np.ndarray):
        return 'l:' + _ints(v)
    if isinstance(v, (np.generic, float, int)) and not isinstance(v, bool):
        return 'i:' + str(int(v))
    if hasattr(v, 'columns'):
        return 'L:' + ','.join(map(str, v.columns))
    return 'ok'


def to_pay(v, n):
    if isinstance(v, bool):
        return {'bad': 2}
    if isinstance(v, int):
        return v
    if isinstance(v, list) and all(isinstance(x, int) for x in v):
        return v if v else {'bad': 1}
    if isinstance(v, list):
        return {'bad': 1}
    return {'bad': 2}


def t_request(case, attrs0, talts):
    """The case in the model's terms."""
    span = case['span']
    n = len(span)
    pos = {l: i for i, l in enumerate(span)}

    def ix(x):
        if isinstance(x, dict):
            a, b2 = x['slice']
            return [pos[a], pos[b2]] if a in pos and b2 in pos else {'bad': 3}
        return pos[x] if x in pos else {'bad': 3}
    ops = []
    for op, alts in zip(case['ops'], talts):
        k = op['k']
        o = {'alts': alts}
        if k in ('getattr', 'getitem'):
            o.update(op=k, n=op['names'][0])
        elif k in ('setattr', 'setitem'):
            o.update(op=k, n=op['names'][0], v=to_pay(op['v'], n))
        elif k == 'getat':
            o.update(op=k, n=op['names'][0], ix=ix(op['ix']))
        elif k == 'setat':
            o.update(op=k, n=op['names'][0], ix=ix(op['ix']), v=to_pay(op['v'], n))
        elif k == 'replace':
            o.update(op=k, kvs=[[x, to_pay(v, n)] for x, v in zip(op['names'], op['vs'])])
        elif k == 'eval':
            o.update(op=k, free=list(op['names']))
        elif k == 'addvar':
            v = op['v']
            if isinstance(v, list) and v and all(isinstance(x, list) for x in v):
                v = [y for x in v for y in x]           # add_variable flattens
            o.update(op=k, n=op['name'], v=to_pay(v, n))
        elif k == 'setpref':
            o.update(op=k, l=list(op['l']))
        elif k == 'export':
            o.update(op=k, ua=bool(op['ua']))
        elif k == 'closest':
            o.update(op=k, n=op['name'])
        ops.append(o)
    container = case['kind'] == 'container'
    return {'m': case['m'], 'pref': case['pref'], 'names': case['endo'] + case['exo'],
            'tail': [] if container else ['status', 'iterations'], 'attrs': attrs0, 'container': container,
            'strict': case['strict'], 'n': n, 'kwargs': [[k, to_pay(v, n)] for k, v in case['kwargs'].items()],
            'ops': ops}


def t_compare(model_out, impl):
    """`model_out`: reply of the driver; `impl`: [(result, digest)] with the state after construction first."""
    parts = model_out.split(' ## ')
    if len(parts) != len(impl):
        return False, f'{len(parts)} entries vs {len(impl)}'
    for i, (mp, (res, dig)) in enumerate(zip(parts, impl)):
        if i == 0:
            mres, mdig = '', mp
        else:
            mres, mdig = mp.split(' @ ', 1)
        if not same_digest(mdig, dig):
            return False, f'state after op {i - 1}: model {mdig} vs impl {dig}'
        if i and not same_result(mres, res):
            return False, f'result of op {i - 1}: model {mres} vs impl {res}'
    return True, ''


def same_digest(x, y):
    a, b2 = x.split('|'), y.split('|')
    if len(a) != 6 or len(b2) != 6:
        return False
    a[4] = ','.join(sorted(a[4].split(','))) if a[4] else ''
    return a == b2


REJECT = {'AttributeError', 'NotImplementedError'}


def same_result(mres, res):
    mres = 'VALERR' if mres in VALERR else mres
    if mres in REJECT and res in REJECT:
        return True          # which of the two a strict rejection raises depends on the hint (difflib) only
    if res == 'ok' or mres == 'ok':
        # a value the model does not compute (eval, get_closest_match) / does not print
        return not any(x in ('VALERR', 'KeyError', 'AttributeError', 'NotImplementedError', 'DuplicateNameError')
                       for x in (mres, res)) or mres == res
    if mres.startswith('L:') and res.startswith('L:'):
        return True          # labels: compared (leniently where the property is silent) in parts (C), (E), (G)
    return mres == res
