"""C18 — an alias is indistinguishable from the variable it names (fsic.extensions.AliasMixin)."""
import itertools, json, os, re, signal, subprocess, sys, time, warnings

import numpy as np

import fsic
from fsic.extensions import AliasMixin

import framework

ID = 'C18'
LEAN_MODULE = 'Proofs.C18'
THEOREMS = ['Fsic.C18.' + n for n in [
    'not_acyclic_iff_hasCycle', 'roots_spec', 'shorten_exits', 'shorten_bound_suffices', 'shorten_rounds',
    'shorten_exhausts_on_cycle', 'shorten_breaks_iff_acyclic', 'selfmap_filter_dead', 'prefilter_not_dead',
    'shortenAll_acyclic', 'shortenAll_cycle', 'constructor_terminates', 'constructor_raises_iff_cycle',
    'constructor_returns_iff_acyclic', 'only_self_maps_accepted',
    'instance_aliases_shortened', 'alias_transparent_step', 'alias_transparent', 'alias_indistinguishable',
    'declared_alias_resolves_alike', 'ctor_transparent', 'ctor_indistinguishable', 'alias_no_storage', 'rename_only',
    'rename_injective', 'rename_no_pref', 'rename_prefers', 'prefCheck_rejects_ambiguous', 'rename_rejects_ambiguous',
    'rename_total_after_check', 'linOrd_strLe',
    'export_is_rename', 'rename_only_opts', 'rename_commutes_with_selection', 'rename_commutes_with_append',
    'export_opts_raise_alike', 'unaliased_label_kept',
    'class_aliases_nearest_declaration', 'instance_uses_own_class_aliases', 'existing_instances_keep_their_map',
    'instantiation_order_irrelevant', 'reassigned_aliases_used', 'reassignment_leaves_other_declarations',
    'failed_op_preserves_state', 'failed_replace_is_prefix', 'read_op_preserves_state',
    'resolution_depends_only_on_aliases', 'plain_twin_agrees', 'plain_twin_history', 'plain_is_twin',
    'ctor_routes_resolve_keys', 'from_dataframe_alias_columns', 'chain_label_resolves', 'from_dataframe_chain_labels',
    'export_import_round_trip', 'round_trip_same_values', 'resolve_reencode', 'constructor_reencode', 'ctor_reencode',
    'label_not_resolved', 'alias_named_label_not_resolved', 'label_access_absolute', 'label_slice_absolute',
    'resolving_labels_reads_target', 'resolving_labels_differs', 'resolving_labels_differs_at_witness']]
RULE = ('(F) guard: 4 fixed cyclic/self maps are constructed in subprocesses (3 s limit, in parallel) before anything '
        'else; a call that does not return is a violation and keeps cyclic/self maps out of the in-process parts of '
        'that run. (A) every alias dict with keys from 4 alias names and values from those names + 2 variables + 1 '
        'undefined name: all key subsets in fixed order (4096) and every key order up to size 3, plus maps whose keys '
        'shadow a variable - plain, with self-maps and cyclic alike, constructed in-process: returned items and the '
        'resolution of every name / rejection compared with the model; oracle: no cycle apart from self-maps => the '
        'constructor returns and every name resolves to the end of its chain (X -> X is no alias), a cycle => the '
        'constructor raises. (B) every such map without cycle over 3 alias names (size <= 3) x every PREFERRED_NAMES '
        'list of <= 3 distinct names (and repeated names): constructor accepts/raises. (C) export on a stub frame: '
        'class-level and post-construction preferred_names, columns or exception class vs model, data/shape/labels vs '
        'oracle. (D) random histories of the wrapped accessors (attribute, item, (name,label), label slice, '
        'replace_values, constructor keywords, strict) on a BaseModel subclass whose map has self-maps (25%) or a '
        'cycle (4%) vs the model: every result, final series, ad-hoc attributes. (E) oracle: parser-built and '
        'hand-written models with random alias topologies (chains <= 3, many-to-one, undefined targets, self-maps on '
        'variables / unused / undefined names) driven through random spellings vs a twin driven through canonical '
        'names: every result, full state by bits/dtype, index, names, __dict__ keys, status/iterations after '
        'solve/solve_t/solve_period; export vs plain export. (G) export with options: random models, linkers and plain '
        'containers with underscore-prefixed variables (aliased or not), unsolved / solved / one period solved, alias '
        'maps that also reach internal variables and the status/iterations columns: for all 8 combinations of status / '
        'iterations / include_internal, each spelled in full and with only the non-default flags, '
        'to_dataframe(use_aliases=True, **opts) vs to_dataframe(**opts) (shape, index, every column by position, '
        'labels renamed only to aliases, preferred names, status/iterations/internal columns present iff requested, '
        'options the base class rejects are rejected alike) and vs the same object without the mixin; labels vs the '
        'model (names filtered by include_internal ++ status? ++ iterations?, renamed). (H) class hierarchies over '
        'parser-built models: 8 fixed shapes (child re-declares / inherits, grandchild inherits the nearest / skips to '
        'the root, siblings, PREFERRED_NAMES re-declared alone / inherited under re-declared ALIASES, undeclared root) '
        'and random trees of 2-5 classes whose maps draw on 5 shared alias names; instances parent-first / '
        'child-first / interleaved, subclasses defined before or after the first instance; then Cls.ALIASES = new '
        'dict, Cls.ALIASES[k] = v, Cls.PREFERRED_NAMES = ..., del Cls.ALIASES followed by new instances and by '
        'operations on and copies of old ones: every instance vs a twin of the mirrored hierarchy through canonical names '
        '(constructor keywords, every name of the shared pool read right after construction / after later class-level '
        'events / at the end, histories, export), class __dict__ entries untouched by instantiation; self.aliases, '
        'preferred_names, resolutions and export labels of every instance vs the model of the class table. '
        '(I) histories with FAILING operations (harness/alias_failops.py), run in parallel worker processes: models, '
        'linkers with an aliased submodel and plain containers; variable-name pools plain / underscore twins (Y and _Y) / '
        'class-member-like names (those of size, copy, eval, nbytes, LAGS, CODE, reindex, values, solve_t, to_dataframe, '
        'NAMES, solve, replace_values, add_variable, get_closest_match, sizes, submodels ... that HEAD constructs) / case '
        'twins (Y and y: near misses tie) / the mixin\'s own attribute names; alias names plain, member-like (size, values, '
        'copy, nbytes, eval) or a storage key (_Y); every object next to a PLAIN twin = the same class without the mixin '
        'driven through canonical names. Raise sites reachable through the public API that are exercised, interleaved with '
        'successful operations: containers.py __setattr__ strict rejection (AttributeError, NotImplementedError when near '
        'misses tie; typos of variable and of alias names) and DimensionError / NumPy ValueError / TypeError (wrong length, '
        'wrong shape, not a number, through names and aliases), __getitem__ / __setitem__ KeyError (unknown name, near miss, '
        'alias of an undefined target), IndexError (tuple of length 1 / 3), TypeError (key of another type), '
        '_locate_period_in_span KeyError (bad label, bad slice end), add_variable / add_attribute DuplicateNameError '
        '(existing variable, attribute, taken storage key; an alias name is ACCEPTED - finding) and DimensionError / '
        'ValueError (ill-shaped or uncastable value), eval AttributeError (undefined name, alias spelled) / KeyError (bad '
        'backticked label) / ValueError (slice with too many items), values setter DimensionError / ValueError, reindex '
        'KeyError (unknown fill key under strict) / NotImplementedError (linker), replace_values with one bad key or bad '
        'value among good ones; interfaces.py / models.py / linkers.py: constructor InitialisationError (near-miss keyword '
        'under strict), solve ValueError (min_iter > max_iter), KeyError (bad start / period), solve_t IndexError (t or '
        'offset outside the span), NonConvergenceError (failures=raise), SolutionError (NaN with errors=raise), '
        'AttributeError (no solver on a container); extensions/common.py: to_dataframe(use_aliases=True) ValueError '
        '(ambiguous preferred_names set at run time), TypeError (unknown option), obj.preferred_names = ... under strict; '
        'plus get_closest_match, copy, deepcopy, dir, _ipython_key_completions_, `in`, del. After EVERY operation: outcome '
        'vs the plain twin (value, or exception family: fails iff the canonical operation fails); a failed operation (other '
        'than replace_values / solve / values setter, where the plain twin is the reference for what is left behind) and '
        'every read leave names, index, _attributes, __dict__ keys and values, aliases, preferred_names, every series '
        '(bytes + dtype), status / iterations, span, strict, size, nbytes, values, the plain and the aliased export under '
        'two option sets and the class-level NAMES / ALIASES / PREFERRED_NAMES exactly as they were; the whole observation '
        'equals the plain twin\'s (mixin attributes aside); copies and reindexed objects vs the plain twin\'s; 35% of the '
        'histories (models and containers, operations of FsicModel/AliasFail.lean) also vs the model: result and names / '
        'index / series / attributes / aliases / preferred_names after every operation. '
        '(J) constructor routes (harness/alias_routes.py): Model(span, **kw), Model.from_dataframe(df[, strict=, **kw]) with '
        'the columns / extra keywords named by canonical names / direct aliases / aliases of aliases / declared chains of 3 / '
        'a mixture (plus the odd label that names nothing), the round trip Model.from_dataframe(m.to_dataframe(use_aliases='
        'True, status=False, iterations=False)) and with the status / iterations columns left in, under random unambiguous '
        'PREFERRED_NAMES, copy() / copy.copy / copy.deepcopy of an instance built through aliases (by keywords or from a '
        'frame), Linker(submodels, **alias_kw) and its copies with submodels built by from_dataframe (one alias-enabled, its '
        'columns alias-labelled); int / str / PeriodIndex spans, strict=True variants, int and float (NaN) data; parser-built '
        'and hand-written models: outcome (instance / exception class) vs the canonical twin (the class WITHOUT the mixin, '
        'same data under canonical names), every series by bytes + dtype, span, names, index, attributes, submodels; '
        'absolutely: the variable a label resolves to holds exactly that column, every other variable the default; every '
        'declared spelling reads the variable on the new instance; a few operations through aliases on the new instance vs '
        'the twin; a copy does not share state with its original; integer cases also vs the model (fromDataframeAliased / '
        'ctorAliased / linkerCtorAliased / roundTrip). (K) the form of the name: plain str, numpy.str_, the element of an '
        'iterated NumPy array, a member of class Name(str, Enum), a user subclass of str, interned, built by concatenation '
        '(JSON: {"form", "text"}) x every path that takes a name: m[name], m[name, label], m[name, a:b], the three writes, '
        'getattr / setattr, name in m, replace_values, constructor keyword (plain and strict), from_dataframe column labels '
        '(object Index of such labels), add_variable, eval, to_dataframe(use_aliases=True) of a class whose ALIASES / '
        'PREFERRED_NAMES are themselves written in the form: four objects per history - aliased through the form, aliased '
        'through plain str, the class without the mixin through the canonical name in the same form and in plain str: '
        'result and full state after every operation must be those of the plain-str spelling (unless the class without the '
        'mixin itself tells the forms apart on that path) and those of the plain class in the same form; _resolve_alias of '
        'every name in every form vs the model. '
        '(L) spans labelled with NAMES (harness/alias_labels.py): models (hand-written, parser-built), plain containers and '
        'linkers with an alias-enabled submodel whose span - a list, tuple, NumPy array of str or pandas Index of 3-8 '
        'distinct strings - has labels spelt like aliases (with / without the label of their target), like canonical '
        'variable names, like alias targets that are no variable, like names that map to themselves, like aliases / '
        'variables of the linker\'s submodel, and plain labels; 6-14 operations per object: m[name, l], m[name, a:], '
        'm[name, :b], m[name, a:b], m[name, :] each with step None / 1 / 2 / 3 (rarely <= 0), read and write (scalar, '
        'sequence of the right / of the wrong length), the label in the key a plain str (80%) or another str form of (K), '
        '12% of them names that are NOT labels (first of all an alias of a label), the first component a canonical name, '
        'an alias, an alias of an alias, an alias of an undefined name or an unknown name; whole-series reads / writes in '
        'between; eval of X[`l`], X[`a`:`b`:c] ...; Model(span, **alias_kw), Model.from_dataframe(frame indexed by the '
        'labels - list / Index / array), to_dataframe(use_aliases=True), reindex onto a reordered / shortened / extended '
        'span. After EVERY operation: (a) result (bytes + dtype or exception family) and full state vs the class WITHOUT '
        'the mixin driven through the canonical name and the SAME label; (b) absolutely, from the text: the result is '
        'element labels.index(l) / elements range(index(a), index(b)+1, c) of the series of the variable the name '
        'resolves to, a write changes exactly those cells of exactly that series (all series compared by bytes + dtype), '
        'a label outside the span is KeyError and changes nothing; new objects: span == the labels, new[name, l] is the '
        'datum given for l; the exported frame\'s index == the labels; the integer history also vs the model '
        '(alias_label_history = aliased (labelOps span), labels ARE names there; a fixed witness checks that the model of '
        'a mixin that resolves labels too answers differently). '
        'distinct = distinct (part, alias map, preferences, '
        'history); non-trivial = the map is not empty and (D, E) the case goes through at least one declared name, '
        '(H) at least one declared map and two instances, (I) at least one operation through a declared alias and at '
        'least one failed operation, (J) at least one label is an alias, (K) at least one name that is an alias comes in a '
        'form that is not exactly str, (L) at least one key whose label / slice bound is spelt like an alias of the object')
TRUSTED = ['pandas DataFrame.rename(columns=d) maps each label through d, leaves other labels and all data alone '
           '(exercised by the export oracle on every case)',
           'Python set/dict semantics as modelled (set intersection size, dict insertion order, later key wins)',
           'str ordering by code point equals Lean String order (ASCII names only are generated)']
ASSUMPTIONS = ['ALIASES is a dict of str to str; alias names are not names of attributes/methods of the object',
               'guard for "no column duplicated" and for the twin comparison: alias names are not themselves variable '
               'names (shadowing is compared with the model only); an entry X -> X is not an alias name',
               'weaker reading enforced: ambiguous PREFERRED_NAMES may be rejected at construction or at export; after '
               'construction only two preferred *aliases* of one variable must be rejected by the export (preferred '
               'alias + preferred variable name: not constrained); a variable with several aliases and no preference '
               'may keep its name or take any of its aliases',
               'self-maps are configurations of the property (its quantifier lists them): a map whose only cycles are '
               'entries X -> X must be accepted and X -> X must behave as no alias (rejection = violation '
               '`self-alias-rejected`); a map with a longer cycle names no variable for the aliases on it: the '
               'constructor must reject it - any exception class counts as rejection, in the oracle and in the '
               'comparison with the model (which says ValueError), as for PREFERRED_NAMES; returning a map is the '
               'violation `cyclic-aliases-accepted`, not returning at all `self-alias-hang` / `alias-cycle-hang`',
               'whether `self.aliases` still lists an entry X -> X is not an observable of the property (oracle); the '
               'model comparison does compare the items',
               'label -> position lookup and NumPy assignment semantics are parameters of the model (C09/C10)',
               'export with options: the clause is read relative to the same options without use_aliases; which columns '
               'the options select is the base class\'s business and is decided on the plain names (an underscore-prefixed '
               'alias of a public variable is exported, a public alias of an internal variable is not unless '
               'include_internal); options the base class does not take (plain container) must be rejected alike',
               'class hierarchies: single inheritance below the mixin (the MRO is the chain of parents); an instance lives '
               'by Cls.ALIASES / Cls.PREFERRED_NAMES as Python attribute look-up finds them when it is created (nearest own '
               'declaration; in-place changes reach the dict of the declaring class, hence every class that inherits it); '
               'AliasMixin.ALIASES itself is never written by the harness; multiple inheritance between alias-enabled '
               'classes is not generated',
               'copy() of an old instance after class-level changes: must behave as the instance it copies (own map kept); '
               'not claimed where the class\'s current ALIASES / PREFERRED_NAMES are themselves rejected by the constructor '
               '(copy() re-runs the constructor on them and raises ValueError on the current tree - counted as '
               '`hier-copy:class-declaration-now-rejected`)',
               '(I) which operation fails with which class is the base classes\' business: the aliased object must fail iff '
               'the plain twin fails on the canonical name, with the same class family; a failed operation must leave the '
               'aliased object as it was - absolutely - except replace_values, solve*, the values setter, which HEAD applies '
               'piecewise (there the plain twin is the reference); operations the mixin does not wrap (eval, reindex, `in`, '
               'del, add_variable) take names literally: their outcome is compared with the plain twin only when no alias is '
               'spelled, their effect on the state always',
               'open findings (known_findings.json) kept out of the other comparisons: an alias whose name is an attribute '
               'of the object (member-like names, storage keys) is not consulted on attribute reads; a variable named '
               '`aliases` / `preferred_names` reads as the mixin\'s attribute; add_variable accepts an alias name (the '
               'history ends there: the name is both an alias and a variable from then on)',
               '(J) a label given twice through two spellings of one variable is not generated (Python forbids the canonical '
               'counterpart: the same keyword twice); the instance attribute `aliases` is not compared, only what every declared '
               'spelling reads; linkers: no PeriodIndex span (HEAD compares submodel spans with `!=`, mixin or not)',
               '(K) a str form is required to behave as the plain str only where the class without the mixin treats the two alike '
               'on the same path (HEAD: everywhere); names are abstract in the Lean model (one element of the name type per '
               '==/hash class), so the equal treatment of the forms is established by the harness, not by a theorem; the '
               'theorems resolve_reencode / constructor_reencode / ctor_reencode state that nothing in the model depends on '
               'the representation of a name',
               '(L) a label is a period, whatever it is spelt like: only the first component of a tuple key is a name '
               '(the reading of "label-indexed access through an alias": the alias is the name, the label is the label); '
               'slices with step <= 0 and labels in a str form the class without the mixin rejects are compared with the '
               'twin only (no absolute claim); NumPy broadcasts a length-1 sequence into a slice (not generated); spans '
               'have no repeated labels; linkers: list / tuple spans only (HEAD compares submodel spans with `!=`)',
               'read/write = the four wrapped accessors, replace_values, constructor keywords and code that uses them '
               '(weaker reading); paths the mixin does not wrap are not claimed: `name in model`, eval() of an expression '
               'that spells an alias, reindex(**fill_values) keyed by an alias are not alias-aware on the current tree']

META = {
    "text": "Theorems for every alias map, store, value semantics and operation history. Alias stage of AliasMixin.__init__ (self-map filter, loop bounded by range(len(aliases)+1), else: raise ValueError, second filter), at full strength for EVERY dict: if no cycle remains after dropping the entries X -> X it returns the remaining aliases each pointing at the end of its chain (len+1 passes always suffice: pigeonhole, distances double per pass), otherwise it raises ValueError - ValueError iff a cycle remains, both directions; {'Y': 'Y'} yields the empty map, {'A': 'B', 'B': 'A'} raises; the filter after the loop is dead code, the one in front is not. On an instance map every read/write/label access/bulk replacement/constructor keyword through a name is the plain container's operation on resolve(name), for all histories (refinement), two spellings that resolve alike are indistinguishable, the index never changes and no attribute named like an alias is ever created; the export changes labels only (data, count, order kept), a changed label is an alias of the old one, labels stay distinct under the guard, the preferred name is chosen, ambiguous preferences are rejected by the constructor check (iff) and by the export. The model is tied to the code by exhaustive comparison over small alias maps (plain, self-maps, cycles) / preference lists and random histories; a twin-model oracle searches the real code, self-maps included. Export with options: the export is rename with a label map that depends on the instance only (export_is_rename), so for every combination of status / iterations / include_internal the aliased frame has exactly the columns and data of the plain frame with the same options (rename_only_opts), renaming commutes with the option-driven selection and with appending the solution columns, and whether it raises does not depend on the options. Class hierarchies: Cls.ALIASES is the nearest own declaration along the parents (class_aliases_nearest_declaration); for every history of class statements, constructor calls, re-assignments, in-place changes and deletions an instance holds the constructor's result on its own class's ALIASES / PREFERRED_NAMES as of its creation and keeps it (instance_uses_own_class_aliases, existing_instances_keep_their_map), the constructor never writes class-level state, so the order of instantiation is irrelevant (instantiation_order_irrelevant). Error paths (FsicModel/AliasFail.lean: the instance with self.names, self.aliases, self.preferred_names as fields of the state; accessors, eval, add_variable, preferred_names assignment, export, get_closest_match): every operation that fails leaves the instance exactly as it was - replace_values, which HEAD applies key by key, leaves exactly the assignments before the failing key and never touches names, alias map, preferences, index, strict (failed_op_preserves_state, failed_replace_is_prefix); reads never change anything (read_op_preserves_state); no operation, failed or not, changes the alias map, so resolution is a function of the alias map and the name alone after any history (resolution_depends_only_on_aliases); the object equals its plain twin driven through resolved names after every history of successful and failed operations, failing iff the twin fails with the same class (plain_twin_agrees, plain_twin_history). Constructor routes (FsicModel/AliasCtor.lean): every route that builds an instance - keywords, from_dataframe (column labels become keywords, spelled as they are; a keyword spelled like a column is Python's TypeError), linker, the export/import round trip - is construct o resolve-keys (ctor_routes_resolve_keys); when each variable is given once, columns / keywords named by ANY name resolving to a variable v initialise v with exactly that data, every other variable holds the default, and the result (instance or exception) is that of the class without the mixin on the canonically labelled table (from_dataframe_alias_columns); any name along a declared chain - 1, 2, 3 ... links - resolves on the instance like the start of the chain, so tables labelled anywhere along the chains build the same instance (chain_label_resolves, from_dataframe_chain_labels); importing the aliased export is importing the plain one and gives back the same values (export_import_round_trip, round_trip_same_values). Names are abstract: resolution, the constructor's alias stage and the constructor keywords commute with every injective re-encoding of the names (resolve_reencode, constructor_reencode, ctor_reencode); that Python's str forms of one name are one name for the code is checked by the harness (part K). Labels spelt like names (FsicModel/AliasLabel.lean: the instance of the value semantics in which the span is a list of NAMES, locate = first position of the label, closed label slices with step): label_not_resolved - for EVERY index (label or slice bounds, even members of keys a) the aliased read / write is the plain container's on resolve(name) with the same index; label_access_absolute / label_slice_absolute - it is element locate(span, l) (the cells range(i, j+1, step)) of the series stored under resolve(name), a write changes exactly that cell, a label outside the span is KeyError even if its target is a label; resolving_labels_reads_target / resolving_labels_differs / resolving_labels_differs_at_witness - a mixin that resolves every str of the key lands on the label's target and is a different container whenever that is another period holding another value or no period at all (concrete witness: span ['GDP','Y','C','p3','k1'], ALIASES {'GDP':'Y','cons':'C','k1':'zzz'}).",
    "design_ref": "DESIGN.md §5 M8, §6 C18, §7 row 14",
    "note": "Trusted: Lean kernel; axioms propext/Classical.choice/Quot.sound; the correspondence harness, which validates the hand-written model on generated cases only; pandas rename and Python dict/set semantics as modelled. Findings self-alias-hang / alias-cycle-hang fixed by ca9bf22 (a subprocess guard with a 3 s limit still watches for the hang; an in-process alarm backs it up). Guards: alias names are not variable/attribute names (no-duplicate-column claim, twin oracle). Open findings: add-variable-alias-name:unreachable, alias-name-is-object-attribute:getattr, variable-named-like-mixin-attribute:getattr.",
    "technique": "Lean 4 proof (loop invariant with chain doubling, pigeonhole, refinement by induction over histories) + differential correspondence check + twin-model oracle + plain-twin / absolute-snapshot oracle over histories with failing operations + constructor-route twin/absolute oracle + four-object name-form oracle + name-labelled-span twin/absolute-cell oracle"
}

KEY_SELF_HANG = 'self-alias-hang'
KEY_CYCLE_HANG = 'alias-cycle-hang'


# ---------------------------------------------------------------------------------------------------------------
# watchdogs

class Hang(Exception):
    pass


def _on_alarm(signum, frame):
    raise Hang()


class time_limit:
    """In-process guard around real-code calls that contain the shortening loop (pure Python byte code, so the
    signal handler gets to run)."""

    def __init__(self, seconds):
        self.seconds = seconds

    def __enter__(self):
        self.old = signal.signal(signal.SIGALRM, _on_alarm)
        signal.setitimer(signal.ITIMER_REAL, self.seconds)

    def __exit__(self, *a):
        signal.setitimer(signal.ITIMER_REAL, 0)
        signal.signal(signal.SIGALRM, self.old)
        return False


# The child times the constructor itself (the clock starts after the imports, so a loaded machine cannot turn a slow
# import into a "hang"); the parent's own timeout is only a backstop.
WATCHDOG_SRC = r'''
import json, signal, sys
sys.path.insert(0, sys.argv[1])
from fsic.extensions import AliasMixin
class Stub:
    def __init__(self, *a, **k):
        pass
class WatchdogTimeout(BaseException):
    pass
def on_alarm(signum, frame):
    raise WatchdogTimeout()
aliases = dict(json.loads(sys.argv[2]))
A = type('A', (AliasMixin, Stub), {'ALIASES': aliases})
signal.signal(signal.SIGALRM, on_alarm)
signal.setitimer(signal.ITIMER_REAL, float(sys.argv[3]))
try:
    a = A()
    signal.setitimer(signal.ITIMER_REAL, 0)
    print(json.dumps({'outcome': 'ok', 'aliases': [list(x) for x in a.aliases.items()]}))
except WatchdogTimeout:
    print(json.dumps({'outcome': 'hang'}))
except BaseException as e:
    signal.setitimer(signal.ITIMER_REAL, 0)
    print(json.dumps({'outcome': 'exc', 'cls': type(e).__name__, 'value_error': isinstance(e, ValueError)}))
'''
WATCHDOG_SECONDS = 3.0
WATCHDOG_BACKSTOP = 60.0


def watchdog_start(items):
    return subprocess.Popen([sys.executable, '-c', WATCHDOG_SRC, framework.REPO, json.dumps(items),
                             str(WATCHDOG_SECONDS)],
                            stdout=subprocess.PIPE, stderr=subprocess.DEVNULL, text=True,
                            env=dict(os.environ, PYTHONDONTWRITEBYTECODE='1'))


def watchdog_collect(proc, deadline):
    try:
        out, _ = proc.communicate(timeout=max(0.05, deadline - time.time()))
    except subprocess.TimeoutExpired:
        proc.kill()
        proc.communicate()
        return {'outcome': 'hang'}
    try:
        return json.loads(out.strip().splitlines()[-1])
    except Exception:  # noqa: BLE001
        return {'outcome': 'crash', 'rc': proc.returncode}


# ---------------------------------------------------------------------------------------------------------------
# oracle vocabulary: written from the property text, independent of the Lean model

def strip_self(m):
    """An entry X -> X names X itself: it is no alias."""
    return {k: v for k, v in m.items() if k != v}


def chain_end(m, name):
    """The underlying variable of `name`: follow the declared aliases to the end (an entry X -> X ends a chain: X
    names itself).  None if the chain runs into a cycle."""
    seen = set()
    while name in m and m[name] != name:
        if name in seen:
            return None
        seen.add(name)
        name = m[name]
    return name


def is_acyclic(m):
    """No cycle apart from self-maps: every name has an underlying variable."""
    return all(chain_end(m, k) is not None for k in m)


def has_self(m):
    return any(k == v for k, v in m.items())


def is_plain(m):
    """Neither a cycle nor a self-map (the maps on which the code before ca9bf22 returned at all)."""
    return is_acyclic(m) and not has_self(m)


def kind_of(m):
    return 'cycle' if not is_acyclic(m) else 'self' if has_self(m) else 'plain'


def hang_key(m):
    return {'plain': 'constructor-hang-acyclic', 'self': KEY_SELF_HANG, 'cycle': KEY_CYCLE_HANG}[kind_of(m)]


# Set by the hang guard at the start of run(): False = some constructor call on a cyclic/self map did not return, so
# no such map is constructed in-process in this run.
CYCLIC_OK = [True]


def pairs(items):
    return ','.join(f'{k}>{v}' for k, v in items)


def line(kind, payload):
    return kind + '\t' + json.dumps(payload, separators=(',', ':'))


def exc_name(e):
    return type(e).__name__


class StubBase:
    """Stands in for the model behind the mixin where only the mixin's own logic is under test."""
    FRAME = None

    def __init__(self, *args, **kwargs):
        self.__dict__['ctor_args'] = args
        self.__dict__['ctor_kwargs'] = dict(kwargs)

    def to_dataframe(self, **kwargs):
        return StubBase.FRAME


def stub_frame():
    import pandas as pd
    if StubBase.FRAME is None:
        StubBase.FRAME = pd.DataFrame({'X': [1.0, 2.0], 'Y': [3.0, 4.0], 'Z': [5.0, 6.0], 'status': ['-', '.'],
                                       'iterations': [-1, 3]}, index=[2000, 2001])
    return StubBase.FRAME


def stub_class(items, pref=()):
    return type('A', (AliasMixin, StubBase), {'ALIASES': dict(items), 'PREFERRED_NAMES': list(pref)})


_SAMPLED = {}


def sample_once(part, every, count, payload):
    """At most one written-out sample per part (the framework keeps the first six overall)."""
    if count % every == every // 2 and _SAMPLED.get(part, 0) < 1:
        _SAMPLED[part] = _SAMPLED.get(part, 0) + 1
        return payload
    return None


class Budget:
    """Stops a part after repeated in-process hangs (every further case would cost the time limit again)."""

    def __init__(self):
        self.hangs = 0

    def construct(self, rep, case, cls, *args, **kwargs):
        """Returns (instance | None, exception class name | None)."""
        try:
            with time_limit(2.0):
                return cls(*args, **kwargs), None
        except Hang:
            self.hangs += 1
            m = dict(cls.ALIASES)
            rep.violate(hang_key(m), f'constructor did not return within 2 s for ALIASES={m} ({kind_of(m)} map)', case)
            return None, 'Hang'
        except Exception as e:  # noqa: BLE001
            return None, exc_name(e)

    @property
    def exhausted(self):
        return self.hangs >= 2


# ---------------------------------------------------------------------------------------------------------------
# (A) shortening and resolution

A_KEYS = ['p', 'q', 'r', 's']
A_VALS = A_KEYS + ['X', 'Y', 'U']
A_NAMES = A_VALS + ['W']


def enum_maps_A(tier):
    seen = set()
    out = []

    def add(items):
        t = tuple(items)
        if t not in seen:
            seen.add(t)
            out.append(list(t))
    for size in range(0, 5):
        for ks in itertools.combinations(A_KEYS, size):
            for vs in itertools.product(A_VALS, repeat=size):
                add(zip(ks, vs))
    for size in range(2, 4 if tier == 'quick' else 5):
        for ks in itertools.permutations(A_KEYS, size):
            for vs in itertools.product(A_VALS, repeat=size):
                add(zip(ks, vs))
    # keys that shadow a variable name
    sk, sv = ['p', 'q', 'X'], ['p', 'q', 'X', 'Y', 'U']
    for size in range(1, 4):
        for ks in itertools.permutations(sk, size):
            if 'X' in ks:
                for vs in itertools.product(sv, repeat=size):
                    add(zip(ks, vs))
    return out


def judge_outcome(rep, case, m, returned, err, resolve, names):
    """Oracle for the alias stage of the constructor.  `returned`: it returned; `err`: exception class name;
    `resolve`: the instance's name resolution.  Returns the resolutions, or None."""
    if not is_acyclic(m):
        if returned:
            rep.violate('cyclic-aliases-accepted', f'constructor accepted the cyclic map ALIASES={m}: an alias on a '
                        'cycle names no variable', case)
        return None          # rejected (whatever the exception class): conforming
    if not returned:
        if has_self(m):
            rep.violate('self-alias-rejected', f'constructor raised {err} for ALIASES={m}: an entry X -> X names X '
                        'itself and no cycle remains without it', case)
        else:
            rep.violate('acyclic-map-rejected', f'constructor raised {err} for an acyclic alias map (ALIASES={m})', case)
        return None
    try:
        res = [(n, resolve(n)) for n in names]
    except Exception as e:  # noqa: BLE001
        rep.violate('resolve-raises', f'_resolve_alias raised {exc_name(e)} (ALIASES={m})', case)
        return None
    # every name resolves to the end of its chain (itself when it is not an alias / maps to itself)
    for n, got in res:
        want = chain_end(m, n)
        if got != want:
            rep.violate('resolve-not-chain-end', f'name {n!r} resolves to {got!r}, the end of its chain is '
                        f'{want!r} (ALIASES={m})', case)
            break
    return res


def check_shorten(ctx, rep, maps, names, label, budget=None):
    """Every kind of map (plain, with self-maps, cyclic), in-process.  impl vs model (T): returned items and
    resolutions / rejected; impl vs chain end, cycle rejected, self-map = no alias (S)."""
    budget = budget or Budget()
    impl, cases = [], []
    for items in maps:
        if budget.exhausted:
            break
        m = dict(items)
        kind = kind_of(m)
        if kind != 'plain' and not CYCLIC_OK[0]:
            continue
        case = {'part': 'shorten', 'm': items, 'names': names}
        inst, err = budget.construct(rep, case, stub_class(items))
        rep.case(('A', tuple(map(tuple, items))), nontrivial=bool(m),
                 sample=sample_once('A', 2999, rep.evaluations, {'part': 'A', 'ALIASES': m, 'kind': kind}))
        rep.dist[f'{label}:size{len(items)}'] += 1
        rep.dist[f'{label}:{kind}'] += 1
        depth = max([sum(1 for _ in _chain(m, k)) for k in m] or [0])
        rep.dist[f'{label}:chain{depth}'] += 1
        if err == 'Hang':
            continue             # reported by the budget; nothing to compare
        if inst is None and kind == 'cycle':
            rep.dist[f'{label}:cycle-rejected:{err}'] += 1
        res = judge_outcome(rep, case, m, inst is not None, err, inst._resolve_alias if inst is not None else None,
                            names)
        if inst is None:
            s = 'rejected'
        else:
            try:
                res = res if res is not None else [(n, inst._resolve_alias(n)) for n in names]
                s = pairs(inst.aliases.items()) + '|' + pairs(res)
            except Exception as e:  # noqa: BLE001
                s = 'raised:' + exc_name(e)
        impl.append(s)
        cases.append(case)
    if not ctx.oracle_only and cases:
        outs = ctx.drive([line('alias_shorten', {'m': c['m'], 'names': c['names']}) for c in cases])
        for c, a, b in zip(cases, outs, impl):
            # the model's `ValueError` is matched by any exception of the constructor (class and message are not
            # compared, as for the PREFERRED_NAMES check)
            a2 = 'rejected' if a == 'ValueError' else a.split('|', 1)[1] if '|' in a else a
            if unordered_items(a2) != unordered_items(b):
                rep.disagree('AliasMixin.__init__ alias stage (filter, shortening, ValueError) / _resolve_alias: '
                             'model != impl', c, a2, b)
            elif '|' in a:
                rep.dist[f'{label}:rounds{a.split("|", 1)[0]}'] += 1


def unordered_items(s):
    """`items|resolutions` with the dict items sorted: the order of a dict is not an observable of the property."""
    if '|' not in s:
        return s
    items, res = s.split('|', 1)
    return ','.join(sorted(items.split(','))) + '|' + res


def _chain(m, k):
    seen = set()
    while k in m and k not in seen:
        seen.add(k)
        yield k
        k = m[k]


# ---------------------------------------------------------------------------------------------------------------
# (F) guard against a regression to the constructor that never returns: a few cyclic/self maps in subprocesses

GUARD_MAPS = [[['Y', 'Y']], [['A', 'B'], ['B', 'A']], [['p', 'q'], ['q', 'q']], [['p', 'q'], ['q', 'r'], ['r', 'p']]]


def judge_watchdog(rep, case, m, res):
    """True = the constructor call came back (one way or the other)."""
    if res['outcome'] == 'hang':
        rep.violate(hang_key(m), f'AliasMixin.__init__ does not return (watchdog, {WATCHDOG_SECONDS} s) for '
                    f'ALIASES={m}', case)
        return False
    if res['outcome'] == 'exc':
        judge_outcome(rep, case, m, False, res['cls'], None, [])
    elif res['outcome'] == 'ok':
        got = dict(tuple(x) for x in res['aliases'])
        judge_outcome(rep, case, m, True, None, lambda n: got.get(n, n), list(m) + list(m.values()))
    else:
        rep.violate('cyclic-watchdog-crash', f'watchdog subprocess crashed for {m}: {res}', case)
    return True


def hang_guard(ctx, rep):
    """Runs before any in-process use of a cyclic or self map.  True = all calls came back."""
    t0 = time.time()
    started = [(items, watchdog_start(items)) for items in GUARD_MAPS]
    safe = True
    for items, proc in started:
        m = dict(items)
        case = {'part': 'cyclic', 'm': items}
        res = watchdog_collect(proc, max(t0 + WATCHDOG_BACKSTOP, time.time() + 1.0))
        rep.case(('F', tuple(map(tuple, items))), nontrivial=True,
                 sample={'part': 'F', 'ALIASES': m, 'outcome': res} if not _SAMPLED.get('F') else None)
        _SAMPLED['F'] = 1
        rep.dist['guard:' + res['outcome'] + (':' + res.get('cls', '') if res['outcome'] == 'exc' else '')] += 1
        safe = judge_watchdog(rep, case, m, res) and safe
    return safe


# ---------------------------------------------------------------------------------------------------------------
# (B) PREFERRED_NAMES at construction

B_KEYS = ['p', 'q', 'r']
B_VALS = B_KEYS + ['X', 'Y', 'U']
B_PREF = ['p', 'q', 'r', 'X', 'Y']


def enum_maps_B():
    out = []
    for size in range(0, 4):
        for ks in itertools.combinations(B_KEYS, size):
            for vs in itertools.product(B_VALS, repeat=size):
                items = [list(x) for x in zip(ks, vs)]
                if is_acyclic(dict(items)) and (CYCLIC_OK[0] or is_plain(dict(items))):
                    out.append(items)
    return out


def enum_prefs(tier):
    out = [[]]
    for size in (1, 2, 3):
        out += [list(x) for x in itertools.permutations(B_PREF, size)]
    out += [['p', 'p'], ['X', 'X'], ['p', 'X', 'p'], ['q', 'Y', 'r', 'X']]
    if tier != 'quick':
        out += [list(x) for x in itertools.permutations(B_PREF, 4)]
    return out


def pref_ambiguous(m, pref):
    """Two different preferred names for one variable."""
    ends = {}
    for p in pref:
        ends.setdefault(chain_end(m, p), set()).add(p)
    return any(len(v) > 1 for v in ends.values())


def check_prefcheck(ctx, rep, maps, prefs, budget=None):
    budget = budget or Budget()
    impl, cases = [], []
    for items in maps:
        m = dict(items)
        for pref in prefs:
            if budget.exhausted:
                break
            case = {'part': 'prefcheck', 'm': items, 'pref': pref}
            inst, err = budget.construct(rep, case, stub_class(items, pref))
            s = 'ok' if inst is not None else err
            impl.append(s)
            cases.append(case)
            amb = pref_ambiguous(m, pref)
            rep.case(('B', tuple(map(tuple, items)), tuple(pref)), nontrivial=bool(items) and bool(pref),
                     sample=sample_once('B', 4999, rep.evaluations,
                                        {'part': 'B', 'ALIASES': m, 'PREFERRED_NAMES': pref, 'constructor': s}))
            rep.dist['prefcheck:' + ('ambiguous' if amb else 'unambiguous') + ':' + s] += 1
            if len(set(pref)) == len(pref):
                if amb and inst is not None:
                    # weaker reading: rejection may also happen at export time
                    stub_frame()
                    try:
                        inst.to_dataframe(use_aliases=True)
                        rejected = False
                    except Exception:  # noqa: BLE001  (the class of the rejection is not constrained)
                        rejected = True
                    if not rejected:
                        rep.violate('ambiguous-preferences-accepted', f'PREFERRED_NAMES={pref} names one variable twice '
                                    f'(ALIASES={m}) but neither the constructor nor the export raises', case)
                if not amb and inst is None and err != 'Hang':
                    rep.violate('unambiguous-preferences-rejected', f'PREFERRED_NAMES={pref} is unambiguous for '
                                f'ALIASES={m} but the constructor raised {err}', case)
    if not ctx.oracle_only and cases:
        outs = ctx.drive([line('alias_prefcheck', {'m': c['m'], 'pref': c['pref']}) for c in cases])
        for c, a, b in zip(cases, outs, impl):
            if (a == 'ok') != (b == 'ok'):
                rep.disagree('AliasMixin.__init__ PREFERRED_NAMES check: model != impl', c, a, b)


# ---------------------------------------------------------------------------------------------------------------
# export oracle (S) and export correspondence (T)

def arr_bytes(a):
    if a.dtype == object:
        return ('O', tuple(map(repr, a.tolist())))
    return (a.dtype.str, a.tobytes())


def col_bytes(df, i):
    return arr_bytes(df.iloc[:, i].to_numpy())


def frame_cols(df):
    """Every column by position (duplicate labels are kept apart): dtype + raw bytes."""
    return [arr_bytes(ser.to_numpy()) for _, ser in df.items()]


def export_oracle(rep, case, m, pref, base, out, err, declared_pref_valid, prefix='export'):
    """`base` = to_dataframe(), `out` = to_dataframe(use_aliases=True) or None with `err` the exception class.
    `pref` = the instance's preferred_names at export time; `declared_pref_valid`: they are the class-level ones
    (so they passed the constructor)."""
    m = strip_self(m)      # an entry X -> X is no alias
    labels = [str(c) for c in base.columns]
    keys_shadow = any(k in labels for k in m)
    aliases_of = {}
    for k in m:
        aliases_of.setdefault(chain_end(m, k), []).append(k)
    amb_aliases = any(len([p for p in set(pref) if p in m and chain_end(m, p) == t]) > 1 for t in aliases_of)
    if out is None:
        if pref_ambiguous(m, pref):
            return 'rejected'
        rep.violate(prefix + '-raises', f'to_dataframe(use_aliases=True) raised {err} although the preferences {pref} '
                    f'are unambiguous (ALIASES={m})', case)
        return 'raised'
    if amb_aliases:
        rep.violate(prefix + '-ambiguous-not-rejected', f'preferred_names={pref} holds two aliases of one variable '
                    f'(ALIASES={m}) but the export did not raise', case)
        return 'accepted-ambiguous'
    if out.shape != base.shape or list(out.index) != list(base.index):
        rep.violate(prefix + '-shape', f'use_aliases changed the shape/index: {base.shape} -> {out.shape}', case)
        return 'shape'
    for i, (x, y) in enumerate(zip(frame_cols(out), frame_cols(base))):
        if x != y:
            rep.violate(prefix + '-data-changed', f'column {i} ({labels[i]!r}) differs between the plain and the aliased '
                        'export', case)
            return 'data'
    new = [str(c) for c in out.columns]
    for old, nw in zip(labels, new):
        if nw != old and not (nw in m and chain_end(m, nw) == old):
            rep.violate(prefix + '-label-not-alias', f'column {old!r} was renamed to {nw!r}, which is not an alias of it '
                        f'(ALIASES={m})', case)
            return 'label'
    if keys_shadow or pref_ambiguous(m, pref):
        return 'outside-guard'
    if len(set(labels)) == len(labels) and len(set(new)) != len(new):
        rep.violate(prefix + '-duplicate-labels', f'aliased export has duplicate labels {new} (ALIASES={m})', case)
        return 'dup'
    for p in pref:
        t = chain_end(m, p)
        if t in labels:
            got = new[labels.index(t)]
            if got != p:
                rep.violate(prefix + '-preferred-not-used', f'{p!r} is the preferred name of {t!r} but the column is '
                            f'called {got!r} (ALIASES={m}, preferred_names={pref})', case)
                return 'pref'
    if not pref:
        for t, al in aliases_of.items():
            if t in labels and len(al) == 1 and new[labels.index(t)] != al[0]:
                rep.violate(prefix + '-alias-not-used', f'{t!r} has the single alias {al[0]!r} and no preferences are '
                            f'declared, yet the column is called {new[labels.index(t)]!r}', case)
                return 'unused'
    return 'ok'


def same_columns(m, pref, cols, model_out, impl_out):
    """Model vs implementation on the exported labels.  Where the property is silent - a variable with several
    aliases none of which (nor its own name) is preferred - any of its names is accepted; a raise is compared as a
    raise, whatever its class."""
    m = strip_self(m)
    model_raises = model_out in ('ValueError', 'ctor:ValueError')
    impl_raises = impl_out.startswith('!')
    if model_raises or impl_raises:
        return model_raises and impl_raises and model_out == 'ValueError'
    a, b = model_out.split(','), impl_out.split(',')
    if len(a) != len(b) or len(a) != len(cols):
        return False
    for old, x, y in zip(cols, a, b):
        if x == y:
            continue
        names = [k for k in m if chain_end(m, k) == old]
        free = len(names) > 1 and not any(chain_end(m, p) == old for p in pref)
        if not (free and y in names + [old]):
            return False
    return True


def run_export(inst):
    base = inst.to_dataframe()
    try:
        out, err = inst.to_dataframe(use_aliases=True), None
    except Exception as e:  # noqa: BLE001
        out, err = None, exc_name(e)
    return base, out, err


def check_export_stub(ctx, rep, rng, n_random, budget=None):
    """(C) stub frame; class-level preferences and preferences changed after construction."""
    budget = budget or Budget()
    stub_frame()
    maps = [m for m in enum_maps_B()]
    sk = ['p', 'q', 'r']
    cases, impl = [], []
    todo = []
    # systematic: every acyclic map of (B) x {no preference, each single preferred name, the pairs}
    small_prefs = [[]] + [[x] for x in B_PREF] + [list(x) for x in itertools.combinations(B_PREF, 2)]
    for items in maps:
        for pref in small_prefs:
            if not pref_ambiguous(dict(items), pref):
                todo.append((items, pref, None))
    for _ in range(n_random):
        size = rng.choice([1, 2, 3, 3, 4])
        keys = rng.sample(sk + ['s', 'X'], size) if rng.random() < 0.15 else rng.sample(sk + ['s'], size)
        items = [[k, rng.choice(['X', 'X', 'Y', 'Z', 'U', 'status'] + sk)] for k in keys]
        m = dict(items)
        if not is_acyclic(m) or not (CYCLIC_OK[0] or is_plain(m)):
            continue
        names = list(m) + ['X', 'Y', 'Z']
        pref = rng.sample(names, rng.choice([0, 1, 1, 2]))
        if pref_ambiguous(m, pref) or len(set(pref)) != len(pref):
            pref = []
        late = rng.sample(names, rng.choice([1, 2, 2, 3])) if rng.random() < 0.5 else None
        todo.append((items, pref, late))
    for items, pref, late in todo:
        if budget.exhausted:
            break
        m = dict(items)
        case = {'part': 'export-stub', 'm': items, 'pref': pref, 'late_pref': late}
        inst, err = budget.construct(rep, case, stub_class(items, pref))
        if inst is None:
            if err != 'Hang':
                rep.violate('unambiguous-preferences-rejected', f'constructor raised {err} for ALIASES={m}, '
                            f'PREFERRED_NAMES={pref}', case)
            continue
        if late is not None:
            inst.__dict__['preferred_names'] = list(late)
        eff = late if late is not None else pref
        base, out, xerr = run_export(inst)
        regime = export_oracle(rep, case, m, eff, base, out, xerr, late is None)
        rep.dist['export-stub:' + ('late:' if late is not None else '') + regime] += 1
        rep.case(('C', tuple(map(tuple, items)), tuple(pref), tuple(late) if late is not None else None),
                 nontrivial=bool(items),
                 sample=sample_once('C', 1499, rep.evaluations, {
                     'part': 'C', 'ALIASES': m, 'PREFERRED_NAMES': pref, 'preferred_names_at_export': eff,
                     'columns': list(map(str, out.columns)) if out is not None else xerr}))
        cases.append({'m': items, 'pref': eff, 'cols': [str(c) for c in base.columns], 'case': case})
        impl.append(','.join(str(c) for c in out.columns) if out is not None else '!' + str(xerr))
    if not ctx.oracle_only and cases:
        outs = ctx.drive([line('alias_rename', {'m': c['m'], 'pref': c['pref'], 'cols': c['cols']}) for c in cases])
        for c, a, b in zip(cases, outs, impl):
            if not same_columns(dict(c['m']), c['pref'], c['cols'], a, b):
                rep.disagree('AliasMixin.to_dataframe(use_aliases=True) columns: model != impl', c['case'], a, b)


# ---------------------------------------------------------------------------------------------------------------
# (D) histories against the model

class Plain(fsic.BaseModel):
    ENDOGENOUS = ['Y', 'C']
    EXOGENOUS = ['G']
    NAMES = ENDOGENOUS + EXOGENOUS
    CHECK = ENDOGENOUS


D_ALIAS = ['GDP', 'income', 'out', 'cons', 'gov']
D_UNDEF = ['zzz', 'qqq']
D_SPAN0 = 10


def random_alias_map(rng, variables, alias_pool, undefined, shadow_p=0.0, max_n=5, self_p=0.25):
    """Acyclic; with probability `self_p` one or two entries X -> X (X a variable, an alias name that is otherwise
    unused, or an undefined name) are mixed in: they must behave as no alias."""
    n = rng.randrange(0, max_n + 1)
    names = rng.sample(alias_pool, min(n, len(alias_pool)))
    items = []
    depth = {}
    for a in names:
        r = rng.random()
        prev = [k for k, _ in items if depth[k] < 2]
        if prev and r < 0.4:
            t = rng.choice(prev)
            depth[a] = depth[t] + 1
        elif r < 0.5 and undefined:
            t = rng.choice(undefined)
            depth[a] = 0
        else:
            t = rng.choice(variables)
            depth[a] = 0
        items.append([a, t])
    if variables and rng.random() < shadow_p:
        x, y = rng.sample(variables, 2) if len(variables) > 1 else (variables[0], variables[0])
        if x != y:
            items.append([x, y])
    if rng.random() < self_p:
        taken = {k for k, _ in items}
        free = [x for x in list(variables) + list(alias_pool) + list(undefined) if x not in taken]
        for x in rng.sample(free, min(len(free), rng.choice([1, 1, 2]))):
            items.append([x, x])
    rng.shuffle(items)
    if not is_acyclic(dict(items)):
        return random_alias_map(rng, variables, alias_pool, undefined, shadow_p, max_n, self_p)
    return items


def gen_history_case(rng):
    n = rng.choice([2, 3, 4])
    items = random_alias_map(rng, Plain.NAMES, D_ALIAS, D_UNDEF, shadow_p=0.1)
    if rng.random() < 0.04:
        # a cycle (with a tail now and then): the constructor must raise, as the model does
        free = [x for x in D_ALIAS if x not in dict(items)]
        if len(free) >= 2:
            cyc = rng.sample(free, rng.choice([2, 2, 3]) if len(free) >= 3 else 2)
            items = items + [[a, b] for a, b in zip(cyc, cyc[1:] + cyc[:1])]
            rng.shuffle(items)
    m = dict(items)
    pool = list(m) + Plain.NAMES + D_UNDEF[:1] + ['memo']
    strict = rng.random() < 0.2

    def val(whole):
        r = rng.random()
        if whole and r < 0.35:
            return [rng.randrange(1, 99) for _ in range(n if rng.random() < 0.85 else n + 1)]
        return rng.randrange(1, 99)
    kw, seen_t = [], set()
    for nm in rng.sample(pool, rng.choice([0, 1, 2])):
        t = chain_end(m, nm)
        if t in seen_t:
            continue
        seen_t.add(t)
        kw.append([nm, val(True) if rng.random() < 0.5 else rng.randrange(1, 99)])
    ops = []
    for _ in range(rng.randrange(1, 9)):
        k = rng.choice(['getattr', 'setattr', 'getitem', 'setitem', 'getat', 'setat', 'getat', 'setat', 'replace'])
        nm = rng.choice(pool)
        if k in ('getattr', 'getitem'):
            ops.append({'op': k, 'n': nm})
        elif k in ('setattr', 'setitem'):
            ops.append({'op': k, 'n': nm, 'v': val(True)})
        elif k in ('getat', 'setat'):
            if rng.random() < 0.5:
                ix = rng.randrange(n)
                v = rng.randrange(1, 99)
            else:
                a = rng.randrange(n)
                b = rng.randrange(a, n)
                ix = [a, b]
                v = rng.randrange(1, 99) if rng.random() < 0.6 else [rng.randrange(1, 99) for _ in range(
                    b - a + 1 if rng.random() < 0.85 else b - a + 2)]
            ops.append({'op': k, 'n': nm, 'ix': ix} if k == 'getat' else {'op': k, 'n': nm, 'ix': ix, 'v': v})
        else:
            kvs, st = [], set()
            for x in rng.sample(pool, rng.choice([1, 2, 3])):
                if x not in st:
                    st.add(x)
                    kvs.append([x, val(True)])
            ops.append({'op': k, 'kvs': kvs})
    return {'part': 'history', 'm': items, 'n': n, 'names': list(Plain.NAMES), 'strict': strict, 'kwargs': kw,
            'ops': ops}


def canon_val(r):
    try:
        if isinstance(r, np.ndarray):
            return 'l:' + ','.join(str(int(x)) for x in r.tolist())
        if isinstance(r, (list, tuple)):
            return 'l:' + ','.join(str(int(x)) for x in r)
        return 'i:' + str(int(r))
    except (TypeError, ValueError):
        return 'other:' + repr(r)[:60]


def canon_err(e):
    n = exc_name(e)
    return n if n in ('AttributeError', 'KeyError', 'DimensionError', 'InitialisationError', 'ValueError') else 'Other:' + n


def run_history_impl(case, budget, rep):
    items, n = case['m'], case['n']
    cls = type('A', (AliasMixin, Plain), {'ALIASES': dict(items)})
    span = list(range(D_SPAN0, D_SPAN0 + n))
    try:
        with time_limit(2.0):
            a = cls(span, strict=case['strict'], **{k: v for k, v in case['kwargs']})
    except Hang:
        budget.hangs += 1
        rep.violate(hang_key(dict(items)), f'constructor did not return within 2 s for ALIASES={dict(items)}', case)
        return 'hang'
    except Exception as e:  # noqa: BLE001
        return 'ctor:' + canon_err(e)
    snapshot = set(a.__dict__)
    res = []
    for op in case['ops']:
        k = op['op']
        try:
            if k == 'getattr':
                res.append(canon_val(getattr(a, op['n'])))
            elif k == 'setattr':
                setattr(a, op['n'], op['v'])
                res.append('ok')
            elif k == 'getitem':
                res.append(canon_val(a[op['n']]))
            elif k == 'setitem':
                a[op['n']] = op['v']
                res.append('ok')
            elif k in ('getat', 'setat'):
                ix = op['ix']
                key = (op['n'], slice(span[ix[0]], span[ix[1]]) if isinstance(ix, list) else span[ix])
                if k == 'getat':
                    res.append(canon_val(a[key]))
                else:
                    a[key] = op['v']
                    res.append('ok')
            elif k == 'replace':
                a.replace_values(**{x: v for x, v in op['kvs']})
                res.append('ok')
        except Exception as e:  # noqa: BLE001
            res.append(canon_err(e))
    if list(a.names) != list(Plain.NAMES) or list(a.index) != ['status', 'iterations'] + list(Plain.NAMES):
        # no operation of this part adds a variable: the name lists are the class's, whatever failed on the way
        rep.violate('alias-adds-storage:names', f'after the history names={list(a.names)}, index={list(a.index)}; the '
                    f'model declares {list(Plain.NAMES)} (ALIASES={dict(items)}, strict={case["strict"]})', case)
    series = ';'.join(f'{nm}=' + (','.join(str(int(x)) for x in a.__dict__['_' + nm].tolist())
                                  if '_' + nm in a.__dict__ else '<no storage>') for nm in a.names)
    attrs = ';'.join(f'{k}={canon_val(v)}' for k, v in a.__dict__.items() if k not in snapshot)
    return ' '.join(res) + '|' + series + '|' + attrs


_ERR = re.compile(r'\b(?:Other:)?[A-Za-z]*(?:Error|Exception)\b')


def lenient_history(s):
    """Which class an access to an unknown name / an ill-shaped value raises is the container's business (C09),
    not the mixin's: compare 'raised' only; ad-hoc attributes as a set."""
    s = _ERR.sub('ERR', s)
    parts = s.split('|')
    if len(parts) == 3:
        parts[2] = ';'.join(sorted(parts[2].split(';')))
    return '|'.join(parts)


def check_histories(ctx, rep, rng, count, budget=None):
    budget = budget or Budget()
    cases, impl = [], []
    for _ in range(count):
        if budget.exhausted:
            break
        case = gen_history_case(rng)
        m = dict(case['m'])
        if not CYCLIC_OK[0] and not is_plain(m):
            continue
        s = run_history_impl(case, budget, rep)
        if not is_acyclic(m) and not s.startswith('ctor:') and s != 'hang':
            rep.violate('cyclic-aliases-accepted', f'constructor accepted the cyclic map ALIASES={m}', case)
        rep.dist['history-map:' + kind_of(m)] += 1
        through_alias = any(op.get('n') in m for op in case['ops']) or any(k in m for k, _ in case['kwargs']) or any(
            x in m for op in case['ops'] if op['op'] == 'replace' for x, _ in op['kvs'])
        rep.case(('D', json.dumps(case, sort_keys=True)), nontrivial=through_alias,
                 sample=sample_once('D', 499, rep.evaluations, {'part': 'D', 'case': case, 'impl': s}))
        for op in case['ops']:
            rep.dist['history-op:' + op['op']] += 1
        rep.dist['history:' + ('ctor-error' if s.startswith('ctor:') else 'strict' if case['strict'] else 'plain')] += 1
        cases.append(case)
        impl.append(s)
    if not ctx.oracle_only and cases:
        outs = ctx.drive([line('alias_history', {k: v for k, v in c.items() if k != 'part'}) for c in cases])
        for c, a, b in zip(cases, outs, impl):
            if lenient_history(a) != lenient_history(b):
                rep.disagree('wrapped accessors over a history: model != impl', c, a, b)


# ---------------------------------------------------------------------------------------------------------------
# (E) twin oracle on parser-built and hand-written models

SCRIPTS = [
    'Y = C + G\nC = {alpha} * Y[-1] + {beta}',
    'C = {alpha_1} * YD + {alpha_2} * H[-1]\nYD = Y - T\nY = C + G\nT = {theta} * Y\nH = H[-1] + YD - C',
    'Y = 0.5 * X + Z[-1]\nZ = Y[-1] + W',
]
E_ALIAS = ['GDP', 'income', 'output', 'expenditure', 'cons', 'mpc', 'wealth', 'tax', 'k1', 'k2']
_BUILT = {}


def built(i):
    if i not in _BUILT:
        _BUILT[i] = fsic.build_model(fsic.parse_model(SCRIPTS[i]))
    return _BUILT[i]


def handwritten(rng, m):
    """A model whose `_evaluate` is written with randomly chosen spellings, and its canonical twin."""
    names = ['Y', 'C', 'G', 'alpha']

    def spell(v, canonical):
        if canonical:
            return v
        return rng.choice([v] + [k for k in m if chain_end(m, k) == v])

    def source(canonical):
        s = spell
        return ('def _evaluate(self, t, **kwargs):\n'
                f'    self.{s("C", canonical)}[t] = self.{s("alpha", canonical)}[t] * self.{s("Y", canonical)}[t - 1]\n'
                f'    self.{s("Y", canonical)}[t] = self.{s("C", canonical)}[t] + self.{s("G", canonical)}[t]\n')
    out = []
    for canonical in (False, True):
        ns = {}
        src = source(canonical)
        exec(src, ns)  # harness-generated code
        out.append((ns['_evaluate'], src))
    body = {'ENDOGENOUS': ['Y', 'C'], 'EXOGENOUS': ['G'], 'PARAMETERS': ['alpha'], 'NAMES': names,
            'CHECK': ['Y', 'C'], 'LAGS': 1, 'LEADS': 0}
    Aliased = type('HW', (fsic.BaseModel,), dict(body, _evaluate=out[0][0]))
    Twin = type('HWTwin', (fsic.BaseModel,), dict(body, _evaluate=out[1][0]))
    return Aliased, Twin, out[0][1]


def fingerprint(x):
    if isinstance(x, np.ndarray):
        return ('arr', x.dtype.str, x.shape, x.tobytes() if x.dtype != object else repr(x.tolist()))
    if isinstance(x, np.generic):
        return ('sc', x.dtype.str, x.tobytes())
    if isinstance(x, float):
        return ('f', np.float64(x).tobytes())
    return ('py', type(x).__name__, repr(x))


def full_state(obj, extra=(), ref=None):
    """Everything the twin comparison looks at.  With `ref` (the twin) given, attributes of `obj` that the twin
    does not have and that hold no array are the mixin's own bookkeeping (like `aliases`) and are left out."""
    if ref is not None:
        extra = tuple(extra) + tuple(k for k, v in obj.__dict__.items()
                                     if k not in ref.__dict__ and not isinstance(v, np.ndarray) and k not in obj.index)
    st = {'index': list(obj.index), 'names': list(obj.names), 'span': repr(obj.span),
          'keys': sorted(k for k in obj.__dict__ if k not in extra)}
    for nm in obj.index:
        st['_' + nm] = fingerprint(obj.__dict__['_' + nm])
    for k, v in obj.__dict__.items():
        if k not in extra and not k.startswith('_') and k not in ('span', 'index', 'names'):
            st['attr:' + k] = fingerprint(v) if isinstance(v, (np.ndarray, np.generic, float)) else repr(v)
    return st


def apply_op(obj, op, names):
    """Apply `op` to `obj` spelling the variables as `names`; returns a comparable outcome."""
    k = op['k']
    try:
        with warnings.catch_warnings():
            warnings.simplefilter('ignore')
            if k == 'getattr':
                return ('ok', fingerprint(getattr(obj, names[0])))
            if k == 'setattr':
                setattr(obj, names[0], op['v'])
            elif k == 'inplace':
                getattr(obj, names[0])[op['i']:op['j']] = op['v']
            elif k == 'getitem':
                return ('ok', fingerprint(obj[names[0]]))
            elif k == 'setitem':
                obj[names[0]] = op['v']
            elif k == 'getat':
                return ('ok', fingerprint(obj[names[0], op['ix']]))
            elif k == 'setat':
                obj[names[0], op['ix']] = op['v']
            elif k == 'replace':
                obj.replace_values(**{n: v for n, v in zip(names, op['vs'])})
            elif k == 'solve':
                r = obj.solve(max_iter=op['max_iter'], failures='ignore', errors='ignore')
                return ('ok', repr(r))
            elif k == 'solve_t':
                return ('ok', repr(obj.solve_t(op['t'], max_iter=op['max_iter'], failures='ignore', errors='ignore')))
            elif k == 'solve_period':
                return ('ok', repr(obj.solve_period(op['p'], max_iter=op['max_iter'], failures='ignore', errors='ignore')))
        return ('ok', None)
    except Hang:
        raise
    except Exception as e:  # noqa: BLE001
        return ('exc', exc_name(e))


def spellings_by_target(m, variables):
    by_target = {}
    for sp in list(m) + list(variables):
        by_target.setdefault(chain_end(m, sp), []).append(sp)
    return by_target, [t for t in by_target if t in variables]


def gen_value(rng, n, whole=True, bad=True):
    r = rng.random()
    if whole and r < 0.25:
        return [rng.uniform(-5, 5) for _ in range(n)]
    if whole and r < 0.35:
        return np.array([rng.uniform(-5, 5) for _ in range(n)])
    if whole and r < 0.4 and bad:
        return [1.0] * (n + 1)
    if r < 0.5:
        return rng.randrange(-3, 9)
    if r < 0.55:
        return float('nan')
    return rng.uniform(-10, 10)


def gen_kwargs(rng, m, variables, n, bad=True):
    by_target, targets = spellings_by_target(m, variables)
    kwargs = {}
    for t in rng.sample(targets, min(len(targets), rng.choice([0, 1, 2, 3]))):
        kwargs[rng.choice(by_target[t])] = gen_value(rng, n, True, bad)
    if bad and rng.random() < 0.1:
        kwargs[rng.choice(['undefined_x', 'nosuch'])] = 1.5
    return kwargs


def gen_ops(rng, m, variables, span, count, solve=True):
    """Operations through randomly chosen spellings of the variables (names as `m` resolves them)."""
    n = len(span)
    by_target, targets = spellings_by_target(m, variables)

    def value(whole=True):
        return gen_value(rng, n, whole)

    def pick():
        t = rng.choice(targets)
        return rng.choice(by_target[t])
    kinds = ['getattr', 'setattr', 'inplace', 'getitem', 'setitem', 'getat', 'setat', 'getat', 'setat', 'replace']
    if solve:
        kinds += ['solve', 'solve_t', 'solve_period']
    ops = []
    for _ in range(count):
        k = rng.choice(kinds)
        nm = pick() if rng.random() < 0.93 else rng.choice(['nosuch', 'undefined_x'] + [x for x in m if chain_end(m, x) == 'undefined_x'])
        op = {'k': k, 'names': [nm]}
        if k in ('setattr', 'setitem'):
            op['v'] = value()
        elif k == 'inplace':
            i = rng.randrange(n)
            op.update(i=i, j=rng.randrange(i, n + 1), v=value(False))
        elif k in ('getat', 'setat'):
            if rng.random() < 0.5:
                op['ix'] = rng.choice(span)
            else:
                i = rng.randrange(n)
                j = rng.randrange(i, n)
                op['ix'] = slice(span[i], span[j]) if rng.random() < 0.8 else slice(span[i], None)
            if k == 'setat':
                op['v'] = value(False)
        elif k == 'replace':
            ts = rng.sample(targets, min(len(targets), rng.choice([1, 2, 3])))
            op['names'] = [rng.choice(by_target[t]) for t in ts]
            op['vs'] = [value() for _ in ts]
        elif k == 'solve':
            op['max_iter'] = rng.choice([1, 5, 30])
        elif k == 'solve_t':
            op.update(t=rng.randrange(1, n), max_iter=rng.choice([1, 5, 30]))
        elif k == 'solve_period':
            op.update(p=span[rng.randrange(1, n)], max_iter=rng.choice([1, 5, 30]))
        ops.append(op)
    return ops


def gen_twin_case(rng):
    hw = rng.random() < 0.25
    script = None if hw else rng.randrange(len(SCRIPTS))
    variables = ['Y', 'C', 'G', 'alpha'] if hw else list(built(script).NAMES)
    items = random_alias_map(rng, variables, E_ALIAS, ['undefined_x'], max_n=6)
    m = dict(items)
    n = rng.choice([3, 4, 6])
    strspan = rng.random() < 0.2
    span = [f'p{i}' for i in range(n)] if strspan else list(range(2000, 2000 + n))
    kwargs = gen_kwargs(rng, m, variables, n)
    ops = gen_ops(rng, m, variables, span, rng.randrange(2, 10))
    names_for_pref = list(dict.fromkeys(list(m) + variables))   # X -> X with X a variable: once
    pref = rng.sample(names_for_pref, min(len(names_for_pref), rng.choice([0, 0, 1, 2, 3])))
    return {'part': 'twin', 'hw': hw, 'script': script, 'm': items, 'span': span, 'strict': rng.random() < 0.15,
            'kwargs': kwargs, 'ops': ops, 'pref': pref, 'hwseed': rng.randrange(1 << 30)}


def jsonable_case(case):
    def j(x):
        if isinstance(x, np.ndarray):
            return {'ndarray': x.tolist()}
        if isinstance(x, slice):
            return {'slice': [x.start, x.stop]}
        if isinstance(x, float) and x != x:
            return {'float': 'nan'}
        if isinstance(x, dict):
            return {k: j(v) for k, v in x.items()}
        if isinstance(x, (list, tuple)):
            return [j(v) for v in x]
        return x
    return j(case)


def unjson_case(case):
    def u(x):
        if isinstance(x, dict):
            if set(x) == {'ndarray'}:
                return np.array(x['ndarray'])
            if set(x) == {'slice'}:
                return slice(x['slice'][0], x['slice'][1])
            if set(x) == {'float'}:
                return float('nan')
            return {k: u(v) for k, v in x.items()}
        if isinstance(x, list):
            return [u(v) for v in x]
        return x
    return u(case)


MIXIN_ATTRS = ('aliases', 'preferred_names')


def drive_ops(rep, jc, a, t, m, ops, prefix='', who=''):
    """The aliased object `a` through the spellings of `ops`, its twin `t` through the canonical names (`m` = the
    alias map `a` is expected to live by): every result and the full state after every operation."""
    def canon_names(names):
        return [chain_end(m, x) for x in names]
    for i, op in enumerate(ops):
        ra = apply_op(a, op, op['names'])
        rt = apply_op(t, op, canon_names(op['names']))
        if ra != rt:
            rep.violate(prefix + 'twin-diverges:' + op['k'], f'{who}op {i} {op["k"]} through {op["names"]} gave '
                        f'{short(ra)}; the twin through {canon_names(op["names"])} gave {short(rt)} (ALIASES={m})', jc)
            return 'op'
        sa, st = full_state(a, MIXIN_ATTRS, t), full_state(t)
        if sa != st:
            key = prefix + ('alias-adds-storage' if (sa['index'] != st['index'] or sa['keys'] != st['keys'])
                            else 'twin-diverges:' + op['k'])
            rep.violate(key, f'{who}after op {i} {op["k"]} through {op["names"]} the state differs from the twin: '
                        + diff_state(sa, st), jc)
            return 'state'
    return None


def run_twin_case(ctx, rep, case, budget, tcases=None):
    import random as _random
    m = dict(case['m'])
    jc = jsonable_case(case)
    pref = case['pref']
    if case['hw']:
        Base, TwinBase, src = handwritten(_random.Random(case['hwseed']), m)
        jc['evaluate_source'] = src
    else:
        Base = TwinBase = built(case['script'])
    amb = pref_ambiguous(m, pref)
    A = type('Aliased', (AliasMixin, Base), {'ALIASES': dict(m), 'PREFERRED_NAMES': list(pref)})

    def canon_names(names):
        return [chain_end(m, x) for x in names]
    kw_a = case['kwargs']
    kw_t = {chain_end(m, k): v for k, v in kw_a.items()}
    try:
        with time_limit(2.0):
            try:
                a, aerr = A(case['span'], strict=case['strict'], **kw_a), None
            except Hang:
                raise
            except Exception as e:  # noqa: BLE001
                a, aerr = None, exc_name(e)
    except Hang:
        budget.hangs += 1
        rep.violate(hang_key(m), f'constructor did not return within 2 s for ALIASES={m}', jc)
        return 'hang'
    try:
        t, terr = TwinBase(case['span'], strict=case['strict'], **kw_t), None
    except Exception as e:  # noqa: BLE001
        t, terr = None, exc_name(e)
    if amb:
        if a is not None:
            try:
                a.to_dataframe(use_aliases=True)
                rep.violate('ambiguous-preferences-accepted', f'PREFERRED_NAMES={pref} names one variable twice '
                            f'(ALIASES={m}) but neither the constructor nor the export raises', jc)
            except Exception:  # noqa: BLE001
                pass
        return 'ambiguous-preferences'
    if aerr != terr:
        rep.violate('twin-diverges:constructor', f'aliased constructor with {list(kw_a)}: {aerr}; canonical twin with '
                    f'{list(kw_t)}: {terr}', jc)
        return 'ctor'
    if a is None:
        return 'ctor-error:' + str(aerr)
    extra = ('aliases', 'preferred_names')
    if not {'aliases', 'preferred_names'} <= set(a.__dict__) or any(k in a.index for k in extra):
        pass
    sa, st = full_state(a, extra, t), full_state(t)
    if sa != st:
        rep.violate('twin-diverges:constructor', 'state after construction differs from the canonical twin: ' + diff_state(sa, st), jc)
        return 'ctor'
    r = drive_ops(rep, jc, a, t, m, case['ops'])
    if r is not None:
        return r
    # export
    import pandas as pd
    base, out, xerr = run_export(a)
    tb = t.to_dataframe()
    if list(map(str, base.columns)) != list(map(str, tb.columns)) or any(
            col_bytes(base, i) != col_bytes(tb, i) for i in range(tb.shape[1])):
        rep.violate('twin-diverges:to_dataframe', 'plain export of the aliased model differs from the twin\'s', jc)
        return 'export'
    regime = export_oracle(rep, jc, m, pref, base, out, xerr, True)
    if tcases is not None:
        tcases.append(({'m': case['m'], 'pref': pref, 'cols': [str(c) for c in base.columns]},
                       ','.join(str(c) for c in out.columns) if out is not None else '!' + str(xerr), jc))
    return 'export-' + regime


def short(r):
    s = repr(r)
    return s if len(s) < 160 else s[:157] + '...'


def diff_state(sa, st):
    ks = [k for k in sorted(set(sa) | set(st)) if sa.get(k) != st.get(k)]
    return ', '.join(f'{k}: {short(sa.get(k))} vs {short(st.get(k))}' for k in ks[:3])


def check_twins(ctx, rep, rng, count, budget=None):
    budget = budget or Budget()
    tcases = []
    for _ in range(count):
        if budget.exhausted:
            break
        case = gen_twin_case(rng)
        m = dict(case['m'])
        if not CYCLIC_OK[0] and not is_plain(m):
            continue
        regime = run_twin_case(ctx, rep, case, budget, tcases)
        rep.dist['twin-map:' + kind_of(m)] += 1
        through = any(x in m for op in case['ops'] for x in op['names']) or any(k in m for k in case['kwargs'])
        jc = jsonable_case(case)
        rep.case(('E', json.dumps(jc, sort_keys=True, default=str)), nontrivial=through,
                 sample=sample_once('E', 199, rep.evaluations, {'part': 'E', 'case': jc, 'regime': regime}))
        rep.dist['twin:' + regime] += 1
        rep.dist['twin-model:' + ('handwritten' if case['hw'] else f'script{case["script"]}')] += 1
        for op in case['ops']:
            rep.dist['twin-op:' + op['k']] += 1
        depth = max([sum(1 for _ in _chain(m, k)) for k in m] or [0])
        rep.dist[f'twin-chain{depth}'] += 1
    if not ctx.oracle_only and tcases:
        outs = ctx.drive([line('alias_rename', c) for c, _, _ in tcases])
        for (c, impl, jc), a in zip(tcases, outs):
            if not same_columns(dict(c['m']), c['pref'], c['cols'], a, impl):
                rep.disagree('AliasMixin.to_dataframe(use_aliases=True) columns (real model): model != impl', jc, a, impl)


# ---------------------------------------------------------------------------------------------------------------
# (G) export with options: to_dataframe(use_aliases=True, **opts) against to_dataframe(**opts)

OPT_FLAGS = ('status', 'iterations', 'include_internal')
OPT_DEFAULTS = {'status': True, 'iterations': True, 'include_internal': False}
OPT_COMBOS = [dict(zip(OPT_FLAGS, bits)) for bits in itertools.product([True, False], repeat=3)]
G_PUBLIC = ['Y', 'C', 'G', 'H', 'alpha', 'X']
G_INTERNAL = ['_C', '_h', '_t', '_beta', '_X']
G_ALIAS = ['GDP', 'income', 'cons', 'wealth', 'k1', '_priv', '_k2', 'tax']


def combo_name(o):
    return ''.join(c if o[f] else '-' for c, f in zip('SIN', OPT_FLAGS))


def export_variants():
    """Every combination of the three flags, each spelled out in full and with only the non-default flags."""
    out = []
    for o in OPT_COMBOS:
        out.append((combo_name(o), 'explicit', dict(o), dict(o)))
        out.append((combo_name(o), 'sparse', {k: v for k, v in o.items() if v != OPT_DEFAULTS[k]}, dict(o)))
    return out


def _model_evaluate(self, t, **kwargs):
    exo = self.EXOGENOUS
    for i, nm in enumerate(self.ENDOGENOUS):
        self[nm][t] = 0.25 * self[nm][t - 1] + 0.5 * self[exo[i % len(exo)]][t] + i


def _linker_evaluate_t_before(self, t, *args, **kwargs):
    exo = self.EXOGENOUS
    total = sum(float(sub['Y'][t]) for sub in self.submodels.values())
    for i, nm in enumerate(self.ENDOGENOUS):
        self[nm][t] = total + self[exo[i % len(exo)]][t] + i


_SUBMODEL = []


def submodel_class():
    if not _SUBMODEL:
        _SUBMODEL.append(type('Sub', (fsic.BaseModel,), dict(
            ENDOGENOUS=['Y'], EXOGENOUS=['G'], NAMES=['Y', 'G'], CHECK=['Y'], LAGS=1, LEADS=0,
            _evaluate=_model_evaluate)))
    return _SUBMODEL[0]


def opts_base(kind, endo, exo):
    names = list(endo) + list(exo)
    if kind == 'model':
        return type('OptModel', (fsic.BaseModel,), dict(
            ENDOGENOUS=list(endo), EXOGENOUS=list(exo), NAMES=names, CHECK=list(endo), LAGS=1, LEADS=0,
            _evaluate=_model_evaluate))
    if kind == 'linker':
        return type('OptLinker', (fsic.BaseLinker,), dict(
            ENDOGENOUS=list(endo), EXOGENOUS=list(exo), NAMES=names, CHECK=list(endo),
            evaluate_t_before=_linker_evaluate_t_before))
    return fsic.core.containers.VectorContainer


def opts_instance(cls, case, kwargs):
    """An object of the case's kind with the case's data (the same for the aliased class and the twin)."""
    kind, span = case['kind'], case['span']
    if kind == 'model':
        return cls(span, **kwargs)
    if kind == 'linker':
        Sub = submodel_class()
        return cls({'a': Sub(span, G=1.0), 'b': Sub(span, G=2.5)}, **kwargs)
    obj = cls(span)
    for nm in case['endo'] + case['exo']:
        obj.add_variable(nm, case['values'].get(nm, 0.0))
    return obj


def opts_solve(obj, case):
    how = case['solve']
    with warnings.catch_warnings():
        warnings.simplefilter('ignore')
        if how == 'all':
            obj.solve(max_iter=20, failures='ignore', errors='ignore')
        elif how == 'one':
            obj.solve_t(case['solve_t'], max_iter=20, failures='ignore', errors='ignore')


def gen_opts_case(rng, kind=None):
    kind = kind or rng.choice(['model', 'model', 'model', 'linker', 'linker', 'container'])
    pub = rng.sample(G_PUBLIC, rng.choice([2, 3, 4]))
    internal = rng.sample(G_INTERNAL, rng.choice([1, 1, 2, 3]))
    names = pub + internal
    rng.shuffle(names)
    k = rng.randrange(1, len(names))
    endo, exo = names[:k], names[k:]
    targets = list(names) + (['status', 'iterations'] if rng.random() < 0.15 else [])
    items = random_alias_map(rng, targets, G_ALIAS, ['undefined_x'], max_n=6, self_p=0.15)
    m = dict(items)
    n = rng.choice([3, 4, 5])
    span = list(range(2000, 2000 + n))
    values = {nm: rng.choice([rng.uniform(-5, 5), rng.randrange(-3, 9), 1.0]) for nm in rng.sample(names, rng.randrange(0, len(names) + 1))}
    names_for_pref = list(dict.fromkeys(list(m) + names))
    pref = rng.sample(names_for_pref, min(len(names_for_pref), rng.choice([0, 0, 0, 1, 2, 3])))
    solve = 'none' if kind == 'container' else rng.choice(['none', 'all', 'all', 'one'])
    return {'part': 'export-opts', 'kind': kind, 'endo': endo, 'exo': exo, 'm': items, 'pref': pref, 'span': span,
            'values': values, 'solve': solve, 'solve_t': rng.randrange(1, n)}


def frame_or_error(f, **kw):
    try:
        return f(**kw), None
    except Hang:
        raise
    except Exception as e:  # noqa: BLE001
        return None, exc_name(e)


def frames_equal(x, y):
    return (list(map(str, x.columns)) == list(map(str, y.columns)) and x.shape == y.shape
            and list(x.index) == list(y.index) and frame_cols(x) == frame_cols(y))


def run_opts_case(ctx, rep, case, budget, tcases=None):
    m, pref, kind = dict(case['m']), case['pref'], case['kind']
    Base = opts_base(kind, case['endo'], case['exo'])
    A = type('Aliased', (AliasMixin, Base), {'ALIASES': dict(m), 'PREFERRED_NAMES': list(pref)})
    names = case['endo'] + case['exo']
    # constructor keywords / initial values through random-but-fixed spellings: the first declared spelling
    first = {}
    for k in m:
        first.setdefault(chain_end(m, k), k)
    kw_t = {} if kind == 'container' else dict(case['values'])
    kw_a = {first.get(k, k): v for k, v in kw_t.items()}
    try:
        with time_limit(2.0):
            try:
                a, aerr = opts_instance(A, case, kw_a), None
            except Hang:
                raise
            except Exception as e:  # noqa: BLE001
                a, aerr = None, exc_name(e)
    except Hang:
        budget.hangs += 1
        rep.violate(hang_key(m), f'constructor did not return within 2 s for ALIASES={m}', case)
        return 'hang'
    t = opts_instance(Base, case, kw_t)
    amb = pref_ambiguous(m, pref)
    if amb:
        if a is not None:
            for _, _, kw, _ in export_variants():
                _, err = frame_or_error(a.to_dataframe, use_aliases=True, **kw)
                if err is None:
                    rep.violate('ambiguous-preferences-accepted', f'PREFERRED_NAMES={pref} names one variable twice '
                                f'(ALIASES={m}) but neither the constructor nor the export with {kw} raises', case)
                    break
        return 'ambiguous-preferences'
    if a is None:
        rep.violate('export-opts-constructor', f'{kind} with ALIASES={m}, PREFERRED_NAMES={pref} (unambiguous, acyclic) '
                    f'raised {aerr} in the constructor', case)
        return 'ctor'
    opts_solve(a, case)
    opts_solve(t, case)
    internal = [x for x in names if x.startswith('_')]
    regimes = set()
    twin_frames = {}
    for combo, spelling, kw, eff in export_variants():
        base, berr = frame_or_error(a.to_dataframe, **kw)
        tkey = tuple(sorted((kw if kind == 'container' else eff).items()))
        if tkey not in twin_frames:          # (where options are understood, both spellings mean the same frame)
            twin_frames[tkey] = frame_or_error(t.to_dataframe, **kw)
        tb, terr = twin_frames[tkey]
        out, xerr = frame_or_error(a.to_dataframe, use_aliases=True, **kw)
        rep.dist[f'opts-combo:{kind}:{combo}'] += 1
        rep.dist[f'opts-spelling:{spelling}'] += 1
        where = f'{kind}.to_dataframe(**{kw})'
        if (base is None) != (tb is None) or (base is not None and not frames_equal(base, tb)):
            rep.violate('export-opts-plain-differs-from-twin', f'{where} through the mixin (use_aliases left out) gives '
                        f'{berr or list(map(str, base.columns))}, the same object without the mixin '
                        f'{terr or list(map(str, tb.columns))}', case)
            return 'plain'
        if base is None:
            # the base class does not take these options (plain container): the aliased call must not take them either
            if out is not None:
                rep.violate('export-opts-raise-mismatch', f'{where} raises {berr} but with use_aliases=True the same '
                            'options are accepted (they did not reach the base class)', case)
                return 'raise-mismatch'
            regimes.add('options-rejected')
            continue
        if tcases is not None:
            o = eff if kind != 'container' else {'status': False, 'iterations': False, 'include_internal': True}
            cols = [x for x in names if o['include_internal'] or not x.startswith('_')] + \
                (['status'] if o['status'] else []) + (['iterations'] if o['iterations'] else [])
            tcases.append((dict(m=case['m'], pref=pref, names=names, **o), cols,
                           ','.join(str(c) for c in out.columns) if out is not None else '!' + str(xerr),
                           dict(case, options=kw)))
        regime = export_oracle(rep, case, m, pref, base, out, xerr, True, prefix='export-opts')
        regimes.add(regime)
        if regime not in ('ok', 'outside-guard'):
            return 'export-' + regime
        if kind != 'container':
            labels = [str(c) for c in base.columns]
            hidden = [x for x in internal if x in labels]
            for col, want in (('status', eff['status']), ('iterations', eff['iterations'])):
                if (col in labels) != want and col not in names:
                    rep.violate('export-opts-status-column', f'{where}: column {col!r} present={col in labels}, '
                                f'requested={want}', case)
                    return 'status-column'
            if bool(hidden) != (eff['include_internal'] and bool(internal)):
                rep.violate('export-opts-internal-columns', f'{where}: internal variables {internal}, exported {hidden}', case)
                return 'internal-columns'
            if out.shape[1] != len(names) - (0 if eff['include_internal'] else len(internal)) + eff['status'] + eff['iterations']:
                rep.violate('export-opts-shape', f'{where} with use_aliases=True has {out.shape[1]} columns for names {names}', case)
                return 'shape'
    return 'export-' + '+'.join(sorted(regimes))


def check_export_opts(ctx, rep, rng, count, budget=None):
    budget = budget or Budget()
    tcases = []
    for i in range(count):
        if budget.exhausted:
            break
        case = gen_opts_case(rng)
        m = dict(case['m'])
        if not CYCLIC_OK[0] and not is_plain(m):
            continue
        regime = run_opts_case(ctx, rep, case, budget, tcases)
        internal_aliased = any(str(chain_end(m, k)).startswith('_') for k in strip_self(m))
        rep.case(('G', json.dumps(case, sort_keys=True)), nontrivial=bool(strip_self(m)),
                 sample=sample_once('G', 59, rep.evaluations, {'part': 'G', 'case': case, 'regime': regime}))
        rep.dist['opts-kind:' + case['kind']] += 1
        rep.dist['opts-solved:' + case['solve']] += 1
        rep.dist['opts:' + regime] += 1
        rep.dist['opts-internal-variable-aliased:' + str(internal_aliased)] += 1
        rep.dist['opts-map:' + kind_of(m)] += 1
    if not ctx.oracle_only and tcases:
        outs = ctx.drive([line('alias_rename_opts', c) for c, _, _, _ in tcases])
        for (c, cols, impl, case), a in zip(tcases, outs):
            if not same_columns(dict(c['m']), c['pref'], cols, a, impl):
                rep.disagree('AliasMixin.to_dataframe(use_aliases=True, **options) columns: model != impl', case, a, impl)


# ---------------------------------------------------------------------------------------------------------------
# (H) class hierarchies: every instance lives by its own class's ALIASES as they are when it is created

class HierSim:
    """Python's class-attribute rules, restated: every class has its own entries; `Cls.attr` finds the nearest own
    entry walking up the bases; below that the mixin's `{}` / `[]`.  Independent of the Lean model."""
    EMPTY = {'ALIASES': dict, 'PREFERRED_NAMES': list}

    def __init__(self):
        self.cls = []

    def define(self, parent, aliases, pref):
        self.cls.append({'parent': parent, 'ALIASES': None if aliases is None else dict(map(tuple, aliases)),
                         'PREFERRED_NAMES': None if pref is None else list(pref)})
        return len(self.cls) - 1

    def owner(self, c, attr):
        while c is not None:
            if self.cls[c][attr] is not None:
                return c
            c = self.cls[c]['parent']
        return None

    def lookup(self, c, attr):
        o = self.owner(c, attr)
        return self.EMPTY[attr]() if o is None else self.cls[o][attr]

    def apply(self, ev):
        """Class-level effect of an event; False = the event cannot be carried out (left out of the run)."""
        e = ev['e']
        if e == 'class':
            self.define(ev['parent'], ev['aliases'], ev['pref'])
        elif e == 'set':
            self.cls[ev['cls']]['ALIASES'] = dict(map(tuple, ev['aliases']))
        elif e == 'setpref':
            self.cls[ev['cls']]['PREFERRED_NAMES'] = list(ev['pref'])
        elif e == 'put':
            o = self.owner(ev['cls'], 'ALIASES')
            if o is None:
                return False          # would write into AliasMixin.ALIASES itself
            self.cls[o]['ALIASES'][ev['k']] = ev['v']
        elif e == 'del':
            if self.cls[ev['cls']]['ALIASES'] is None:
                return False
            self.cls[ev['cls']]['ALIASES'] = None
        return True


HIER_SCENARIOS = {
    # (parent, declares ALIASES, declares PREFERRED_NAMES: True / False / None = at random)
    'child-redeclares': [(None, True, None), (0, True, None)],
    'child-inherits': [(None, True, None), (0, False, None)],
    'grandchild-inherits-nearest': [(None, True, None), (0, True, None), (1, False, False)],
    'grandchild-skips-to-root': [(None, True, None), (0, False, False), (1, False, None)],
    'siblings': [(None, None, None), (0, True, None), (0, True, None)],
    'preferences-redeclared-only': [(None, True, True), (0, False, True)],
    'aliases-redeclared-preferences-inherited': [(None, True, True), (0, True, False)],
    'root-undeclared': [(None, False, False), (0, True, None), (1, False, False)],
}


def gen_hier_case(rng):
    script = rng.randrange(len(SCRIPTS))
    variables = list(built(script).NAMES)
    pool = rng.sample(E_ALIAS, 5)        # few names: the classes' maps overlap and disagree on them
    scenario = rng.choice(list(HIER_SCENARIOS) + ['random-tree'] * 2)
    if scenario == 'random-tree':
        shape = [(None, None, None)]
        for i in range(1, rng.choice([2, 3, 4, 5])):
            shape.append((rng.randrange(i), None, None))
    else:
        shape = HIER_SCENARIOS[scenario]
    order = rng.choice(['parent-first', 'child-first', 'interleaved'])
    n = rng.choice([3, 4])
    span = list(range(2000, 2000 + n))
    sim = HierSim()
    events, defs = [], []

    def a_map():
        return random_alias_map(rng, variables, pool, ['undefined_x'], max_n=4, self_p=0.12)

    def a_pref(c_aliases):
        names = list(dict.fromkeys([k for k, _ in c_aliases] + variables))
        return rng.sample(names, min(len(names), rng.choice([1, 1, 2])))
    pre = HierSim()                       # the classes as declared, to spell preferences by the visible map
    for parent, da, dp in shape:
        da = rng.random() < 0.65 if da is None else da
        dp = rng.random() < 0.3 if dp is None else dp
        aliases = a_map() if da else None
        inherited = aliases if aliases is not None else (list(pre.lookup(parent, 'ALIASES').items()) if parent is not None else [])
        defs.append({'e': 'class', 'parent': parent, 'aliases': aliases, 'pref': a_pref(inherited) if dp else None})
        pre.apply(defs[-1])
    ncls = len(defs)
    late = rng.random() < 0.3             # subclasses are defined only after the root class has an instance
    live = []                             # instance number -> (class, map at creation) as the generator sees them
    ninst = [0]

    def emit(ev):
        if sim.apply(ev):
            events.append(ev)
            return True
        return False

    def new(c):
        m = dict(sim.lookup(c, 'ALIASES'))
        if not is_acyclic(m):
            return
        ev = {'e': 'new', 'cls': c, 'kwargs': gen_kwargs(rng, m, variables, n, bad=False),
              'ops': gen_ops(rng, m, variables, span, rng.randrange(0, 4), solve=rng.random() < 0.3)}
        events.append(ev)
        live.append((c, m, pref_ambiguous(m, list(sim.lookup(c, 'PREFERRED_NAMES')))))
        ninst[0] += 1

    def round_of_instances(defined):
        cs = list(defined)
        if order == 'child-first':
            cs.reverse()
        elif order == 'interleaved':
            cs = cs + rng.sample(cs, rng.randrange(0, len(cs) + 1))
            rng.shuffle(cs)
        for c in cs:
            new(c)
    if late:
        emit(defs[0])
        new(0)
        for d in defs[1:]:
            emit(d)
        round_of_instances(range(ncls))
    else:
        for d in defs:
            emit(d)
        round_of_instances(range(ncls))
    # class-level changes once instances exist, then new instances
    changes = []
    for _ in range(rng.choice([0, 1, 1, 2])):
        c = rng.randrange(ncls)
        kind = rng.choice(['set', 'set', 'put', 'put', 'setpref', 'del'])
        if kind == 'set':
            ev = {'e': 'set', 'cls': c, 'aliases': a_map()}
        elif kind == 'put':
            cur = dict(sim.lookup(c, 'ALIASES'))
            k = rng.choice(pool)
            v = rng.choice(variables + [x for x in cur if x != k])
            cur[k] = v
            if not is_acyclic(cur):
                continue
            ev = {'e': 'put', 'cls': c, 'k': k, 'v': v}
        elif kind == 'setpref':
            ev = {'e': 'setpref', 'cls': c, 'pref': a_pref(list(sim.lookup(c, 'ALIASES').items()))}
        else:
            ev = {'e': 'del', 'cls': c}
        if emit(ev):
            changes.append(kind)
            if rng.random() < 0.5:
                usable = [i for i, (_, _, amb) in enumerate(live) if not amb]
                if usable:
                    i = rng.choice(usable)
                    events.append({'e': 'ops', 'inst': i,
                                   'ops': gen_ops(rng, live[i][1], variables, span, rng.randrange(1, 4), solve=False)})
            if rng.random() < 0.3 and live:
                events.append({'e': 'copy', 'inst': rng.randrange(len(live))})
            round_of_instances(range(ncls))
    combo = rng.choice(OPT_COMBOS)
    return {'part': 'hier', 'script': script, 'span': span, 'pool': pool, 'scenario': scenario, 'order': order,
            'late_classes': late, 'changes': changes, 'events': events, 'export_options': dict(combo)}


def hier_events_for_model(events):
    return [{k: v for k, v in ev.items() if k in ('e', 'parent', 'aliases', 'pref', 'cls', 'k', 'v')}
            for ev in events if ev['e'] not in ('ops', 'copy')]


def describe_class(sim, c):
    d = sim.cls[c]
    return f'class {c} (parent {d["parent"]}, own ALIASES {d["ALIASES"]}, own PREFERRED_NAMES {d["PREFERRED_NAMES"]})'


def probe_names(a, t, m, universe):
    """Reading through every name of the universe: a name that `m` resolves to a variable must hand out that
    variable's own series (the same object as reading the variable), every other name must do what it does on the
    twin.  Returns None or a description."""
    for nm in universe:
        want = chain_end(m, nm)
        try:
            got = getattr(a, nm)
        except Exception as e:  # noqa: BLE001
            got = e
        if want in a.index:
            try:
                ref = getattr(a, want)
            except Exception as e:  # noqa: BLE001
                ref = e
            if got is not ref:
                hit = [v for v in a.index if isinstance(got, np.ndarray) and got is a.__dict__.get('_' + v)]
                return nm, f'{nm!r} should name the variable {want!r} but reads ' + (
                    f'the variable {hit[0]!r}' if hit else f'{type(got).__name__}')
        else:
            rt = apply_op(t, {'k': 'getattr'}, [want])
            ra = ('exc', exc_name(got)) if isinstance(got, Exception) else ('ok', fingerprint(got))
            if ra != rt:
                hit = [v for v in a.index if isinstance(got, np.ndarray) and got is a.__dict__.get('_' + v)]
                return nm, f'{nm!r} is no alias in the map this instance was created with (it resolves to {want!r}) but reading it gives ' + (
                    f'the variable {hit[0]!r}' if hit else short(ra)) + f'; the twin: {short(rt)}'
    return None


def run_hier_case(ctx, rep, case, budget, tcases=None):
    jc = jsonable_case(case)
    Base = built(case['script'])
    variables = list(Base.NAMES)
    universe = list(case['pool']) + variables + ['undefined_x']
    span = case['span']
    sim = HierSim()
    classes, twins, objs = [], [], []      # objs: per `new` event (a | None, t, m, pref, cls)
    impl = []

    def class_attrs_intact(after):
        for c, K in enumerate(classes):
            for attr in ('ALIASES', 'PREFERRED_NAMES'):
                own = K.__dict__.get(attr)
                want = sim.cls[c][attr]
                if (own is None) != (want is None) or (own is not None and (
                        dict(own) != want if attr == 'ALIASES' else list(own) != want)):
                    rep.violate('hier-class-attribute-changed', f'after {after} {describe_class(sim, c)} has '
                                f'{attr}={own!r} in its own __dict__', jc)
                    return False
        return True

    def check_probe(i, when, key):
        a, t, m, pref, c = objs[i]
        bad = probe_names(a, t, m, universe)
        if bad is not None:
            rep.violate(key, f'instance {i} of {describe_class(sim, c)}, created when its class\'s ALIASES were {m}, '
                        f'{when}: {bad[1]}', jc)
            return False
        return True
    for n_ev, ev in enumerate(case['events']):
        e = ev['e']
        if e == 'class':
            body = {}
            if ev['aliases'] is not None:
                body['ALIASES'] = dict(map(tuple, ev['aliases']))
            if ev['pref'] is not None:
                body['PREFERRED_NAMES'] = list(ev['pref'])
            c = len(classes)
            classes.append(type(f'K{c}', (AliasMixin, Base) if ev['parent'] is None else (classes[ev['parent']],), body))
            twins.append(type(f'K{c}Twin', (Base,) if ev['parent'] is None else (twins[ev['parent']],), {}))
            sim.apply(ev)
        elif e == 'set':
            classes[ev['cls']].ALIASES = dict(map(tuple, ev['aliases']))
            sim.apply(ev)
        elif e == 'setpref':
            classes[ev['cls']].PREFERRED_NAMES = list(ev['pref'])
            sim.apply(ev)
        elif e == 'put':
            if sim.owner(ev['cls'], 'ALIASES') is None:
                continue
            classes[ev['cls']].ALIASES[ev['k']] = ev['v']
            sim.apply(ev)
        elif e == 'del':
            if sim.cls[ev['cls']]['ALIASES'] is None:
                continue
            del classes[ev['cls']].ALIASES
            sim.apply(ev)
        elif e == 'new':
            c = ev['cls']
            m = dict(sim.lookup(c, 'ALIASES'))
            pref = list(sim.lookup(c, 'PREFERRED_NAMES'))
            kw_a = ev['kwargs']
            kw_t = {chain_end(m, k): v for k, v in kw_a.items()}
            who = f'instance {len(objs)} of {describe_class(sim, c)}: '
            try:
                with time_limit(2.0):
                    try:
                        a, aerr = classes[c](span, **kw_a), None
                    except Hang:
                        raise
                    except Exception as ex:  # noqa: BLE001
                        a, aerr = None, exc_name(ex)
            except Hang:
                budget.hangs += 1
                rep.violate(hang_key(m), f'constructor did not return within 2 s for ALIASES={m}', jc)
                return 'hang'
            t = twins[c](span, **kw_t)
            objs.append((a, t, m, pref, c))
            if not class_attrs_intact(f'creating an instance of class {c} (event {n_ev})'):
                return 'class-attribute'
            if not is_acyclic(m):
                if a is not None:
                    rep.violate('cyclic-aliases-accepted', f'{who}constructor accepted the cyclic map ALIASES={m}', jc)
                    return 'cycle'
                impl.append('ValueError')
                continue
            if pref_ambiguous(m, pref):
                if a is not None:
                    _, err = frame_or_error(a.to_dataframe, use_aliases=True)
                    if err is None:
                        rep.violate('ambiguous-preferences-accepted', f'{who}PREFERRED_NAMES={pref} names one variable '
                                    f'twice (ALIASES={m}) but neither the constructor nor the export raises', jc)
                        return 'ambiguous'
                impl.append('ValueError' if a is None else None)
                objs[-1] = (None, t, m, pref, c)
                continue
            if a is None:
                # the keywords are spelled by the class's own map at this moment; the twin took the canonical ones
                rep.violate('hier-instance-map', f'{who}constructor raised {aerr} for keywords {list(kw_a)} spelled by '
                            f'its class\'s ALIASES={m} (canonical: {list(kw_t)})', jc)
                return 'ctor'
            sa, st = full_state(a, MIXIN_ATTRS, t), full_state(t)
            if sa != st:
                rep.violate('hier-instance-map', f'{who}state after construction with keywords {list(kw_a)} (its '
                            f'class\'s ALIASES={m}) differs from the twin built with {list(kw_t)}: ' + diff_state(sa, st), jc)
                return 'ctor-state'
            if not check_probe(len(objs) - 1, 'right after construction', 'hier-instance-map'):
                return 'instance-map'
            r = drive_ops(rep, jc, a, t, m, ev['ops'], prefix='hier-', who=who)
            if r is not None:
                return r
            impl.append(None)      # filled in at the end
        elif e == 'ops':
            if ev['inst'] >= len(objs) or objs[ev['inst']][0] is None:
                continue
            a, t, m, pref, c = objs[ev['inst']]
            if not check_probe(ev['inst'], f'after later class-level events (event {n_ev})', 'hier-existing-instance-changed'):
                return 'existing-instance'
            r = drive_ops(rep, jc, a, t, m, ev['ops'], prefix='hier-', who=f'(existing) instance {ev["inst"]} of class {c}: ')
            if r is not None:
                return r
        elif e == 'copy':
            # a copy of an existing instance, made after the class changed, is the instance over again
            if ev['inst'] >= len(objs) or objs[ev['inst']][0] is None:
                continue
            a, t, m, pref, c = objs[ev['inst']]
            try:
                a2, cerr = a.copy(), None
            except Exception as ex:  # noqa: BLE001
                a2, cerr = None, exc_name(ex)
            t2 = t.copy()
            bad = None
            cur_m, cur_pref = dict(sim.lookup(c, 'ALIASES')), list(sim.lookup(c, 'PREFERRED_NAMES'))
            if a2 is None and (not is_acyclic(cur_m) or pref_ambiguous(cur_m, cur_pref)):
                # copy() goes through the constructor, which validates the class's *current* declaration: where that
                # is one the constructor rejects (no new instance can exist either) the property claims nothing
                rep.dist['hier-copy:class-declaration-now-rejected'] += 1
                continue
            rep.dist['hier-copy:compared'] += 1
            if a2 is None:
                bad = f'copy() raised {cerr}'
            elif full_state(a2, MIXIN_ATTRS, t2) != full_state(t2):
                bad = 'state differs from the twin\'s copy: ' + diff_state(full_state(a2, MIXIN_ATTRS, t2), full_state(t2))
            else:
                pr = probe_names(a2, t2, m, universe)
                bad = pr[1] if pr is not None else None
            if bad is not None:
                rep.violate('hier-copy-map', f'copy of instance {ev["inst"]} of {describe_class(sim, c)} (created when its '
                            f'class\'s ALIASES were {m}), taken after later class-level events (event {n_ev}): {bad}', jc)
                return 'copy'
    # at the end: every instance still lives by the map of its creation; export
    kw = case['export_options']
    regimes = set()
    cols = None
    last_of_class = {}
    for i, (a, t, m, pref, c) in enumerate(objs):
        if a is not None:
            last_of_class[c] = i
    exported = set(sorted(last_of_class.values())[-3:]) | ({min(last_of_class.values())} if last_of_class else set())
    for i, (a, t, m, pref, c) in enumerate(objs):
        if a is None:
            continue
        if not check_probe(i, 'at the end of the history', 'hier-existing-instance-changed'):
            return 'existing-instance'
        if i not in exported:
            try:
                impl[i] = '|'.join([str(c), pairs(a.aliases.items()), ','.join(a.preferred_names),
                                    pairs((nm, a._resolve_alias(nm)) for nm in universe), '*'])
            except Exception as ex:  # noqa: BLE001
                impl[i] = 'raised:' + exc_name(ex)
            continue
        base, berr = frame_or_error(a.to_dataframe, **kw)
        tb, terr = frame_or_error(t.to_dataframe, **kw)
        out, xerr = frame_or_error(a.to_dataframe, use_aliases=True, **kw)
        if base is None or tb is None or not frames_equal(base, tb):
            rep.violate('hier-twin-diverges:to_dataframe', f'instance {i} of class {c}: plain export with {kw} differs '
                        f'from the twin\'s ({berr}, {terr})', jc)
            return 'export'
        regime = export_oracle(rep, jc, m, pref, base, out, xerr, True, prefix='hier-export')
        regimes.add(regime)
        if regime not in ('ok', 'outside-guard'):
            return 'export-' + regime
        cols = [str(x) for x in base.columns]
        try:
            impl[i] = '|'.join([str(c), pairs(a.aliases.items()), ','.join(a.preferred_names),
                                pairs((nm, a._resolve_alias(nm)) for nm in universe),
                                ','.join(str(x) for x in out.columns) if out is not None else '!' + str(xerr)])
        except Exception as ex:  # noqa: BLE001
            impl[i] = 'raised:' + exc_name(ex)
    if tcases is not None and cols is not None:
        tcases.append(({'events': hier_events_for_model(jc['events']), 'names': universe, 'cols': cols}, impl,
                       [(m, pref) for _, _, m, pref, _ in objs], jc))
    return 'ok:' + '+'.join(sorted(regimes)) if regimes else 'no-instance'


def same_instance(model, impl, m, pref, cols):
    if impl is None:                       # ambiguous preferences accepted by the constructor: export-time matter
        return True
    if model == 'ValueError' or impl == 'ValueError':
        return model == impl
    a, b = model.split('|'), impl.split('|')
    if len(a) != 5 or len(b) != 5:
        return False
    return (a[0] == b[0] and sorted(a[1].split(',')) == sorted(b[1].split(',')) and a[2] == b[2] and a[3] == b[3]
            and (b[4] == '*' or same_columns(m, pref, cols, a[4], b[4])))


def check_hierarchies(ctx, rep, rng, count, budget=None):
    budget = budget or Budget()
    tcases = []
    for _ in range(count):
        if budget.exhausted:
            break
        case = gen_hier_case(rng)
        maps = [dict(map(tuple, ev['aliases'])) for ev in case['events'] if ev.get('aliases')]
        if not CYCLIC_OK[0] and not all(is_plain(m) for m in maps):
            continue
        regime = run_hier_case(ctx, rep, case, budget, tcases)
        jc = jsonable_case(case)
        news = [ev for ev in case['events'] if ev['e'] == 'new']
        rep.case(('H', json.dumps(jc, sort_keys=True, default=str)), nontrivial=len(maps) >= 1 and len(news) >= 2,
                 sample=sample_once('H', 97, rep.evaluations, {'part': 'H', 'case': jc, 'regime': regime}))
        rep.dist['hier:' + regime.split(':')[0]] += 1
        rep.dist['hier-scenario:' + case['scenario']] += 1
        rep.dist['hier-order:' + case['order']] += 1
        rep.dist[f'hier-scenario-order:{case["scenario"]}:{case["order"]}'] += 1
        rep.dist['hier-late-subclass:' + str(case['late_classes'])] += 1
        rep.dist['hier-instances:' + str(min(len(news), 8))] += 1
        for ch in case['changes'] or ['none']:
            rep.dist['hier-change-after-instance:' + ch] += 1
        for ev in case['events']:
            rep.dist['hier-event:' + ev['e']] += 1
    if not ctx.oracle_only and tcases:
        outs = ctx.drive([line('alias_hier', c) for c, _, _, _ in tcases])
        for (c, impl, mp, jc), a in zip(tcases, outs):
            got = a.split(' ; ') if a else []
            if len(got) != len(impl) or not all(same_instance(x, y, m, pref, c['cols'])
                                                for x, y, (m, pref) in zip(got, impl, mp)):
                rep.disagree('class hierarchy: self.aliases / preferred_names / resolution / export labels of every '
                             'instance: model != impl', jc, a, ' ; '.join(str(x) for x in impl))


# ---------------------------------------------------------------------------------------------------------------
# (I) failing operations: plain twin + absolute snapshots (harness/alias_failops.py)

import alias_failops as fo  # noqa: E402
import alias_routes as ar  # noqa: E402
import alias_labels as al  # noqa: E402


def check_failops(ctx, rep, rng, count):
    tcases = []
    for _ in range(count):
        case = fo.gen_fail_case(rng)
        m = dict(map(tuple, case['m']))
        if not CYCLIC_OK[0] and not is_plain(m):
            continue
        regime = fo.run_fail_case(ctx, rep, case, tcases)
        jc = jsonable_case(case)
        through = any(x in strip_self(m) for op in case['ops'] for x in op['names'])
        failing = regime.startswith('ok:failed') and regime != 'ok:failed0'
        rep.case(('I', json.dumps(jc, sort_keys=True, default=str)), nontrivial=through and failing,
                 sample=sample_once('I', 97, rep.evaluations, {'part': 'I', 'case': jc, 'regime': regime}))
        rep.dist['failops:' + regime] += 1
        rep.dist['failops-kind:' + case['kind']] += 1
        if case['kind'] == 'linker':
            rep.dist['failops-submodel-extra-names:' + (','.join(case['sub_extra']) or 'none')] += 1
        rep.dist['failops-name-pool:' + case['pool']] += 1
        for ak in case['alias_kinds'] or ['plain']:
            rep.dist['failops-alias-names:' + ak] += 1
        rep.dist['failops-strict:' + str(case['strict'])] += 1
        rep.dist['failops-model-compared:' + str(bool(case['teligible']))] += 1
    if not ctx.oracle_only and tcases:
        outs = ctx.drive([line('alias_xhistory', c) for c, _, _ in tcases])
        for (c, impl, jc), a in zip(tcases, outs):
            ok, why = fo.t_compare(a, impl)
            if not ok:
                rep.disagree('instance with failing operations (names, index, series, attributes, aliases, '
                             'preferred_names after every operation; results): model != impl', jc, a,
                             why + ' :: ' + ' ## '.join(r + ' @ ' + d for r, d in impl))


def _run_parts(ctx, rep):
    """Workers 0-3: the parts (A)-(D), (E), (G)+(J)+(K), (H); the other workers: part (I).  With fewer than six
    workers: everything in a row in worker 0."""
    quick = ctx.tier == 'quick'
    n_i = (5000 if quick else 90000) * ctx.scale
    try:
        if ctx.parts < len(LEGACY) + 2:
            if ctx.part == 0:
                for f in LEGACY:
                    f(ctx, rep)
                check_failops(ctx, rep, ctx.sub_rng('failops'), n_i)
        elif ctx.part < len(LEGACY):
            LEGACY[ctx.part](ctx, rep)
        else:
            share = n_i // (ctx.parts - len(LEGACY)) + 1
            check_failops(ctx, rep, ctx.sub_rng('failops'), share)
    except Exception as e:  # noqa: BLE001
        # the harness itself fell over (state it does not expect): decided in run() - next to violations found
        # elsewhere in the same run it is a consequence of the code under test, on its own it is an infrastructure error
        import traceback
        rep.notes.insert(0, 'CRASH worker %d: ' % ctx.part + ''.join(traceback.format_exception(type(e), e, e.__traceback__))[-1500:])


# ---------------------------------------------------------------------------------------------------------------

def legacy_ad(ctx, rep):
    """(A)-(D): alias stage, preferences, stub export, histories vs the model."""
    quick = ctx.tier == 'quick'
    budget = Budget()
    # probe: the simplest acyclic maps must construct at all (guards every in-process part below)
    check_shorten(ctx, rep, [[], [['GDP', 'Y']], [['a', 'b'], ['b', 'Y']]], ['GDP', 'a', 'b', 'Y'], 'probe', budget)
    if not budget.hangs:
        maps = enum_maps_A(ctx.tier)
        check_shorten(ctx, rep, maps, A_NAMES, 'A', budget)
        kinds = [kind_of(dict(m)) for m in maps]
        rep.notes.append(f'(A) {len(maps)} alias maps enumerated: ' + ', '.join(
            f'{kinds.count(k)} {k}' for k in ('plain', 'self', 'cycle')))
    if not budget.exhausted:
        mapsB, prefs = enum_maps_B(), enum_prefs(ctx.tier)
        check_prefcheck(ctx, rep, mapsB, prefs, budget)
        rep.notes.append(f'(B) {len(mapsB)} maps x {len(prefs)} PREFERRED_NAMES lists')
    if not budget.exhausted:
        check_export_stub(ctx, rep, ctx.sub_rng('export'), (1500 if quick else 30000) * ctx.scale, budget)
    if not budget.exhausted:
        check_histories(ctx, rep, ctx.sub_rng('history'), (2500 if quick else 60000) * ctx.scale, budget)


def legacy_e(ctx, rep):
    check_twins(ctx, rep, ctx.sub_rng('twin'), (700 if ctx.tier == 'quick' else 15000) * ctx.scale, Budget())


def legacy_g(ctx, rep):
    check_export_opts(ctx, rep, ctx.sub_rng('export-opts'), (150 if ctx.tier == 'quick' else 2000) * ctx.scale, Budget())


def legacy_h(ctx, rep):
    check_hierarchies(ctx, rep, ctx.sub_rng('hier'), (350 if ctx.tier == 'quick' else 6000) * ctx.scale, Budget())


def part_j(ctx, rep):
    ar.check_ctor_routes(ctx, rep, ctx.sub_rng('ctor-routes'), (400 if ctx.tier == 'quick' else 9000) * ctx.scale)


def part_k(ctx, rep):
    ar.check_name_forms(ctx, rep, ctx.sub_rng('name-forms'), (300 if ctx.tier == 'quick' else 7000) * ctx.scale)


def part_jk(ctx, rep):
    part_j(ctx, rep)
    part_k(ctx, rep)


def legacy_g_jk(ctx, rep):
    """(G), (J), (K) share a worker (together they are shorter than one share of (I))."""
    legacy_g(ctx, rep)
    part_jk(ctx, rep)


def part_l(ctx, rep):
    al.check_label_spans(ctx, rep, ctx.sub_rng('label-spans'), (1200 if ctx.tier == 'quick' else 20000) * ctx.scale)


LEGACY = [legacy_ad, legacy_e, legacy_g_jk, legacy_h, part_l]


def run(ctx, rep):
    _SAMPLED.clear()
    # guard first: a constructor that never returns for a cyclic/self map must not hang the check
    CYCLIC_OK[0] = hang_guard(ctx, rep)
    if not CYCLIC_OK[0]:
        rep.notes.append('hang guard tripped: cyclic maps and self-maps are not constructed in-process in this run')
    fo.usable_member_names()
    framework.parallel(_run_parts, ctx, rep, parts=min(ctx.workers, 16))
    crashes = [x for x in rep.notes if x.startswith('CRASH ')]
    open_keys = {k['key'] for k in framework.load_known() if k['property'] == ID and k.get('status') == 'open'}
    if crashes and not any(v['key'] not in open_keys for v in rep.violations):
        # (violations that only reproduce open known findings do not explain a crash)
        raise RuntimeError(crashes[0])
    rep.notes.append(f'(G) {sum(v for k, v in rep.dist.items() if k.startswith("opts-kind:"))} objects (models, '
                     f'linkers, containers) x {len(OPT_COMBOS)} flag combinations x 2 spellings')
    rep.notes.append(f'(H) {rep.dist["hier-event:class"]} classes, {rep.dist["hier-event:new"]} constructor calls, '
                     f'{sum(v for k, v in rep.dist.items() if k.startswith("hier-change-after-instance:") and not k.endswith(":none"))} '
                     'class-level changes after the first instance')
    rep.notes.append(f'(L) {sum(v for k, v in rep.dist.items() if k.startswith("label-span-kind:"))} objects on spans of names, '
                     f'{sum(v for k, v in rep.dist.items() if k.startswith("label:alias-named:"))} key labels spelt like an alias, '
                     f'{sum(v for k, v in rep.dist.items() if k.startswith("label-not-in-span:alias-named:"))} of them not in the '
                     f'span, {rep.dist["label-absolute-checked"]} absolute cell checks, '
                     f'{rep.dist["label-span-model-compared"]} histories also run through the model')
    rep.notes.append(f'(I) {sum(v for k, v in rep.dist.items() if k.startswith("failops-kind:"))} histories with failing '
                     f'operations, {sum(v for k, v in rep.dist.items() if k.startswith("failops-op:") and not k.endswith(":ok"))} '
                     f'failed operations, {rep.dist["failops-model-compared:True"]} histories also run through the model; '
                     f'member-like variable names HEAD constructs: {fo.usable_member_names()}')
    rep.exhaustive = False


def replay(ctx, rep, case):
    part = case.get('part')
    budget = Budget()
    items = case.get('m')
    watch = [items] if items is not None else []
    if part == 'hier':
        watch = [ev['aliases'] for ev in case['events'] if ev.get('aliases')]
    for its in watch:
        if is_plain(dict(map(tuple, its))):
            continue
        # a cyclic/self map goes through the watchdog before it is touched in-process
        res = watchdog_collect(watchdog_start(its), time.time() + WATCHDOG_BACKSTOP)
        print('  watchdog:', res)
        if not judge_watchdog(rep, case, dict(map(tuple, its)), res) or part == 'cyclic':
            return
    if part == 'shorten':
        check_shorten(ctx, rep, [case['m']], case['names'], 'replay', budget)
    elif part == 'cyclic':
        check_shorten(ctx, rep, [case['m']], sorted(set(sum(case['m'], []))), 'replay', budget)
    elif part == 'prefcheck':
        check_prefcheck(ctx, rep, [case['m']], [case['pref']], budget)
    elif part == 'export-stub':
        stub_frame()
        inst, err = budget.construct(rep, case, stub_class(case['m'], case['pref']))
        if inst is None:
            rep.violate('unambiguous-preferences-rejected', f'constructor raised {err}', case)
            return
        if case.get('late_pref') is not None:
            inst.__dict__['preferred_names'] = list(case['late_pref'])
        base, out, xerr = run_export(inst)
        print('  columns:', list(out.columns) if out is not None else xerr)
        export_oracle(rep, case, dict(case['m']), case['late_pref'] if case.get('late_pref') is not None else case['pref'],
                      base, out, xerr, case.get('late_pref') is None)
    elif part == 'history':
        print('  impl :', run_history_impl(case, budget, rep))
        try:
            print('  model:', ctx.drive([line('alias_history', {k: v for k, v in case.items() if k != 'part'})])[0])
        except Exception as e:  # noqa: BLE001
            print('  model: <driver unavailable>', e)
    elif part == 'twin':
        c = unjson_case({k: v for k, v in case.items() if k != 'evaluate_source'})
        print('  regime:', run_twin_case(ctx, rep, c, budget))
    elif part == 'export-opts':
        c = {k: v for k, v in case.items() if k != 'options'}
        tc = []
        print('  regime:', run_opts_case(ctx, rep, c, budget, tc))
        try:
            outs = ctx.drive([line('alias_rename_opts', x) for x, _, _, _ in tc])
            for (x, cols, impl, _), a in zip(tc, outs):
                print('  options', {k: x[k] for k in OPT_FLAGS}, 'model:', a, '| impl:', impl)
        except Exception as e:  # noqa: BLE001
            print('  model: <driver unavailable>', e)
    elif part == 'hier':
        c = unjson_case(case)
        tc = []
        print('  regime:', run_hier_case(ctx, rep, c, budget, tc))
        try:
            for x, impl, _, _ in tc:
                print('  model:', ctx.drive([line('alias_hier', x)])[0])
                print('  impl :', ' ; '.join(str(y) for y in impl))
        except Exception as e:  # noqa: BLE001
            print('  model: <driver unavailable>', e)
    elif part == 'ctor-route':
        tc = []
        print('  regime:', ar.run_route_case(ctx, rep, case, tc))
        try:
            for x, impl, _ in tc:
                print('  model:', ctx.drive([line('alias_ctor_route', x)])[0], '| impl:', impl)
        except Exception as e:  # noqa: BLE001
            print('  model: <driver unavailable>', e)
    elif part == 'ctor-two-spellings':
        print('  outcome:', ar.run_two_spellings_case(ctx, rep, case, []))
    elif part == 'name-form':
        tc = []
        print('  regime:', ar.run_form_case(ctx, rep, {k: v for k, v in case.items() if k != 'resolve_form'}, tc))
        try:
            for x, impl, jc in tc:
                print(f'  resolution through {jc["resolve_form"]}: model:', ctx.drive([line('alias_shorten', x)])[0].split('|')[-1],
                      '| impl:', impl)
        except Exception as e:  # noqa: BLE001
            print('  model: <driver unavailable>', e)
    elif part == 'label-span':
        tc = []
        print('  regime:', al.run_label_case(ctx, rep, case, tc))
        try:
            for x, impl, _ in tc:
                print('  model:', ctx.drive([line('alias_label_history', x)])[0], '\n  impl :', impl)
        except Exception as e:  # noqa: BLE001
            print('  model: <driver unavailable>', e)
    elif part == 'failops':
        c = case            # JSON-native
        tc = []
        print('  regime:', fo.run_fail_case(ctx, rep, c, tc))
        try:
            for x, impl, _ in tc:
                out = ctx.drive([line('alias_xhistory', x)])[0]
                print('  model vs impl:', fo.t_compare(out, impl))
        except Exception as e:  # noqa: BLE001
            print('  model: <driver unavailable>', e)
    else:
        print('  unknown case kind', part)
