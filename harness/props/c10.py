"""C10 — label-based access addresses exactly the labelled periods."""
import datetime, itertools, json

import numpy as np
import pandas as pd

import container_common as cc
from container_common import enc_operand, enc_label, dec_label

ID = 'C10'
LEAN_MODULE = 'Proofs.C10'
THEOREMS = ['Fsic.C10.' + n for n in [
    'pySlice_spec', 'clamp_spec', 'access_depends_only_on_span', 'access_unchanged_by_history', 'locate_seq_pos', 'locate_seq_missing', 'locate_seq_nodup', 'locate_numpy',
    'locate_lt', 'label_get', 'label_set', 'label_set_frame', 'missing_label_keyerror', 'missing_label_keyerror_seq',
    'label_slice_positions', 'label_slice_open_ends', 'label_slice_get', 'label_slice_set',
    'access_paths_agree_reads', 'access_paths_agree_attribute_partial',
    'access_paths_agree_attribute_false_at_witness', 'add_variable_refuses_attribute_name', 'no_shadow_init',
    'no_shadow_step', 'no_shadow_history', 'access_paths_agree_attribute',
    'access_paths_agree_label_write',
    'access_paths_agree_pos_write', 'access_paths_agree_whole_write', 'access_paths_agree_slice_write',
    'write_touches_only_target', 'access_defined_on_index',
    'alias_resolves_names_only', 'alias_label_passthrough', 'alias_label_get', 'alias_label_set',
    'alias_missing_label_keyerror', 'alias_paths_agree']]
RULE = ('every span of each type up to the length bound (ranges with non-zero origin and step, lists and tuples of '
        'strings, mixed hashables where 1 / 1.0 / True are one label, NumPy int and str arrays, pandas Index of '
        'ints / strings, annual and quarterly PeriodIndex, DatetimeIndex, plus spans with repeated labels for the '
        'correspondence only) x every label of the span, labels equal under == but of another type, absent labels '
        '(incl. container-typed ones built from present labels: 1-tuples, n-tuples, frozensets, str / bytes of a label), '
        'pandas partial-string labels x every (start, stop) over labels + absent + None x step in {None,1,2,3} x '
        '{get, set scalar, set list}; after every write the series is read back through attribute, name key, '
        'position, label and label slice; writes through attribute / key / position are read back by label; the same '
        'accesses are repeated on a copy, after the values changed, and on a reindexed copy (shifted / extended / '
        'permuted span of the same type), positions always judged against the span of the object accessed; '
        'alias-enabled classes (AliasMixin over container / model / linker, chained aliases) on string spans whose '
        'labels coincide with alias names, with variable names, with neither — single labels, slice ends and absent '
        'labels of each kind, through aliases and variable names, all paths read back; whole-series assignment of '
        'live arrays (another variable\'s own array or a view of it, one caller-owned float64 array given to two '
        'variables) followed by label / slice / positional writes with read-back of ALL variables; alternative '
        'spellings of pandas time labels (period / ISO strings, datetime.date, datetime.datetime, partial strings) '
        'judged by pandas\' get_loc on the span the object was GIVEN, also after copy and reindex; on model-like '
        'classes (BaseModel, parser-built, BaseLinker, alias-enabled, TracerMixin) the same accesses on the container '
        'variables that are not model variables — status (str), iterations (int), trace (object) — plus `name in obj`. '
        'Whole space enumerated (seed-independent) on VectorContainer; BaseModel (hand-written / parser-built) and '
        'BaseLinker instances take every second span in a fixed rotation (every span in the thorough tier). distinct = distinct (flavour, span, access); non-trivial = the access addresses at least one '
        'period or must raise KeyError')
TRUSTED = ["pandas' own get_loc is outside the model: what the installed pandas returns for every label used is "
           "recorded by the harness (not through fsic) and fed to the model as the table Store.getLoc",
           'label identity is Python == / hash (labels reach the model as class numbers assigned with a dict)',
           'NumPy basic indexing arr[a:b:s] (the model\'s pySlice is compared with Python slicing on every triple)',
           'behaviour switches of the model (Cfg.current) are probed by harness/reflect_container.py on every run']
ASSUMPTIONS = ['labels identify periods: the oracle speaks about spans whose labels are pairwise distinct under == '
               '(spans with repeated labels are compared with the model only)',
               'pandas partial-string labels (a year in a quarterly PeriodIndex, a month in a DatetimeIndex) resolve '
               'to whatever pandas says; the oracle checks element labels and absent labels only',
               'step > 0; spans of length >= 1 for open-ended slices']

META = {
    "text": "Theorems over the container model M6, for every well-formed store, span, label and slice: Python slice semantics for all bounds and positive steps (pySlice_spec, clamp_spec); a label is located at its first occurrence / at its unique occurrence for NumPy spans and a label not in the span is missing (locate_*); obj[name, label] reads and writes exactly the element at the label's position, nothing else changes (label_get, label_set, label_set_frame); obj[name, a:b:s] addresses pos(a), pos(a)+s, ... up to and including pos(b), nothing if pos(a) > pos(b), open ends = span ends for distinct labels (label_slice_*); a missing label raises KeyError on reads and writes, single or slice end, and leaves the store unchanged (missing_label_keyerror); a value written through label, position, name key / attribute or label slice is read back through each of the others (access_paths_agree_*); what an access addresses depends on the span alone and is unchanged by every history of operations (access_depends_only_on_span, access_unchanged_by_history); a write to one variable leaves every other variable's every cell unchanged, for every store, operand and single-variable assignment — whole-series assignment stores values, variables never share storage (write_touches_only_target); every access path by name is defined exactly on index — a model's status / iterations / trace are addressable like any variable although `name in obj` (names) excludes them (access_defined_on_index); through an alias-enabled class (AliasMixin, model M8's resolve composed with M6) the alias is resolved in the name position only and the label or label slice is passed through unchanged, also when it is spelled like an alias or a variable (alias_*). The attribute path is proved when no attribute-list entry carries the variable's name: as shipped, add_variable accepts the name of an existing ad-hoc attribute and obj.name then returns the stale attribute (negation proved at a witness for the shipped configuration, reproduced on the real code, open known finding); for a configuration in which add_variable also checks the attribute list (a reflected switch, probed on every run) that situation is unreachable (no_shadow_step / no_shadow_history) and the attribute path agrees at full strength (access_paths_agree_attribute). pandas get_loc is an input of the model (partial). The model is tied to the code by exhaustive enumeration of spans x labels x slice triples x get/set on all span types, compared after every operation.",
    "design_ref": "DESIGN.md §5 M6, §6 C10",
    "note": "Partial: pandas' get_loc is not modelled — its recorded answers are inputs. Trusted: Lean kernel; axioms propext/Classical.choice/Quot.sound; the correspondence harness; Python ==/hash for label identity; NumPy basic slicing. The oracle assumes pairwise distinct labels. Attribute-path agreement is claimed only outside the known finding (variable created with the name of an existing attribute).",
    "technique": "Lean 4 proof (slice arithmetic, first-occurrence search, get-after-set lemmas) + exhaustive differential correspondence check"
}

X0 = [10.0, 20.0, 30.0, 40.0, 50.0, 60.0, 70.0]
W0 = [1, 2, 3, 4, 5, 6, 7]
NEWV = 77.5


def L(x):
    return enc_label(x)


def span_catalogue(n):
    """(tag, span spec, equal-but-other-type labels, absent labels, partial-string labels) for length n."""
    out = []
    out.append(('range', {'type': 'range', 'args': [2000, 2000 + n]}, [2000.0], [1999, 2000 + n, '2000'], []))
    out.append(('range-neg', {'type': 'range', 'args': [-2, -2 + n]}, [], [-3, n], []))
    out.append(('range-step', {'type': 'range', 'args': [1, 1 + 2 * n, 2]}, [True], [2, 0], []))
    strs = ['a', 'b', 'c', 'd', 'e', 'f', 'g'][:n]
    out.append(('list-str', {'type': 'list', 'labels': [L(x) for x in strs]}, [], ['zz', 0], []))
    out.append(('tuple-str', {'type': 'tuple', 'labels': [L(x) for x in strs]}, [], ['A'], []))
    mixed = [1, 'x', (2, 3), 2.5, 0, 'y', (1,)][:n]
    out.append(('list-mixed', {'type': 'list', 'labels': [L(x) for x in mixed]}, [1.0, True, False, 0.0][:2 if n < 5 else 4],
                ['1', (2,), 3], []))
    out.append(('numpy-int', {'type': 'numpy', 'labels': [L(x) for x in range(10, 10 + n)]}, [10.0], [9, '10'], []))
    out.append(('numpy-str', {'type': 'numpy', 'labels': [L(x) for x in ['p', 'q', 'r', 's', 't', 'u', 'v'][:n]]}, [], ['z', 1], []))
    out.append(('pindex-int', {'type': 'pindex', 'labels': [L(x) for x in range(3, 3 + n)]}, [3.0], [99, 'x'], []))
    out.append(('pindex-str', {'type': 'pindex', 'labels': [L(x) for x in ['x', 'y', 'z', 'w', 'v', 'u', 't'][:n]]}, [], ['q', 2], []))
    out.append(('period-Y', {'type': 'period', 'start': '2000', 'n': n, 'freq': 'Y'}, [],
                [pd.Period('1990', freq='Y'), 7], ['2000', '2001', '1990', datetime.date(2000, 6, 1)]))
    out.append(('period-Q', {'type': 'period', 'start': '2000Q3', 'n': n, 'freq': 'Q'}, [],
                [pd.Period('1990Q1', freq='Q')], ['2000Q4', '2001Q1', '2000', '2001', '2000-10']))
    out.append(('datetime-D', {'type': 'datetime', 'start': '2000-01-30', 'n': n, 'freq': 'D'}, [],
                [pd.Timestamp('1999-01-01')],
                ['2000-01-31', '2000-02-01', '2000-02', '2000-01', datetime.date(2000, 1, 31),
                 datetime.datetime(2000, 2, 1), '1999-12-31']))
    if n >= 2:
        dup = ['a', 'b', 'a', 'c', 'b', 'a', 'd'][:n]
        out.append(('list-dup', {'type': 'list', 'labels': [L(x) for x in dup]}, [], ['zz'], []))
        out.append(('numpy-dup', {'type': 'numpy', 'labels': [L(x) for x in [1, 2, 2, 3, 1, 4, 5][:n]]}, [], [9], []))
    return out


def safe_eq(a, b):
    """Python `==` between two LABELS: each side is one object — a tuple / frozenset is never "equal" to a scalar
    because NumPy would broadcast the comparison over its elements."""
    try:
        r = a == b
    except Exception:  # noqa: BLE001
        return False
    return bool(r) if isinstance(r, (bool, np.bool_)) else False


def container_labels(span):
    """Absent labels of container type built from labels that ARE in the span: a label is one object, so none of
    these denotes a period."""
    ps = list(span)
    if not ps:
        return []
    p0 = ps[0]
    out = [(p0,), tuple(ps[:2]) if len(ps) > 1 else (p0, p0), frozenset([p0])]
    if isinstance(p0, str):
        out.append(p0.encode())
    elif isinstance(p0, (int, float, np.integer, np.floating)) and not isinstance(p0, bool):
        out += [str(p0), str(p0).encode()]       # (the str of a pandas Period / Timestamp IS a spelling of that label)
    return out


def positions_of(span_list, label):
    return [i for i, x in enumerate(span_list) if safe_eq(x, label)]


def setup_ops(n):
    return [{'op': 'addVariable', 'name': 'X', 'v': enc_operand(X0[:n]), 'dtype': 'f'},
            {'op': 'addVariable', 'name': 'W', 'v': enc_operand(W0[:n]), 'dtype': 'i'}]


def reset_ops(n):
    return [{'op': 'setItem', 'name': 'X', 'v': enc_operand(X0[:n])}]


def read_all_paths(labels_for_reads, n):
    ops = [{'op': 'getItem', 'name': 'X'}, {'op': 'getAttr', 'name': 'X'}]
    ops += [{'op': 'getPos', 'name': 'X', 'i': i} for i in (0, n - 1, -1)]
    ops += [{'op': 'getLabel', 'name': 'X', 'label': lab} for lab in labels_for_reads]
    return ops


def span_cases(flavour, tag, spec, n, equal, absent, partial, steps):
    """Histories that together enumerate every access of the quantifier for one span."""
    span = cc.make_span(spec)
    own = [L(x) for x in span]
    eq = [L(x) for x in equal]
    cont = [L(x) for x in container_labels(span)]
    ab = [L(x) for x in absent[:2]] + cont[:2] + [L(x) for x in absent[2:]] + cont[2:]
    pa = [L(x) for x in partial]
    singles = own + eq + ab + pa
    base = {'flavour': flavour, 'strict': False, 'span': spec, 'tag': tag}
    # A: single labels — get, set, read back through every path, reset
    ops = setup_ops(n)
    for lab in singles:
        ops.append({'op': 'getLabel', 'name': 'X', 'label': lab})
    for lab in singles:
        ops.append({'op': 'setLabel', 'name': 'X', 'label': lab, 'v': enc_operand(NEWV)})
        ops += read_all_paths(own[:2] + [lab], n)
        ops.append({'op': 'getLabelSlice', 'name': 'X', 'a': lab, 'b': lab, 'step': None})
        ops += reset_ops(n)
    # writes through the other paths, read back by label
    for i in range(-n, n):
        ops.append({'op': 'setPos', 'name': 'X', 'i': i, 'v': enc_operand(NEWV)})
        ops += [{'op': 'getLabel', 'name': 'X', 'label': lab} for lab in own]
        ops += reset_ops(n)
    ops.append({'op': 'setAttr', 'name': 'X', 'v': enc_operand(NEWV)})
    ops += [{'op': 'getLabel', 'name': 'X', 'label': lab} for lab in own]
    ops.append({'op': 'setItem', 'name': 'X', 'v': enc_operand(list(reversed(X0[:n])))})
    ops += [{'op': 'getLabel', 'name': 'X', 'label': lab} for lab in own]
    ops.append({'op': 'getLabelSlice', 'name': 'X', 'a': None, 'b': None, 'step': None})
    yield {**base, 'ops': ops, 'part': 'single'}
    # B: slices — every (start, stop) over labels + equal + absent + partial + None, every step
    ends = [None] + own + eq[:1] + ab[:3] + pa
    for a in ends:
        ops = setup_ops(n)
        for b in ends:
            for st in steps:
                ops.append({'op': 'getLabelSlice', 'name': 'X', 'a': a, 'b': b, 'step': st})
                ops.append({'op': 'setLabelSlice', 'name': 'X', 'a': a, 'b': b, 'step': st, 'v': enc_operand(NEWV)})
                ops.append({'op': 'getItem', 'name': 'X'})
                ops.append({'op': 'getItem', 'name': 'W'})
                ops += reset_ops(n)
            ops.append({'op': 'setLabelSlice', 'name': 'X', 'a': a, 'b': b, 'step': None, 'v': enc_operand([1.5, 2.5])})
            ops += reset_ops(n)
        yield {**base, 'ops': ops, 'part': 'slice'}


def reindex_targets(tag, spec, n):
    """Spans of the same type to reindex to: shifted, extended, and (where the type allows) permuted."""
    t = spec['type']
    if t == 'range':
        a, b = spec['args'][0], spec['args'][1]
        st = spec['args'][2] if len(spec['args']) > 2 else 1
        out = [{'type': 'range', 'args': [a + st, b + st, st]}, {'type': 'range', 'args': [a - st, b + st, st]}]
        out.append({'type': 'list', 'labels': [L(x) for x in reversed(range(a, b, st))]})
        return out
    if t in ('list', 'tuple', 'numpy', 'pindex'):
        labs = spec['labels']
        fresh = L('new') if labs and labs[0][0] == 's' else L(777)
        return [{'type': t, 'labels': list(reversed(labs))},                 # permuted
                {'type': t, 'labels': labs[1:] + [fresh]},                    # shifted
                {'type': t, 'labels': [fresh] + labs}]                        # extended at the front
    if t == 'period':
        p = pd.Period(spec['start'], freq=spec['freq'])
        return [{**spec, 'start': str(p + 1)}, {**spec, 'start': str(p - 1), 'n': n + 2}]
    if t == 'datetime':
        ts = pd.Timestamp(spec['start'])
        return [{**spec, 'start': str((ts + pd.Timedelta(days=1)).date())},
                {**spec, 'start': str((ts - pd.Timedelta(days=1)).date()), 'n': n + 2}]
    return []


def sequence_cases(flavour, tag, spec, n, equal, absent, partial, steps):
    """The SAME accesses made on an object, on its copy, after its values changed, and on a reindexed copy: what an
    access addresses may depend on the span of the object it is made on and on nothing else (no memory of earlier
    accesses, of the object it was copied from, of the span it had before)."""
    for target in reindex_targets(tag, spec, n):
        span, span2 = cc.make_span(spec), cc.make_span(target)
        own = [L(x) for x in span]
        labs = own + [L(x) for x in span2 if json.dumps(L(x)) not in {json.dumps(o) for o in own}]
        labs += [L(x) for x in absent[:1]] + [L(x) for x in container_labels(span)[:1]] + [L(x) for x in partial]
        ends = [None] + labs

        def accesses(newv):
            ops = [{'op': 'getLabel', 'name': 'X', 'label': lab} for lab in labs]
            for a in ends:
                for b in ends:
                    for st in steps:
                        ops.append({'op': 'getLabelSlice', 'name': 'X', 'a': a, 'b': b, 'step': st})
                    ops.append({'op': 'setLabelSlice', 'name': 'X', 'a': a, 'b': b, 'step': steps[-1], 'v': enc_operand(newv)})
                    ops.append({'op': 'getItem', 'name': 'X'})
            for lab in labs:
                ops.append({'op': 'setLabel', 'name': 'X', 'label': lab, 'v': enc_operand(newv + 0.25)})
            ops.append({'op': 'getItem', 'name': 'X'})
            return ops
        ops = setup_ops(n) + accesses(71.0) + [{'op': 'copy'}] + accesses(72.0)
        ops += [{'op': 'setItem', 'name': 'X', 'v': enc_operand(list(reversed(X0[:n])))}] + accesses(73.0)
        ops += [{'op': 'reindex', 'span': target}] + accesses(74.0)
        ops += [{'op': 'setAttr', 'name': 'X', 'v': enc_operand(5.5)}] + accesses(75.0)
        yield {'flavour': flavour, 'strict': False, 'span': spec, 'tag': tag, 'part': 'sequence', 'ops': ops}


STATUS = ['-', '.', 'F', 'E', 'S', '.', 'F']


def hidden_var_cases(flavour, tag, spec, n, absent, partial, steps):
    """Model-like objects keep `status`, `iterations` (and a tracer's `trace`) as ordinary container variables: they
    are in `index` — every access path works on them — but not in `names` (`'status' in model` is False)."""
    span = cc.make_span(spec)
    own = [L(x) for x in span]
    ab = [L(x) for x in absent[:1]] + [L(x) for x in partial[:1]]
    variables = [('iterations', W0[:n], 42, [7, 8]), ('status', STATUS[:n], 'E', ['S', 'F'])]
    if flavour == 'tracer':
        variables.append(('trace', None, {'t': 'obj', 'id': 0}, None))
    base = {'flavour': flavour, 'strict': False, 'span': spec, 'tag': f'hidden:{tag}', 'part': 'hidden'}
    if flavour in ('amodel', 'alinker'):
        base['aliases'] = ALIASES
    E = lambda v: v if isinstance(v, dict) else enc_operand(v)
    for var, init, newv, pair in variables:
        def reads():
            return [{'op': 'getItem', 'name': var}, {'op': 'getAttr', 'name': var}, {'op': 'getPos', 'name': var, 'i': -1},
                    {'op': 'getLabel', 'name': var, 'label': own[0]}, {'op': 'getItem', 'name': 'Y'},
                    {'op': 'getItem', 'name': 'iterations'}]

        def accesses(k0):
            ops = []
            for lab in own + ab:
                ops.append({'op': 'getLabel', 'name': var, 'label': lab})
                ops.append({'op': 'setLabel', 'name': var, 'label': lab,
                            'v': E(newv if not isinstance(newv, int) else newv + k0)})
                ops += reads()
            for a in [None] + own + ab[:1]:
                for b in [None] + own + ab[:1]:
                    for st in steps:
                        ops.append({'op': 'getLabelSlice', 'name': var, 'a': a, 'b': b, 'step': st})
                    ops.append({'op': 'setLabelSlice', 'name': var, 'a': a, 'b': b, 'step': None,
                                'v': E(newv if not isinstance(newv, int) else newv + k0 + 1)})
                    ops.append({'op': 'getItem', 'name': var})
            if pair is not None:
                ops.append({'op': 'setLabelSlice', 'name': var, 'a': own[0], 'b': own[min(1, n - 1)], 'step': None, 'v': E(pair[:min(2, n)])})
                ops += reads()
            ops.append({'op': 'setPos', 'name': var, 'i': 0, 'v': E(newv)})
            ops += reads()
            return ops
        ops = [{'op': 'contains', 'name': x} for x in ('status', 'iterations', 'trace', 'Y', 'C', 'nope')]
        if init is not None:
            ops.append({'op': 'setItem', 'name': var, 'v': enc_operand(init)})       # whole series by name key
            ops += reads()
            ops.append({'op': 'setAttr', 'name': var, 'v': enc_operand(init[0])})    # whole series by attribute (scalar)
            ops.append({'op': 'setAttr', 'name': var, 'v': enc_operand(tuple(init))})
            ops.append({'op': 'replaceValues', 'kvs': [[var, enc_operand(init)], ['Y', enc_operand(1.5)]]})
            ops += reads()
        ops += accesses(0)
        ops += [{'op': 'copy'}] + accesses(10)[:60]
        if flavour not in ('linker', 'alinker'):
            targets = reindex_targets(tag, spec, n)
            if targets:
                ops += [{'op': 'reindex', 'span': targets[0]}] + [{'op': 'contains', 'name': var}] + accesses(20)[:80]
        yield {**base, 'ops': ops, 'var': var}


def sharing_cases(flavour, tag, spec, n, aliases=None):
    """Whole-series assignment of LIVE arrays — another variable's own array (`obj.X`, `obj['X']`), views of it, one
    caller-owned float64 array given to two variables — followed by label / label-slice / positional writes to one
    of the variables and a read-back of ALL of them: a write addresses the labelled cells of the named variable and
    nothing else, whatever was assigned from whatever before."""
    span = cc.make_span(spec)
    own = [L(x) for x in span]
    vs = {'X': X0[:n], 'Y': [x + 0.5 for x in X0[:n]], 'Z': [x + 0.25 for x in X0[:n]]}
    if flavour in ('acontainer', 'amodel'):
        names = {'X': 'Y', 'Y': 'C', 'Z': 'I'}          # the alias classes declare Y, C, I (+ aliases GDP, INV, OUT)
        via = {'X': 'GDP', 'Y': 'C', 'Z': 'INV'}         # names used for access: through aliases where there is one
    else:
        names = {'X': 'X', 'Y': 'Y', 'Z': 'Z'}
        via = dict(names)
    if flavour in ('container', 'acontainer'):
        setup = [{'op': 'addVariable', 'name': names[k], 'v': enc_operand(v), 'dtype': 'f'} for k, v in vs.items()]
    elif flavour == 'amodel':
        setup = [{'op': 'setItem', 'name': names[k], 'v': enc_operand(v)} for k, v in vs.items()]
    else:
        setup = [{'op': 'addVariable', 'name': names[k], 'v': enc_operand(v), 'dtype': 'f'} for k, v in vs.items()]
    everything = [{'op': 'getItem', 'name': names[k]} for k in vs] + [{'op': 'getAttr', 'name': via[k]} for k in vs]
    counter = [300.0]

    def writes(target):
        ops = []
        for lab in own[:3]:
            counter[0] += 1
            ops.append({'op': 'setLabel', 'name': via[target], 'label': lab, 'v': enc_operand(counter[0])})
            ops += everything
        for a, b, st in ((None, own[-1], None), (own[0], None, 2), (own[0], own[min(1, n - 1)], None)):
            counter[0] += 1
            ops.append({'op': 'setLabelSlice', 'name': via[target], 'a': a, 'b': b, 'step': st, 'v': enc_operand(counter[0])})
            ops += everything
        counter[0] += 1
        ops.append({'op': 'setPos', 'name': via[target], 'i': -1, 'v': enc_operand(counter[0])})
        ops += everything
        ops += [{'op': 'getLabel', 'name': via[k], 'label': lab} for k in vs for lab in own[:2]]
        return ops
    ext_arr = enc_operand(np.array([x + 7.0 for x in X0[:n]], dtype='float64'))
    ext = {**ext_arr, 't': 'ext', 'id': 0}
    ops = list(setup)
    for how, op in (('attr', 'setAttr'), ('key', 'setItem'), ('view', 'setAttr'), ('rev', 'setItem')):
        ops.append({'op': op, 'name': via['Y'], 'v': {'t': 'ref', 'name': names['X'], 'how': how}})
        ops += everything + writes('X') + writes('Y')
    ops.append({'op': 'setAttr', 'name': via['Y'], 'v': ext})
    ops.append({'op': 'setItem', 'name': via['Z'], 'v': ext})
    ops += everything + writes('Y') + writes('Z')
    ops.append({'op': 'setAttr', 'name': via['X'], 'v': {'t': 'ref', 'name': names['Z'], 'how': 'attr'}})   # a chain Z -> X
    ops += writes('Z') + writes('X')
    if flavour not in ('linker', 'alinker'):
        ops.append({'op': 'copy'})
        ops += writes('X')
        ops.append({'op': 'setItem', 'name': via['Z'], 'v': {'t': 'ref', 'name': names['X'], 'how': 'key'}})
        ops += writes('Z')
        target = (reindex_targets(tag, spec, n) or [spec])[0]
        ops.append({'op': 'reindex', 'span': target})
        ops.append({'op': 'setAttr', 'name': via['Y'], 'v': {'t': 'ref', 'name': names['X'], 'how': 'attr'}})
        own2 = [L(x) for x in cc.make_span(target)]
        own[:] = own2
        ops += writes('X') + writes('Y')
    case = {'flavour': flavour, 'strict': False, 'span': spec, 'tag': 'sharing:' + tag, 'part': 'sharing', 'ops': ops}
    if aliases:
        case['aliases'] = aliases
    yield case


# ---- oracle ---------------------------------------------------------------------------------------------------------

class Oracle:
    """C10 restated against the object.  `pos(label)` is computed from `list(span)` with Python `==` — never
    through fsic.  Only spans with pairwise distinct labels, element / equal / absent labels (not pandas partial
    strings)."""

    def __init__(self, rep, case, partial):
        self.rep, self.case = rep, case
        self.partial = [json.dumps(x) for x in partial]
        self.aliases = case.get('aliases', [])
        self.ref_span = None
        self.span_list = None
        self.distinct = True
        self.k = -1
        self.broken = False

    def violate_obs(self, key, what):
        self.violate(key, what)

    def violate(self, key, what):
        self.rep.violate(key, what, {'case': {**self.case, 'ops': self.case['ops'][:self.k + 1]}, 'at': self.k})

    def pos(self, lab_json):
        """('pos', i) | ('range', [positions]) | ('absent',) | ('skip',)"""
        if json.dumps(lab_json) in self.partial:
            # pandas partial-string label: the periods it denotes are whatever pandas' own label indexing selects
            # (an alternative spelling / a partial string): it denotes what pandas' own `get_loc` on the span the
            # object was GIVEN says — every exception there is "not in the span" (KeyError for the container)
            if self.pidx is None:
                return ('skip',)
            try:
                r = self.pidx.get_loc(dec_label(lab_json))
            except Exception:  # noqa: BLE001
                return ('absent',)
            if isinstance(r, slice):
                if r.step not in (None, 1):
                    return ('skip',)
                return ('range', list(range(len(self.span_list)))[r])
            if isinstance(r, (int, np.integer)) and not isinstance(r, (bool, np.bool_)):
                return ('pos', int(r))
            return ('skip',)
        ps = positions_of(self.span_list, dec_label(lab_json))
        if not ps:
            return ('absent',)
        return ('pos', ps[0])

    def __call__(self, obj, item, before, out, exc, decl):
        try:
            self.observe(obj, item, before, out, exc, decl)
        except Exception as e:  # noqa: BLE001  (reading the public state raised: that is itself reportable)
            self.broken = True
            self.violate_obs(f'observation-raised:{type(e).__name__}', f'observing the object after {item and item["op"]} raised {e!r}')

    def observe(self, obj, item, before, out, exc, decl):
        if self.broken:
            return
        if item is not None:
            self.k += 1
        if item is None or item['op'] in cc.BOUNDARY:
            # (re)start: positions are always computed from the span of the object now under test
            # — of the span it was GIVEN (at construction / by reindex), which it must have kept as it is
            given = obj.span if self.ref_span is None else self.ref_span
            self.span_list = list(given)
            n = len(self.span_list)
            self.distinct = all(len(positions_of(self.span_list, x)) == 1 for x in self.span_list)
            self.pidx = given if isinstance(given, pd.Index) and self.distinct else None
            if type(obj.span) is not type(given):
                self.violate('span-type-changed', f'the object was given a {type(given).__name__} span and holds a '
                             f'{type(obj.span).__name__}')
            elif len(obj.span) != n or not all(safe_eq(a, b) for a, b in zip(obj.span, self.span_list)):
                self.violate('span-labels-changed', f'the object was given span {self.span_list} and holds {list(obj.span)}')
            return
        if not self.distinct:
            return
        op = item['op']
        n = len(self.span_list)
        # on an alias-enabled object a name stands for the variable it resolves to (the label never does)
        name = cc.resolve_alias(self.aliases, item['name']) if item.get('name') is not None else None
        if op in ('getLabel', 'setLabel'):
            p = self.pos(item['label'])
            if p[0] == 'skip' or name not in before:
                return
            if p[0] == 'absent':
                self.expect_keyerror(obj, op, out, before, f'label {dec_label(item["label"])!r} is not in the span',
                                     [item['label']])
                return
            i = p[1]
            if op == 'getLabel':
                want = cc.read_str(before[name][i])
                if out != want:
                    self.violate('label-get-wrong-element', f'obj[{name!r}, {dec_label(item["label"])!r}] -> {out}, '
                                 f'element(s) at position(s) {i} are {want}')
            else:
                self.expect_written(obj, name, before, out, [i] if p[0] == 'pos' else i, item,
                                    f'label {dec_label(item["label"])!r}')
                if out == 'ok' and p[0] == 'pos':
                    self.paths_agree(obj, name, i)
        elif op in ('getLabelSlice', 'setLabelSlice'):
            if name not in before:
                return
            ends = []
            for key, default in (('a', 0), ('b', n - 1)):
                if item.get(key) is None:
                    ends.append(('pos', default))
                else:
                    ends.append(self.pos(item[key]))
            if any(e[0] == 'skip' for e in ends) or n == 0:
                return
            st = item.get('step') or 1
            if st <= 0:
                return
            if any(e[0] == 'absent' for e in ends):
                self.expect_keyerror(obj, op, out, before, 'a slice end is not in the span',
                                     [item.get('a'), item.get('b')])
                return
            # a partial-string end denotes several periods: the slice starts at the first / ends at the last of them
            lo = ends[0][1] if ends[0][0] == 'pos' else (ends[0][1][0] if ends[0][1] else None)
            hi = ends[1][1] if ends[1][0] == 'pos' else (ends[1][1][-1] if ends[1][1] else None)
            if lo is None or hi is None:
                return
            idx = list(range(lo, hi + 1, st))
            if op == 'getLabelSlice':
                want = cc.read_str(before[name][idx]) if True else None
                if out != want:
                    self.violate('label-slice-get-wrong-positions',
                                 f'slice {self.describe(item)} -> {out}, positions {idx} hold {want}')
            else:
                self.expect_written(obj, name, before, out, idx, item, f'slice {self.describe(item)}')
        elif op == 'setPos' and name in before and out == 'ok':
            i = item['i'] % n
            self.paths_agree(obj, name, i)
        elif op in ('setAttr', 'setItem') and name in before and '_mat' in item:
            # a live array (another variable's, a view, a caller-owned one) assigned to the whole series: its VALUES
            # arrive in the target, no other variable changes
            after = cc.snapshot(obj)
            want = np.asarray(cc.dec_operand(item['_mat'])).astype(before[name].dtype)
            if out != 'ok' or not cc.same_array(after[name], want):
                self.violate('whole-series-live-array', f'{op} {name} <- live array {want.tolist()}: got {out}, '
                             f'{after[name].tolist()}')
            for other in before:
                if other != name and not cc.same_array(after[other], before[other]):
                    self.violate('label-write-touched-other-variable', f'{op} {name} <- live array changed {other}')
        elif op in ('setAttr', 'setItem') and name in before and out == 'ok' and item['v']['t'] == 'scalar':
            for i in range(n):
                self.paths_agree(obj, name, i)

    def describe(self, item):
        f = lambda x: 'None' if x is None else repr(dec_label(x))
        return f'{f(item.get("a"))}:{f(item.get("b"))}:{item.get("step")}'

    def expect_keyerror(self, obj, op, out, before, why, labels=()):
        if out.lstrip('!') != 'KeyError':
            # a tuple / frozenset label that "matched" has been taken apart and compared element by element
            key = ('tuple-label-broadcast' if any(l is not None and l[0] in ('tuple', 'frozenset') and
                                                  self.pos(l)[0] == 'absent' for l in labels)
                   else 'missing-label-no-keyerror')
            self.violate(key, f'{op}: {why}, expected KeyError, got {out}')
        after = cc.snapshot(obj)
        if any(not cc.same_array(after[x], before[x]) for x in before):
            self.violate('missing-label-changed-state', f'{op}: {why}, but a series changed')

    def expect_written(self, obj, name, before, out, idx, item, how):
        """A write of an operand through `how` must change exactly the positions `idx` of `name`."""
        after = cc.snapshot(obj)
        v = item['_py'] if '_py' in item else cc.dec_operand(item['v'])
        want = before[name].copy()
        try:
            want[idx] = v
            fits = True
        except Exception:  # noqa: BLE001  (operand does not fit the addressed positions: the property is silent)
            fits = False
        if not fits:
            return
        if out != 'ok':
            self.violate('label-write-raised', f'write through {how} (positions {idx}) raised {out}')
            return
        if not cc.same_array(after[name], want):
            self.violate('label-write-wrong-positions', f'write through {how}: expected positions {idx} to change; '
                         f'got {after[name].tolist()} from {before[name].tolist()}')
        for other in before:
            if other != name and not cc.same_array(after[other], before[other]):
                self.violate('label-write-touched-other-variable', f'write to {name} through {how} changed {other}')

    def paths_agree(self, obj, name, i):
        """Every access path reads the same element at position i."""
        lab = self.span_list[i]
        ref = cc.read_str(np.asarray(obj[name])[i])
        reads = {}
        try:
            a = getattr(obj, name)
            reads['attribute'] = cc.read_str(a[i]) if isinstance(a, np.ndarray) else 'other'
        except Exception as e:  # noqa: BLE001
            reads['attribute'] = type(e).__name__
        for path, f in (('position', lambda: obj[name][i - len(self.span_list)]), ('label', lambda: obj[name, lab]),
                        ('label-slice', lambda: obj[name, lab:lab][0])):
            try:
                reads[path] = cc.read_str(f())
            except Exception as e:  # noqa: BLE001
                reads[path] = type(e).__name__
        for al in [k for k, _ in self.aliases if cc.resolve_alias(self.aliases, k) == name]:
            for path, f in ((f'alias-attribute({al})', lambda: getattr(obj, al)[i]), (f'alias-key({al})', lambda: obj[al][i]),
                            (f'alias-label({al})', lambda: obj[al, lab]),
                            (f'alias-label-slice({al})', lambda: obj[al, lab:lab][0])):
                try:
                    reads[path] = cc.read_str(f())
                except Exception as e:  # noqa: BLE001
                    reads[path] = type(e).__name__
        for path, got in reads.items():
            if got != ref:
                key = ('attribute-shadows-variable' if path == 'attribute' and name in obj._attributes
                       else f'paths-disagree:{path.split("(")[0]}')
                self.violate(key, f'{name}[{i}] is {ref} by name key but {got} through the {path} path')


ALIASES = [['GDP', 'Y'], ['INV', 'I'], ['OUT', 'GDP']]     # OUT -> GDP -> Y is a chain
ALIAS_SPANS = [     # (tag, labels, absent labels)
    ('labels=var+alias+other', ['Y', 'GDP', 'I', 'q'], ['INV', 'OUT', 'C', 'nope']),
    ('labels=alias+chained+var', ['INV', 'OUT', 'a', 'GDP', 'C'], ['Y', 'I', 'zz']),
    ('labels=neither', ['a', 'b', 'c'], ['GDP', 'Y']),
]


def label_kind(lab, own):
    x = dec_label(lab) if lab is not None else None
    where = 'in-span' if lab in own else 'absent'
    if x is None:
        return 'open'
    what = ('alias-name' if x in [k for k, _ in ALIASES] else 'variable-name' if x in ('Y', 'C', 'I') else 'other')
    return f'{what}:{where}'


def alias_cases(flavour, span_type, tag, labels, absent, steps):
    """Label access through alias-enabled classes: the alias is resolved in the NAME position, never in the label."""
    spec = {'type': span_type, 'labels': [L(x) for x in labels]}
    n = len(labels)
    own, ab = [L(x) for x in labels], [L(x) for x in absent]
    base = {'flavour': flavour, 'strict': False, 'span': spec, 'aliases': ALIASES, 'tag': f'alias:{span_type}:{tag}'}
    vals = {'Y': X0[:n], 'C': [x + 1 for x in X0[:n]], 'I': [x + 2 for x in X0[:n]]}
    if flavour == 'acontainer':
        setup = [{'op': 'addVariable', 'name': k, 'v': enc_operand(v), 'dtype': 'f'} for k, v in vals.items()]
    else:
        setup = [{'op': 'setItem', 'name': k, 'v': enc_operand(v)} for k, v in vals.items()]
    names = ['Y', 'GDP', 'OUT', 'INV', 'C']

    def reads(nm):
        return [{'op': 'getItem', 'name': nm}, {'op': 'getAttr', 'name': nm}, {'op': 'getPos', 'name': nm, 'i': -1},
                {'op': 'getItem', 'name': 'Y'}, {'op': 'getItem', 'name': 'I'}, {'op': 'getItem', 'name': 'C'}]
    ops = list(setup)
    k = 0
    for nm in names:
        for lab in own + ab:
            k += 1
            ops.append({'op': 'getLabel', 'name': nm, 'label': lab})
            ops.append({'op': 'setLabel', 'name': nm, 'label': lab, 'v': enc_operand(100.0 + k)})
            ops += reads(nm)
    # whole-series and positional writes through aliases, read back by label through other names
    ops.append({'op': 'setAttr', 'name': 'GDP', 'v': enc_operand(NEWV)})
    ops += [{'op': 'getLabel', 'name': x, 'label': lab} for x in ('Y', 'OUT') for lab in own]
    ops.append({'op': 'setItem', 'name': 'INV', 'v': enc_operand(vals['I'])})
    ops.append({'op': 'replaceValues', 'kvs': [['OUT', enc_operand(vals['Y'])], ['C', enc_operand(3.5)]]})
    ops.append({'op': 'setPos', 'name': 'OUT', 'i': 0, 'v': enc_operand(-1.0)})
    ops += [{'op': 'getLabel', 'name': x, 'label': lab} for x in ('Y', 'GDP', 'INV', 'C') for lab in own[:2]]
    yield {**base, 'ops': ops, 'part': 'alias-single'}
    ends = [None] + own + ab[:2]
    for nm in ('GDP', 'OUT', 'C'):
        ops = list(setup)
        k = 0
        for a in ends:
            for b in ends:
                for st in steps:
                    k += 1
                    ops.append({'op': 'getLabelSlice', 'name': nm, 'a': a, 'b': b, 'step': st})
                    ops.append({'op': 'setLabelSlice', 'name': nm, 'a': a, 'b': b, 'step': st, 'v': enc_operand(200.0 + k)})
                ops.append({'op': 'getItem', 'name': 'Y'})
                ops.append({'op': 'getItem', 'name': 'C'})
        yield {**base, 'ops': ops, 'part': 'alias-slice'}
    if flavour != 'alinker':
        ops = list(setup)
        acc = []
        for nm in ('GDP', 'INV', 'C'):
            acc += [{'op': 'getLabel', 'name': nm, 'label': lab} for lab in own + ab]
            acc += [{'op': 'setLabel', 'name': nm, 'label': lab, 'v': enc_operand(55.5)} for lab in own[:2] + ab[:2]]
            acc += [{'op': 'getLabelSlice', 'name': nm, 'a': a, 'b': None, 'step': None} for a in own + ab[:1]]
        ops += acc + [{'op': 'copy'}] + acc + [{'op': 'reindex', 'span': {'type': span_type, 'labels': list(reversed(own))[:-1] + ab[:1]}}] + acc
        yield {**base, 'ops': ops, 'part': 'alias-sequence'}


def shadow_cases():
    """A variable created with the name of an existing ad-hoc attribute (seen on the current tree)."""
    spec = {'type': 'range', 'args': [2000, 2003]}
    for order in (0, 1):
        ops = [{'op': 'setAttr', 'name': 'P', 'v': enc_operand(5)},
               {'op': 'addVariable', 'name': 'P', 'v': enc_operand([1.0, 2.0, 3.0]), 'dtype': None}]
        if order:
            ops = ops[::-1]      # the other order is refused (DuplicateNameError is not raised, the variable is updated)
        ops += [{'op': 'setAttr', 'name': 'P', 'v': enc_operand(7.0)}, {'op': 'getItem', 'name': 'P'},
                {'op': 'getAttr', 'name': 'P'}, {'op': 'setLabel', 'name': 'P', 'label': L(2001), 'v': enc_operand(9.0)},
                {'op': 'getAttr', 'name': 'P'}, {'op': 'getLabel', 'name': 'P', 'label': L(2001)}]
        yield {'flavour': 'container', 'strict': False, 'span': spec, 'tag': 'shadow', 'part': 'shadow', 'ops': ops}


def check_cases(ctx, rep, cases, partials):
    lines, impls, kept = [], [], []
    for case, partial in zip(cases, partials):
        orc = Oracle(rep, case, partial)
        try:
            segments, obj = cc.run_segments(case, observer=orc)
        except Exception as e:  # noqa: BLE001  (e.g. the constructor / copy / reindex fails on the tree under test)
            rep.violate(f'case-could-not-run:{type(e).__name__}', f'running the accesses raised outside any operation: {e!r}',
                        {'case': case, 'at': -1})
            continue
        impl_out = [o for seg in segments for o in seg['impl']]
        for it, o in zip([x for x in case['ops'] if x['op'] not in cc.BOUNDARY], impl_out):
            head = o.split('|')[0].split(':')[0]
            rep.dist[f'{it["op"]}:{head}'] += 1
            if case.get('aliases') and it['op'] in ('getLabel', 'setLabel', 'getLabelSlice', 'setLabelSlice'):
                own_l = case['span']['labels']
                kinds = ([label_kind(it['label'], own_l)] if 'label' in it else
                         [label_kind(it.get('a'), own_l), label_kind(it.get('b'), own_l)])
                nm_kind = 'via-alias' if it['name'] in [k for k, _ in ALIASES] else 'via-variable'
                for kd in kinds:
                    rep.dist[f'alias:{nm_kind}:label={kd}:{it["op"]}:{head}'] += 1
            if it['op'] in ('getLabel', 'setLabel', 'getLabelSlice', 'setLabelSlice'):
                acc = json.dumps([case['flavour'], case['span'], {k: v for k, v in it.items() if k != 'v'}], sort_keys=True)
                rep.case(acc, nontrivial=True, sample=None)
        rep.dist[f'span:{case["tag"]}:{case["flavour"]}'] += 1
        if len(rep.samples) < 6 and case['part'] not in ('shadow', 'single'):
            rep.samples.append({'flavour': case['flavour'], 'span': case['span'], 'part': case['part'],
                                'items': len(case['ops']), 'example': [json.dumps(case['ops'][-6])[:120], impl_out[-6][:80]]})
        for seg in segments:
            if seg['line'] is None:
                rep.dist['outside-model (pandas returned a mask)'] += 1
                continue
            if not seg['impl']:
                continue
            lines.append(seg['line'])
            impls.append(seg)
            kept.append(case)
    if not ctx.oracle_only and lines:
        for case, line, seg, reply in zip(kept, lines, impls, ctx.drive(lines)):
            cc.compare(rep, 'label access: model != impl', case, line, seg['impl'], reply, first=seg['first'])


def pyslice_cases(ctx, rep, nmax):
    """The model's Python-slice function against Python itself, every (n, start, stop, step)."""
    reqs, want = [], []
    for n in range(0, nmax + 1):
        bounds = [None] + list(range(-n - 2, n + 3))
        for a in bounds:
            for b in bounds:
                for st in (None, 1, 2, 3, -1, -2, 0):
                    reqs.append('pyslice\t' + json.dumps({'n': n, 'a': a, 'b': b, 'step': st}))
                    try:
                        want.append(','.join(str(i) for i in list(range(n))[slice(a, b, st)]))
                    except ValueError:
                        want.append('!ValueError')
    rep.case(('pyslice', nmax), nontrivial=True, n=len(reqs))
    if not ctx.oracle_only:
        for r, w, got in zip(reqs, want, ctx.drive(reqs)):
            if got != w:
                rep.disagree('pySlice: model != Python slicing', r, got, w)


def all_cases(ctx, nmax, steps, seq_lengths=(4,)):
    cases, partials = [], []
    k = 0
    for n in range(1, nmax + 1):
        for tag, spec, equal, absent, partial in span_catalogue(n):
            k += 1
            flavours = ['container']        # fixed rotation (seed-independent): the whole run is one enumeration
            if ctx.tier != 'quick' or ctx.scale > 1 or k % 2 == 0:
                flavours.append(['model', 'built', 'linker'][k % 3])
            for fl in flavours:
                for c in span_cases(fl, tag, spec, n, equal, absent, partial, steps):
                    cases.append(c)
                    partials.append([L(x) for x in partial])
            if n in seq_lengths and not tag.endswith('-dup'):
                for fl in flavours:
                    if fl == 'linker':
                        continue          # BaseLinker.reindex is not implemented
                    for c in sequence_cases(fl, tag, spec, n, equal, absent, partial, [None, 2]):
                        cases.append(c)
                        partials.append([L(x) for x in partial])
    for c in shadow_cases():
        cases.append(c)
        partials.append([])
    # the container variables of model-like classes that are not model variables: status, iterations, trace
    k = 0
    for n in ((3,) if ctx.tier == 'quick' else (1, 2, 3, 4)):
        for tag, spec, equal, absent, partial in span_catalogue(n):
            if tag.endswith('-dup'):
                continue
            k += 1
            fls = ['model', 'built', 'linker', 'tracer']
            fls = [fls[k % 4], 'tracer'] if ctx.tier == 'quick' else fls
            for fl in dict.fromkeys(fls):
                for c in hidden_var_cases(fl, tag, spec, n, absent, partial, [None, 2]):
                    cases.append(c)
                    partials.append([L(x) for x in partial])
    for span_type in ('list', 'pindex'):
        spec = {'type': span_type, 'labels': [L(x) for x in ALIAS_SPANS[0][1]]}
        for fl in ('amodel', 'alinker'):
            for c in hidden_var_cases(fl, 'alias-' + span_type, spec, 4, ALIAS_SPANS[0][2], [], [None, 2]):
                cases.append(c)
                partials.append([])
    # live arrays assigned between variables, then label writes (n = 4; every span type; all kinds of classes)
    k = 0
    for tag, spec, equal, absent, partial in span_catalogue(4):
        if tag.endswith('-dup'):
            continue
        k += 1
        fls = ['container'] + ([['model', 'built', 'linker'][k % 3]] if (ctx.tier != 'quick' or k % 2 == 0) else [])
        for fl in fls:
            for c in sharing_cases(fl, tag, spec, 4):
                cases.append(c)
                partials.append([L(x) for x in partial])
    for span_type in ('list', 'numpy'):
        spec = {'type': span_type, 'labels': [L(x) for x in ALIAS_SPANS[0][1]]}
        for fl in ('acontainer', 'amodel'):
            for c in sharing_cases(fl, 'alias-' + span_type, spec, 4, aliases=ALIASES):
                cases.append(c)
                partials.append([])
    k = 0
    for span_type in ('list', 'tuple', 'numpy', 'pindex'):
        for tag, labels, absent in ALIAS_SPANS:
            k += 1
            flavours = ['acontainer', ['amodel', 'alinker'][(k // 2) % 2]] if (ctx.tier != 'quick' or k % 2 == 0) else ['acontainer']
            if ctx.tier != 'quick':
                flavours = ['acontainer', 'amodel', 'alinker']
            for fl in flavours:
                for c in alias_cases(fl, span_type, tag, labels, absent, steps if ctx.tier != 'quick' else [None, 2]):
                    cases.append(c)
                    partials.append([])
    return cases, partials


def run(ctx, rep):
    quick = ctx.tier == 'quick'
    nmax = 4 if quick else 7
    steps = [None, 1, 2, 3]
    cases, partials = all_cases(ctx, nmax, steps, (4,) if quick else (2, 3, 4, 5))
    for k in range(0, len(cases), 200):
        check_cases(ctx, rep, cases[k:k + 200], partials[k:k + 200])
    pyslice_cases(ctx, rep, 5 if quick else 7)
    rep.exhaustive = True
    rep.notes.append(f'spans of length 1..{nmax} of {len(span_catalogue(nmax))} kinds; {len(cases)} histories; every label, '
                     f'every (start, stop) over labels + absent + None, steps {steps}, get and set')


def replay(ctx, rep, case):
    c = case['case'] if 'case' in case and 'ops' not in case else case
    partial = []
    for tag, spec, equal, absent, part in span_catalogue(max(len(cc.make_span(c['span'])), 1)):
        if spec == c['span']:
            partial = [L(x) for x in part]
    orc = Oracle(rep, c, partial)
    segments, obj = cc.run_segments(c, observer=orc)
    items = [x for x in c['ops'] if x['op'] not in cc.BOUNDARY]
    impl_out = [o for seg in segments for o in seg['impl']]
    for it, o in list(zip(items, impl_out))[-4:]:
        print('  ', json.dumps(it)[:150], '->', o[:200])
    for seg in segments:
        if seg['line'] is None or not seg['impl']:
            continue
        try:
            reply = ctx.drive([seg['line']])[0].split('\t')
            for k, (a, b) in enumerate(zip(reply, seg['impl'])):
                if a != b:
                    print(f'  model differs at item {seg["first"] + k}:\n    model: {a[:300]}\n    impl : {b[:300]}')
                    break
            else:
                print(f'  segment from item {seg["first"]}: model agrees with the implementation on every item')
        except Exception as e:  # noqa: BLE001
            print('  model: <driver unavailable>', e)
