"""C04 — solving a period touches only that period; reads never wrap round the span."""
import json, random, warnings

import numpy as np

import fsic
import gen_scripts as g
import solver_common as sc
from solver_common import bits

ID = 'C04'
LEAN_MODULE = 'Proofs.C04'
THEOREMS = ['Fsic.C04.' + n for n in [
    'runPass_frame', 'runPass_append', 'runPass_last', 'solveT_cells_frame', 'solveT_cells_frame_no_offset',
    'series_frame', 'rejected_unchanged', 'reads_in_span', 'read_index_no_wrap', 'default_range_is_feasible',
    'infeasible_period_rejected', 'feasibleB_iff', 'generated_model_frame', 'solveList_inv',
    'generated_solve_frame']] + ['Fsic.solveT_inv', 'Fsic.C02.solveT_infeasible']
RULE = ('parser-built models from the C01 grammar (no verbatim code; lags and leads up to 3; with and without offsets on the '
        'left-hand side), every span length from LAGS+LEADS+1 to +3, EVERY period position in both spellings incl. the '
        'infeasible ones at both ends, option sets of C02/C06 (offsets in/out of span, min/max_iter, errors modes, pre-existing '
        'non-finite values), plus solve() over all (start, end) pairs; every series is replaced by a recording ndarray so that '
        'every read and write index is observed. distinct = distinct (program, n, t, options); non-trivial = an accepted '
        'call on a model with at least one lag or lead')
TRUSTED = ['recording ndarray subclass (harness) observes every __getitem__/__setitem__ on the series',
           'CPython evaluates `self._X[t+k]` by calling ndarray.__getitem__ with the integer t+k']
ASSUMPTIONS = ['models without verbatim code', 'hooks are the generated `pass` hooks']
META = {
    'text': "Theorems for every store with get/set laws, statement list, interpretation, option set and period: an evaluation "
            "pass changes only the cells its statements assign (Gauss-Seidel order), solve_t changes only those cells plus the "
            "endogenous cells at t when offset != 0 (preserved-invariant lemma over the whole solver, whatever the outcome), "
            "status/iterations only at t, a call rejected up front changes nothing, every accepted period reads inside the span "
            "at exactly t+k with no index wrap, the default range is exactly the feasible periods, and an infeasible explicit "
            "period is rejected with IndexError (true since fix 82074b6). Tied to the code by recording arrays on parser-built "
            "models over every period position.",
    'design_ref': 'DESIGN.md §6 C04',
    'note': 'Trusted: Lean kernel; axioms propext/Classical.choice/Quot.sound; recording-array harness; the link between generated '
            'code text and the statement list is C01. One genuine defect repaired (fix: 82074b6).',
    'technique': 'Lean 4 proof (invariant preserved by every solver step; omega for index arithmetic) + differential correspondence check with recording arrays',
}


class Rec(np.ndarray):
    def __new__(cls, arr, name, log):
        obj = np.asarray(arr).view(cls)
        obj._nm, obj._log = name, log
        return obj

    def __array_finalize__(self, obj):
        self._nm = getattr(obj, '_nm', None)
        self._log = getattr(obj, '_log', None)

    def __getitem__(self, idx):
        if self._log is not None:
            self._log.append(('r', self._nm, idx))
        return np.asarray(self).__getitem__(idx)

    def __setitem__(self, idx, v):
        if self._log is not None:
            self._log.append(('w', self._nm, idx))
        np.asarray(self).__setitem__(idx, v)


_MODELS = {}


def model_for(prog):
    """The class for a program.  Which of the equivalent ways of building it is used (typed / untyped template,
    build_model / executing the definition text) is decided by the script text: it must not matter."""
    txt = g.render(prog)
    if txt not in _MODELS:
        try:
            how = sum(map(ord, txt)) % 4
            syms = fsic.parse_model(txt)
            if how == 0:
                _MODELS[txt] = fsic.build_model(syms)
            elif how == 1:
                _MODELS[txt] = fsic.build_model(syms, with_type_hints=False)
            else:
                from fsic.core import BaseModel
                from typing import Any, Dict, Hashable, List, Optional
                ns = {'BaseModel': BaseModel, 'np': np, 'Any': Any, 'Dict': Dict, 'Hashable': Hashable,
                      'List': List, 'Optional': Optional}
                exec(fsic.build_model_definition(syms, with_type_hints=(how == 2)), ns)
                _MODELS[txt] = ns['Model']
        except Exception:  # noqa: BLE001
            _MODELS[txt] = None
    return _MODELS[txt], txt


def snapshot(m):
    return ({k: [bits(x) for x in np.asarray(m.__dict__['_' + k])] for k in m.names},
            ''.join(map(str, m.status)), [int(x) for x in m.iterations])


def install(m, log):
    for k in m.names:
        m.__dict__['_' + k] = Rec(m.__dict__['_' + k], k, log)


def one_call(prog, Model, n, t, o, rng, rep, lines, expect, txt):
    rng = random.Random(f'{txt}|{n}|{t}|{json.dumps(o, sort_keys=True)}')   # data depend on the case only: replayable
    exp = g.expected_classes(prog)
    eqs = [st for st in prog.statements if isinstance(st, g.Equation)]
    terms = [(tm.name, tm.offset) for st in eqs for tm in [st.lhs] + g.terms_of(st.rhs)]
    # where the instance comes from must not matter: constructed, a copy of a used one, or a used one reindexed down
    prov = rng.choice(sc.PROVENANCES)
    dt = rng.choice([None, None, None, object, np.float32])      # the series' dtype must not matter to the frame
    make = (lambda sp: Model(sp, dtype=dt)) if dt is not None else Model
    m = sc.with_provenance(make, range(100, 100 + n), prov, names=())
    data = g.random_data(rng, prog, n)
    shared = rng.random() < 0.25      # the caller hands ONE float array to several variables: each must get its own copy
    if shared and data:
        one = np.array(next(iter(data.values())), dtype=float)
        data = {k: one for k in data}
    for k, v in data.items():
        if shared and rng.random() < 0.5:
            setattr(m, k, v)
        else:
            m[k] = v
    rep.dist[f'provenance:{prov}' + (':shared-array' if shared else '')] += 1
    if rng.random() < 0.08:
        nm = rng.choice(m.names)
        m[nm][rng.randrange(n)] = rng.choice([np.nan, np.inf])
    if o['offset'] and rng.random() < 0.3 and exp['endogenous']:
        # a non-finite value in the period the offset copies from (rejected after the copy under errors='raise')
        src = (t + n if t < 0 else t) + o['offset']
        if 0 <= src < n:
            m[rng.choice(exp['endogenous'])][src] = rng.choice([np.nan, np.inf, -np.inf])
    if rng.random() < 0.5:      # the period (and its neighbours) may carry the record of an earlier solve
        m.status[:] = [rng.choice('.FES-') for _ in range(n)]
        m.iterations[:] = [rng.choice([-1, 0, 1, 7, 73]) for _ in range(n)]
    log = []
    install(m, log)
    before = snapshot(m)
    kw = dict(min_iter=o['min_iter'], max_iter=o['max_iter'], tol=1e-8, offset=o['offset'], failures=o['failures'],
              errors=o['errors'], catch_first_error=o['catch_first_error'])
    with warnings.catch_warnings():
        warnings.simplefilter('ignore')
        try:
            r = m.solve_t(t, **kw)
            tag = 'ret'
        except Exception as e:  # noqa: BLE001
            tag = sc.exc_name(e)
    after = snapshot(m)
    pos = t + n if t < 0 else t
    info = {'script': txt, 'n': n, 't': t, 'opts': o, 'ast': repr(prog)}
    feasible = all(0 <= pos + k < n for (_, k) in terms)
    changed = {(k, i) for k in before[0] for i in range(n) if before[0][k][i] != after[0][k][i]}
    st_changed = [i for i in range(n) if before[1][i] != after[1][i] or before[2][i] != after[2][i]]
    nochange = not changed and not st_changed
    endo = exp['endogenous']
    allowed = {(st.lhs.name, pos + st.lhs.offset) for st in eqs}
    if o['offset']:
        allowed |= {(e, pos) for e in endo}
    # --- oracle -----------------------------------------------------------------------------------------
    if o['min_iter'] > o['max_iter']:
        if tag != 'ValueError' or not nochange:
            rep.violate('rejected-call-changed-state', f'min_iter>max_iter: {tag}, changed {sorted(changed)} {st_changed}', info)
        kind = 'rejected'
    elif not feasible:
        if tag != 'IndexError' or not nochange:
            rep.violate('infeasible-period-not-rejected',
                        f'period {t} cannot accommodate lags/leads ({exp["lags"]},{exp["leads"]}) in span {n}: got {tag}, '
                        f'changed {sorted(changed)} {st_changed}', info)
        kind = 'infeasible'
    elif o['offset'] and not (0 <= pos + o['offset'] < n):
        if tag != 'IndexError' or not nochange:
            rep.violate('rejected-call-changed-state', f'offset outside span: {tag}, changed {sorted(changed)}', info)
        kind = 'rejected'
    else:
        kind = 'accepted'
        check0 = [np.frombuffer(np.array(before[0][e][pos], dtype=np.uint64).tobytes(), dtype=np.float64)[0] for e in endo]
        if o['errors'] == 'raise' and o['offset'] == 0 and not all(np.isfinite(x) for x in check0):
            if not tag.startswith('SolutionError') or not nochange:
                rep.violate('rejected-call-changed-state', f'pre-existing non-finite under raise: {tag}, changed {sorted(changed)}', info)
            kind = 'rejected'
        bad = changed - allowed
        if bad:
            rep.violate('wrote-outside-period', f'solve_t({t}) changed cells {sorted(bad)} outside {sorted(allowed)}', info)
        if any(i != pos for i in st_changed):
            rep.violate('status-outside-period', f'solve_t({t}) changed status/iterations at {st_changed}', info)
        others = set(exp['exogenous'] + exp['parameters'] + exp['errors'])
        if any(k in others and (k, i) not in allowed for (k, i) in changed):
            rep.violate('wrote-exogenous', f'solve_t({t}) changed non-endogenous cells {sorted(changed)}', info)
        # reads: exactly t+k, inside the span, never through a wrapped index
        offs = {}
        for nm, k in terms:
            offs.setdefault(nm, set()).add(k)
        for (rw, nm, idx) in log:
            if not isinstance(idx, (int, np.integer)):
                continue
            idx = int(idx)
            ok_k = {idx - t}
            legit = (idx - t) in offs.get(nm, set()) or (nm in endo and idx - t in (0, o['offset']))
            wraps = (t >= 0 and idx < 0) or (t < 0 and idx >= 0)
            p = idx + n if idx < 0 else idx
            if not legit or wraps or not (0 <= p < n):
                rep.violate('read-outside-lag-lead', f'solve_t({t}): {"read" if rw == "r" else "write"} of {nm}[{idx}] '
                            f'(offsets written for {nm}: {sorted(offs.get(nm, []))})', info)
                break
    rep.dist[f'{kind}:{tag.split(":")[0]}'] += 1
    rep.case(json.dumps([txt, n, t, o], sort_keys=True), nontrivial=kind == 'accepted' and (exp['lags'] + exp['leads'] > 0),
             sample={'script': txt, 'n': n, 't': t, 'opts': o, 'result': tag, 'changed': sorted(changed)[:6]}
             if rep.evaluations % 1499 == 0 else None)
    # --- correspondence with the model's frame functions --------------------------------------------------
    names = list(m.names)
    req = {'n': n, 'lags': exp['lags'], 'leads': exp['leads'], 't': t, 'offset': o['offset'],
           'lhs': [[names.index(st.lhs.name), st.lhs.offset] for st in eqs], 'endo': [names.index(e) for e in endo]}
    lines.append('frame\t' + json.dumps(req))
    dr = [i for i, _ in m.iter_periods()] if exp['lags'] < n and exp['leads'] < n else None
    impl_feasible = None if o['min_iter'] > o['max_iter'] else (tag != 'IndexError' if not (o['offset'] and not (0 <= pos + o['offset'] < n)) or not feasible else None)
    expect.append((info, impl_feasible, dr, sorted((names.index(k), i) for (k, i) in allowed), sorted((names.index(k), i) for (k, i) in changed), kind))


def solve_call(prog, Model, n, rng, rep, txt, fixed=None):
    """solve(start, end): only the visited periods' cells change.  `fixed` = a stored case to re-run exactly."""
    exp = g.expected_classes(prog)
    eqs = [st for st in prog.statements if isinstance(st, g.Equation)]
    if fixed is None:
        origin = rng.choice([100, 0, 0, -2, 1])     # labels 0 / negative / falsy labels are labels like any other
        labels = list(range(origin, origin + n))
        fixed = {'origin': origin, 'start': rng.choice([None] + labels), 'end': rng.choice([None] + labels),
                 'offset': rng.choice([0, 0, -1]), 'max_iter': rng.choice([1, 5, 50]),
                 'errors': rng.choice(['raise', 'ignore', 'skip'])}
    origin, start, end, off = fixed['origin'], fixed['start'], fixed['end'], fixed['offset']
    labels = list(range(origin, origin + n))
    drng = random.Random(f'{txt}|{n}|{json.dumps(fixed, sort_keys=True)}')   # data depend on the case only: replayable
    m = Model(range(origin, origin + n))
    for k, v in g.random_data(drng, prog, n).items():
        m[k] = v
    before = snapshot(m)
    with warnings.catch_warnings():
        warnings.simplefilter('ignore')
        try:
            m.solve(start=start, end=end, max_iter=fixed.get('max_iter', 5), failures='ignore',
                    errors=fixed.get('errors', 'raise'), offset=off)
            tag = 'ok'
        except Exception as e:  # noqa: BLE001
            tag = sc.exc_name(e)
    after = snapshot(m)
    s = exp['lags'] if start is None else labels.index(start)
    e_ = n - 1 - exp['leads'] if end is None else labels.index(end)
    visited = range(s, e_ + 1)
    allowed = {(st.lhs.name, p + st.lhs.offset) for st in eqs for p in visited}
    if off:
        allowed |= {(en, p) for en in exp['endogenous'] for p in visited}
    changed = {(k, i) for k in before[0] for i in range(n) if before[0][k][i] != after[0][k][i]}
    st_changed = [i for i in range(n) if before[1][i] != after[1][i] or before[2][i] != after[2][i]]
    info = dict(fixed, script=txt, n=n, ast=repr(prog), solve=True)
    if changed - allowed or any(i not in visited for i in st_changed):
        rep.violate('solve-wrote-outside-range', f'solve({start},{end}) -> {tag}: changed {sorted(changed - allowed)} / status at {st_changed}, '
                    f'visited {list(visited)}', info)
    rep.case(json.dumps([txt, n, fixed], sort_keys=True), nontrivial=len(visited) > 1)
    rep.dist['solve:' + tag.split(':')[0]] += 1


def _work(ctx, rep):
    rng = ctx.sub_rng('programs')
    nprog = (500 if ctx.tier == 'quick' else 30000) * ctx.scale // ctx.parts
    lines, expect = [], []
    made = 0
    while made < nprog:
        cfg = g.GenConfig(max_equations=3, max_depth=2, max_lag=3, max_lead=3, allow_verbatim=False,
                          lhs_offsets=rng.random() < 0.25, allow_ifelse=rng.random() < 0.5)
        prog = g.gen_program(rng, cfg)
        Model, txt = model_for(prog)
        if Model is None:
            continue
        made += 1
        exp = g.expected_classes(prog)
        base = exp['lags'] + exp['leads'] + 1
        for n in range(base, base + (3 if ctx.tier == 'quick' else 4)):
            for t in range(-n, n):
                M = rng.choice([0, 1, 3, 20])
                o = {'min_iter': rng.choice([0, 0, 1, M, M + 1]) if rng.random() < 0.3 else 0, 'max_iter': M,
                     'offset': rng.choice([0, 0, 0, -1, 1, 2, -n]), 'failures': rng.choice(['raise', 'ignore']),
                     'errors': rng.choice(['raise', 'skip', 'ignore', 'replace']), 'catch_first_error': rng.choice([True, False])}
                one_call(prog, Model, n, t, o, rng, rep, lines, expect, txt)
            solve_call(prog, Model, n, rng, rep, txt)
    if not ctx.oracle_only:
        outs = ctx.drive(lines)
        for (info, impl_feasible, dr, allowed, changed, kind), out in zip(expect, outs):
            f, rng_s, ws = out.split('|')
            model_allowed = sorted(tuple(int(x) for x in c.split(':')) for c in ws.split(',') if c)
            model_range = None if rng_s == '!' else [int(x) for x in rng_s.split(',') if x]
            if impl_feasible is not None and (f == 'T') != impl_feasible:
                rep.disagree('feasibility: model != impl', info, out, f'impl accepted={impl_feasible}')
            elif dr is not None and model_range != dr:
                rep.disagree('default range: model != impl', info, out, f'iter_periods={dr}')
            elif kind == 'accepted' and not set(changed) <= set(model_allowed):
                rep.disagree('write set: impl changed a cell outside the model write set', info, out, f'changed={changed}')


def run(ctx, rep):
    import framework
    framework.parallel(_work, ctx, rep, parts=(1 if ctx.tier == 'quick' else ctx.workers))


def replay(ctx, rep, info):
    print('  script:', repr(info['script']), {k: v for k, v in info.items() if k not in ('script', 'ast')})
    if 'ast' not in info:
        print('  (case stored without its AST: re-run the check to reproduce)')
        return
    ns = {k: getattr(g, k) for k in dir(g)}
    prog = eval(info['ast'], ns)
    Model, txt = model_for(prog)
    if info.get('solve') or 't' not in info:
        fixed = {k: info[k] for k in ('origin', 'start', 'end', 'offset', 'max_iter', 'errors') if k in info}
        fixed.setdefault('origin', 100)
        solve_call(prog, Model, info['n'], None, rep, txt, fixed=fixed)
        return
    one_call(prog, Model, info['n'], info['t'], info['opts'], None, rep, [], [], txt)
