"""C02 — per-period solve: status, iteration count, result flag and convergence agree."""
import itertools, json, warnings

import numpy as np

import fsic
import solver_common as sc
from solver_common import bits, unbits

ID = 'C02'
LEAN_MODULE = 'Proofs.C02'
THEOREMS = ['Fsic.C02.' + n for n in [
    'solveT_min_gt_max', 'solveT_offset_oob', 'solveT_offset_copy', 'solveT_offset_zero', 'pyIndex_offset',
    'solveT_converges', 'solveT_fails', 'failed_count_is_max_iter', 'good_iff', 'converging_calls',
    'failing_calls', 'logged_transparent', 'solvePeriod_eq_solveT', 'solvePeriod_keyError',
    'solveT_outcome_exists', 'solveT_history_irrelevant', 'solveT_stamp_history_irrelevant',
    'solveT_agreement', 'solveT_true_sound', 'solveT_false_sound', 'closeBy_iff', 'closeBy_blocked', 'closeBy_empty',
    'closeBy_mono', 'converged_all_near']] + ['Fsic.solveT_eq_outcome', 'Fsic.outcome_agrees', 'Fsic.loop_cases', 'Fsic.loop_bound']
RULE = ('scripted models: every outcome sequence over {close, same, edge(|diff|==tol), far, one-variable-far, nan, '
        '+inf, raise, warn}^L crossed with max_iter 0..L, min_iter 0..max_iter+1, errors x catch_first_error '
        '(exhaustive core), plus random cases over n, number of endogenous/check variables (incl. none), t in both '
        'spellings, offsets in and out of span, pre-existing statuses and non-finite values, hook actions, tol; plus '
        'random linear equation systems built by the parser whose recorded per-pass check vectors are replayed '
        'through the model. distinct = distinct (script, options, t, offset, initial state); non-trivial = accepted '
        'call that runs at least one pass')
TRUSTED = ['Python/NumPy float64 comparison |a-b| < tol is IEEE-754 (mirrored by Lean Float in the driver instance)',
           'the scripted-model harness (solver_common.py) plays the same script on both sides']
ASSUMPTIONS = ['-n <= t < n (Python int or signed NumPy integer; bool and unsigned NumPy integers are outside: HEAD broadcasts / wraps them)',
               'the Lean model computes on float64 check vectors: float64, float32 and object-of-float models are compared bit for bit; '
               'int-dtype models use integer-valued scripts below 2**53 in the correspondence check, and magnitudes at and beyond 2**53 '
               'are judged by an exact-integer oracle in Python only (stream bigint), not by the model',
               'tol is a finite non-NaN float',
               'variations the model cannot see (how user code stores a value, warning category, exception class, mixins, strict, '
               'instance provenance, argument forms, member-like names, instance check list vs class CHECK) are generated on the '
               'implementation side only and must leave the compared outcome unchanged']

META = {
    "text": "Theorems for every interpretation (model, hooks, float semantics), option set, span length and period: rejection of min_iter>max_iter and out-of-span offsets without change, offset seeding, stop at the least accepted pass with status '.', iterations = passes run, True; otherwise 'F', iterations = max_iter, False / NonConvergenceError iff failures='raise'; hooks called exactly once and passes exactly k times (logged interpretation + simulation lemma); solve_t factors through the user state (solveT_eq_outcome): values, result and the stamp left do not depend on the status/iterations record of earlier calls. The model is tied to BaseModel.solve_t by exact comparison on scripted outcome lattices and on parser-built systems.",
    "design_ref": "DESIGN.md §5 M1, §6 C02",
    "note": "Trusted: Lean kernel; axioms propext/Classical.choice/Quot.sound; the correspondence harness (scripted models, recorded vectors) which validates the model on generated cases only; IEEE double comparison in NumPy equals Lean Float. Assumes -n <= t < n.",
    "technique": "Lean 4 proof (induction on the iteration fuel, simulation lemma) + differential correspondence check"
}

ALPHA = ['close', 'same', 'edge', 'far', 'one', 'nan', 'pinf', 'raise', 'warn']
ERRORS = ['raise', 'skip', 'ignore', 'replace', 'bogus']
CATS = list(sc.WARNING_CATEGORIES)


def base_case(n, nE, check, t, opts, outcomes_by_pos, rng=None, before=None, after=None, vals=None, status=None,
              iters=None, tol=sc.TOL):
    vals = vals if vals is not None else [[float(i + 1 + 10 * p) for p in range(n)] for i in range(nE)]
    pos = t + n if t < 0 else t
    src = pos + opts['offset']
    script = []
    for p in range(n):
        oc = outcomes_by_pos.get(p, [])
        if p == pos and 0 <= src < n:
            start = [vals[i][src] for i in range(nE)]
        else:
            start = [vals[i][p] for i in range(nE)]
        script.append(sc.make_script(oc, start, nE))
    return {
        'n': n, 'nE': nE, 'check': check, 'tol': bits(tol), 'script': script,
        'before': before or [], 'after': after or [],
        'vals': [[bits(x) for x in row] for row in vals],
        'status': status or '-' * n, 'iters': iters or [-1] * n, 'opts': opts, 't': t,
    }


def mkopts(min_iter=0, max_iter=3, offset=0, failures='ignore', errors='raise', catch=True):
    return {'min_iter': min_iter, 'max_iter': max_iter, 'offset': offset, 'failures': failures, 'errors': errors,
            'catch_first_error': catch}


def core_cases(L):
    n, nE, check, t = 3, 2, [0, 1], 1
    i = 0
    for seq in itertools.product(ALPHA, repeat=L):
        for M in range(0, L + 1):
            for m_ in range(0, M + 2):
                for errors in ERRORS:
                    for catch in (True, False):
                        i += 1
                        o = mkopts(m_, M, 0, 'raise' if i % 2 else 'ignore', errors, catch)
                        c = base_case(n, nE, check, t, o, {1: list(seq)})
                        # implementation-side variations the model cannot see (deterministic in i)
                        c['write'] = 'rebind' if i % 3 == 0 else 'inplace'
                        c['prov'] = sc.PROVENANCES[i % len(sc.PROVENANCES)]
                        c['names'] = sc.NAME_STYLES[(i // 5) % len(sc.NAME_STYLES)]
                        c['span_kind'] = sc.SPAN_KINDS[i % len(sc.SPAN_KINDS)]
                        for a in c['script'][1]:
                            if a['k'] == 'warn':
                                a['cat'] = CATS[(i // 3) % len(CATS)]
                        yield c


def default_case(rng):
    """Calls that leave out the keywords whose values are the documented defaults (tolerance 1e-10, max_iter 100, …), on
    scripts whose moves (2**-30 = 9.3e-10) are above that tolerance: the omitted keyword must mean its default."""
    n, nE = rng.choice([2, 3]), rng.choice([1, 2])
    t = rng.randrange(-n, n)
    seq = [rng.choice(['tiny2', 'tiny2', 'same']) for _ in range(rng.randint(1, 5))] + ['same']
    o = mkopts(0, rng.choice([100, 100, 3, 8]), 0, rng.choice(['raise', 'ignore']), 'raise', True)
    vals = [[2.0 ** -7 * (1 + i + p) for p in range(n)] for i in range(nE)]
    pos = t + n if t < 0 else t
    case = base_case(n, nE, list(range(nE)), t, o, {pos: seq}, vals=vals, tol=1e-10)
    case['span_kind'] = rng.choice(sc.SPAN_KINDS)
    case = sc.vary_implementation_side(case, rng)
    case['argform'] = 'omit'
    case['status'], case['iters'] = '-' * n, [-1] * n
    return case


def dtype_case(rng):
    """Models whose series are not float64: `dtype=int` (integer-valued scripts: a pass either repeats the values or
    moves them by 1) and `dtype=float32` (all script values are exactly representable).  Status, iteration count,
    result and convergence must follow the same rules."""
    dt = rng.choice(['int', 'float32', 'float32', 'object'])   # object: Python floats in object arrays
    n = rng.choice([1, 2, 3, 4])
    nE = rng.choice([1, 2, 3])
    check = sorted(rng.sample(range(nE), rng.choice([nE, nE, max(nE - 1, 0)])))
    t = rng.randrange(-n, n)
    L = rng.choice([0, 1, 2, 3, 4, 5])
    alpha = ['same', 'istep', 'istep', 'raise', 'warn', 'keep'] if dt == 'int' else \
        ['close', 'same', 'edge', 'far', 'one', 'nan', 'pinf', 'ninf', 'zero', 'zero', 'raise', 'warn']
    seq = [rng.choice(alpha) for _ in range(L)]
    M = rng.choice([0, 1, 2, 3, L, L + 1])
    o = mkopts(rng.choice([0, 0, 1, 2, M]), M, rng.choice([0, 0, 0, -1, 1]), rng.choice(['raise', 'ignore']),
               rng.choice(ERRORS), rng.choice([True, False]))
    vals = [[float(rng.choice([0, 1, -2, 3, 100, i + p])) for p in range(n)] for i in range(nE)]
    if dt in ('float32', 'object') and rng.random() < 0.2:       # pre-existing non-finite value (float32 holds them just as float64)
        vals[rng.randrange(nE)][rng.randrange(n)] = rng.choice([float('nan'), float('inf'), float('-inf')])
    pos = t + n if t < 0 else t
    case = base_case(n, nE, check, t, o, {pos: seq}, vals=vals, tol=rng.choice([0.5, 0.25, 1.0]) if dt == 'int' else sc.TOL)
    case['dtype'] = dt
    case['span_kind'] = rng.choice(sc.SPAN_KINDS)
    return sc.vary_implementation_side(case, rng)


def bigint_check(rng, rep):
    """Integer-dtype models at magnitudes where float64 can no longer tell n from n + 1 (|value| >= 2**53).  The values
    are exact in the model's own dtype, a move of 1 is a move of 1 >= tol, so convergence must be judged exactly.
    Outside the Lean model (whose check vectors are floats): judged here against exact integer arithmetic."""
    base = rng.choice([0, 1000, 2 ** 53, -(2 ** 53), 2 ** 60, -(2 ** 60), 2 ** 62])
    K = rng.choice([0, 1, 2, 5])
    n, nE = 3, rng.choice([1, 2])
    t = rng.choice([0, 1, 2, -1, -3])
    pos = t + n if t < 0 else t
    M = rng.choice([1, 2, K, K + 1, K + 3, 8])
    m_ = rng.choice([0, 0, 1, 2])
    if M < 1 or m_ > M:
        return
    o = mkopts(m_, M, 0, rng.choice(['raise', 'ignore']), 'raise', True)
    seq = [{'k': 'iadd', 'd': rng.choice([1, 1, -1])} for _ in range(K)] + [{'k': 'keep'}] * 3
    case = {'n': n, 'nE': nE, 'check': list(range(nE)), 'tol': bits(rng.choice([0.25, 0.5, 1.0])),
            'script': [seq if p == pos else [] for p in range(n)], 'before': [], 'after': [],
            'vals': [[bits(0.0)] * n for _ in range(nE)], 'status': '-' * n, 'iters': [-1] * n, 'opts': o, 't': t,
            'dtype': 'int', 'names': rng.choice(sc.NAME_STYLES), 'prov': rng.choice(sc.PROVENANCES)}
    m = sc.build_instance(case)
    for nm in sc.names_of(case):
        m.__dict__['_' + nm][:] = base
    kw = sc.opts_kwargs(o, case['tol'])
    with warnings.catch_warnings():
        warnings.simplefilter('ignore')
        try:
            r = m.solve_t(t, **kw)
            tag = 'ret:T' if r else 'ret:F'
        except Exception as e:  # noqa: BLE001
            tag = sc.exc_name(e)
    # exact expectation: pass k moves iff k <= K; the first pass k >= max(1, min_iter) without movement is accepted
    first_still = K + 1
    k_acc = max(first_still, m_, 1)
    if k_acc <= M:
        want = ('ret:T', '.', k_acc, base + sum(a['d'] for a in seq[:K]))
    else:
        want = ('NonConvergenceError' if o['failures'] == 'raise' else 'ret:F', 'F', M, base + sum(a['d'] for a in seq[:min(K, M)]))
    got = (tag, str(m.status[pos]), int(m.iterations[pos]), int(m.__dict__['_' + sc.names_of(case)[0]][pos]))
    rep.dist['bigint:' + ('ok' if got == want else 'WRONG') + (':large' if abs(base) >= 2 ** 53 else ':small')] += 1
    rep.case(('bigint', base, K, M, m_, t, nE), nontrivial=True)
    if got != want:
        rep.violate('int-dtype-convergence', f'int model at {base}: {K} unit steps then still, min_iter={m_} max_iter={M}: '
                    f'got {got}, exact arithmetic gives {want}', {'bigint': [base, K, M, m_, t, nE], 'case': case})


def scale_case(rng, big):
    """Sizes a small test never reaches: hundreds or thousands of periods, dozens of variables, thousands of passes."""
    n = rng.choice([300, 2500] if big else [120, 400])
    nE = rng.choice([12, 40] if big else [6, 15])
    check = list(range(nE))
    t = rng.choice([0, 1, n // 2, n - 1, -1, -n, -(n // 3)])
    K = rng.choice([0, 1, 7, 60, 1500 if big else 150])
    seq = ['far'] * K + [rng.choice(['same', 'close', 'edge', 'one'])] * rng.choice([0, 1, 2])
    M = rng.choice([K, K + 1, K + 2, max(K - 1, 0), 5000])
    o = mkopts(rng.choice([0, 0, 2, K]), M, rng.choice([0, 0, -1, 1, n - 1, -(n - 1)]), rng.choice(['raise', 'ignore']),
               rng.choice(['raise', 'skip', 'ignore', 'replace']), rng.choice([True, False]))
    o['min_iter'] = min(o['min_iter'], M)
    vals = [[float((i * 7 + p) % 13) for p in range(n)] for i in range(nE)]
    pos = t + n if t < 0 else t
    case = base_case(n, nE, check, t, o, {pos: seq}, vals=vals)
    case['span_kind'] = rng.choice(sc.SPAN_KINDS)
    return sc.vary_implementation_side(case, rng)


def random_case(rng):
    n = rng.choice([1, 2, 3, 3, 4, 5])
    nE = rng.choice([1, 2, 2, 3])
    check = sorted(rng.sample(range(nE), rng.choice([nE, nE, max(nE - 1, 0), 0])))
    t = rng.randrange(-n, n)
    L = rng.choice([0, 1, 2, 3, 4, 5])
    alpha = rng.choice([ALPHA, ['close', 'same', 'edge', 'far', 'one'], ['far', 'close', 'same', 'keep'],
                        ['pinf', 'ninf', 'allinf', 'allninf', 'nan', 'zero', 'zero', 'same', 'close'],
                        ['huge', 'huge', 'far', 'same', 'close']])
    seq = [rng.choice(alpha) for _ in range(L)]
    M = rng.choice([-1, 0, 1, 2, 3, L, L + 1, L + 2])
    m_ = rng.choice([-2, 0, 0, 1, 2, M, M + 1])
    off = rng.choice([0, 0, 0, -1, 1, -2, 2, n, -n])
    o = mkopts(m_, M, off, rng.choice(['raise', 'ignore', 'other']), rng.choice(ERRORS), rng.choice([True, False]))
    pool = [0.0, 1.0, -2.5, 3.25, 100.0] + ([1.0e308, 1.0e308, -1.0e308] if rng.random() < 0.15 else [])
    vals = [[float(rng.choice(pool + [i + p])) for p in range(n)] for i in range(nE)]
    if rng.random() < 0.15:  # pre-existing non-finite value somewhere
        vals[rng.randrange(nE)][rng.randrange(n)] = rng.choice([float('nan'), float('inf'), float('-inf')])
    status = ''.join(rng.choice('-.FES') for _ in range(n)) if rng.random() < 0.5 else '-' * n
    iters = [rng.choice([-1, 0, 3, 7]) for _ in range(n)] if rng.random() < 0.5 else [-1] * n
    pos = t + n if t < 0 else t

    def hook():
        r = rng.random()
        if r < 0.7:
            return []
        acts = [{'k': 'keep'} for _ in range(n)]
        kind = rng.choice(['set', 'raise', 'warn'])
        acts[pos] = {'k': kind, 'v': [bits(rng.choice([0.0, 5.0, 7.5])) for _ in range(nE)], 'm': rng.randrange(nE + 1)}
        return acts
    tol = rng.choice([sc.TOL, sc.TOL, 1e-10, 1.0, 0.0])
    case = base_case(n, nE, check, t, o, {pos: seq}, before=hook(), after=hook(), vals=vals, status=status,
                     iters=iters, tol=tol)
    case['span_kind'] = rng.choice(sc.SPAN_KINDS)     # used by the solve_period stream only
    return sc.vary_implementation_side(case, rng)


# ---- natural systems built by the parser -----------------------------------------------------------------------

def natural_case(rng):
    """Random 2-equation linear system (contractive / divergent / oscillating); returns (case, impl canonical)."""
    regime = rng.choice(['contractive', 'divergent', 'oscillating', 'slow'])
    a = {'contractive': rng.uniform(0.05, 0.6), 'divergent': rng.uniform(1.1, 2.5),
         'oscillating': -rng.uniform(0.3, 1.3), 'slow': rng.uniform(0.9, 0.999)}[regime]
    b = rng.uniform(-0.9, 0.9)
    c = rng.uniform(-2, 2)
    script = f'Y = {a:.12f} * Z + {c:.12f} + 0.5 * Y[-1]\nZ = {b:.12f} * Y + X'
    Model = fsic.build_model(fsic.parse_model(script))
    n = 4

    class Rec(Model):
        def solve_t_before(self, t, **kw):
            self.__dict__['calls'].append('b')
            super().solve_t_before(t, **kw)

        def solve_t_after(self, t, *, iteration=None, **kw):
            self.__dict__['calls'].append(f'a{iteration}')
            super().solve_t_after(t, iteration=iteration, **kw)

        def _evaluate(self, t, *, iteration=None, **kw):
            self.__dict__['calls'].append(f'e{iteration}')
            super()._evaluate(t, iteration=iteration, **kw)
            self.__dict__['rec'].append([float(self._Y[t]), float(self._Z[t])])

    m = Rec(range(n), X=rng.uniform(-1, 1))
    m.__dict__['calls'] = []
    m.__dict__['rec'] = []
    m.Y[:] = [rng.uniform(-1, 1) for _ in range(n)]
    m.Z[:] = [rng.uniform(-1, 1) for _ in range(n)]
    t = rng.choice([1, 2, 3, -1, -2])
    tol = rng.choice([1e-10, 1e-6, 1e-3, 0.25])
    o = mkopts(rng.choice([0, 0, 2, 5]), rng.choice([1, 3, 10, 40, 100]), rng.choice([0, 0, -1]),
               rng.choice(['raise', 'ignore']), rng.choice(['raise', 'ignore', 'replace', 'skip']),
               rng.choice([True, False]))
    if o['min_iter'] > o['max_iter']:
        o['min_iter'] = 0
    vals0 = [[float(x) for x in m.Y], [float(x) for x in m.Z]]
    with warnings.catch_warnings():
        warnings.simplefilter('ignore')
        try:
            r = m.solve_t(t, **sc.opts_kwargs(o, bits(tol)))
            tag = 'ret:T' if r else 'ret:F'
        except Exception as e:  # noqa: BLE001
            tag = sc.exc_name(e)
    pos = t + n if t < 0 else t
    case = {
        'n': n, 'nE': 2, 'check': [0, 1], 'tol': bits(tol),
        'script': [[{'k': 'set', 'v': [bits(v[0]), bits(v[1])]} for v in m.rec] if p == pos else [] for p in range(n)],
        'before': [], 'after': [], 'vals': [[bits(x) for x in row] for row in vals0],
        'status': '-' * n, 'iters': [-1] * n, 'opts': o, 't': t, 'source': script, 'regime': regime,
    }
    st = ''.join(str(x) for x in m.status)
    it = ','.join(str(int(x)) for x in m.iterations)
    vals = ';'.join(','.join(str(bits(x)) for x in arr) for arr in (m.Y, m.Z))
    impl = f'{tag}|{st}|{it}|{",".join(m.calls)}|{vals}'
    return case, impl, m.rec, vals0


# ---- oracle: the property restated against the real code --------------------------------------------------------

def predicted_vectors(case):
    """Check vectors the script prescribes for passes 1..max_iter of period t (None when outside the regime the
    property speaks about: a raising / warning / non-finite pass, or hooks that do something)."""
    n, nE, t, o = case['n'], case['nE'], case['t'], case['opts']
    pos = t + n if t < 0 else t
    src = pos + o['offset'] if o['offset'] else pos
    for hooks in (case['before'], case['after']):
        if pos < len(hooks) and hooks[pos]['k'] != 'keep':
            return None
    cur = [unbits(case['vals'][i][src]) for i in range(nE)]
    vecs = [[cur[i] for i in case['check']]]
    row = case['script'][pos] if pos < len(case['script']) else []
    for k in range(1, max(o['max_iter'], 0) + 1):
        act = row[k - 1] if k - 1 < len(row) else {'k': 'keep'}
        if act['k'] == 'set':
            cur = [unbits(b) for b in act['v']][:nE] + cur[len(act['v']):]
        elif act['k'] != 'keep':
            return None
        vecs.append([cur[i] for i in case['check']])
    if not all(np.isfinite(x) for v in vecs for x in v):
        return None
    return vecs


def oracle(case, m, tag, rep, calls=None, final=None):
    """`m` is the solved instance (or None when `final` = (status str, iters list, vals rows) is given)."""
    n, nE, t, o = case['n'], case['nE'], case['t'], case['opts']
    pos = t + n if t < 0 else t
    if final is None:
        st = ''.join(str(x) for x in m.status)
        it = [int(x) for x in m.iterations]
        vals = [[bits(x) for x in m.__dict__['_' + nm]] for nm in sc.names_of(case)]
        calls = list(m.calls)
    else:
        st, it, vals = final
    unchanged = (st == case['status'] and it == list(case['iters']) and vals == case['vals'])
    # rejected up front
    if o['min_iter'] > o['max_iter']:
        if tag != 'ValueError' or not unchanged or calls:
            rep.violate('minmax-not-rejected', f'min_iter > max_iter: got {tag}, unchanged={unchanged}, calls={calls}', case)
        return 'rejected'
    if o['offset'] and not (0 <= pos + o['offset'] < n):
        if tag != 'IndexError' or not unchanged or calls:
            rep.violate('offset-oob-not-rejected', f'offset outside span: got {tag}, unchanged={unchanged}, calls={calls}', case)
        return 'rejected'
    if o['offset'] and m is not None and m.seen_at_before is not None:
        want = [unbits(case['vals'][i][pos + o['offset']]) for i in range(nE)]
        got = m.seen_at_before
        if [bits(x) for x in want] != [bits(x) for x in got]:
            rep.violate('offset-copy-wrong', f'pre-hook saw {got}, expected values of period t+offset {want}', case)
    vecs = predicted_vectors(case)
    if vecs is None:
        return 'outside-regime'
    if o['errors'] == 'raise' and False:
        pass
    tol = unbits(case['tol'])
    M = max(o['max_iter'], 0)
    k0 = None
    for k in range(max(1, o['min_iter']), M + 1):
        if all(abs(a - b) < tol for a, b in zip(vecs[k], vecs[k - 1])):
            k0 = k
            break
    # status/iterations elsewhere untouched
    for p in range(n):
        if p != pos and (st[p] != case['status'][p] or it[p] != case['iters'][p]):
            rep.violate('stamp-other-period', f'status/iterations changed at position {p} while solving {pos}', case)
    if k0 is not None:
        want_calls = ['b'] + [f'e{k}' for k in range(1, k0 + 1)] + [f'a{k0}']
        if not (tag == 'ret:T' and st[pos] == '.' and it[pos] == k0 and calls == want_calls):
            rep.violate('converge-mismatch',
                        f'first accepted pass is {k0}: expected ret True, status ".", iterations {k0}, calls {want_calls}; '
                        f'got {tag}, {st[pos]!r}, {it[pos]}, {calls}', case)
        return 'converged'
    want_tag = 'NonConvergenceError' if o['failures'] == 'raise' else 'ret:F'
    want_calls = ['b'] + [f'e{k}' for k in range(1, M + 1)]
    if not (tag == want_tag and st[pos] == 'F' and it[pos] == M and calls == want_calls):
        rep.violate('fail-mismatch',
                    f'no accepted pass: expected {want_tag}, status "F", iterations {M}, calls {want_calls}; '
                    f'got {tag}, {st[pos]!r}, {it[pos]}, {calls}', case)
    return 'failed'


def history_twin(case, alt_status, alt_iters, impl_s, rep):
    """Same values, same call, different earlier record in status / iterations: values, hook calls, result and the
    stamp left at the period must be the same; every other period's record stays as it was (in both)."""
    n = case['n']
    twin = dict(case, status=alt_status, iters=alt_iters)
    s2, m2, tag2 = sc.run_impl_solve_t(twin)
    a, b = impl_s.split('|'), s2.split('|')
    pos = case['t'] + n if case['t'] < 0 else case['t']
    st_a, st_b = a[1], b[1]
    it_a, it_b = a[2].split(','), b[2].split(',')
    same = a[0] == b[0] and a[3:] == b[3:]      # result, calls, values
    stamped_a = st_a[pos] != case['status'][pos] or int(it_a[pos]) != case['iters'][pos]
    stamped_b = st_b[pos] != alt_status[pos] or int(it_b[pos]) != alt_iters[pos]
    if stamped_a and stamped_b:
        same = same and st_a[pos] == st_b[pos] and it_a[pos] == it_b[pos]
    others = all(st_a[j] == case['status'][j] and int(it_a[j]) == case['iters'][j] and
                 st_b[j] == alt_status[j] and int(it_b[j]) == alt_iters[j] for j in range(n) if j != pos)
    rep.dist['history-twin:' + ('same' if same and others else 'DIFFERENT')] += 1
    if not (same and others):
        rep.violate('history-dependent',
                    f'same values, same call, different earlier record: {impl_s[:120]} vs {s2[:120]}',
                    {'case': case, 'twin_status': alt_status, 'twin_iters': alt_iters})


def check_cases(ctx, rep, cases, label):
    """Run impl + oracle on every case, then the model on all of them in one driver batch."""
    impl_out = []
    for case in cases:
        s, m, tag = sc.run_impl_solve_t(case)
        impl_out.append(s)
        regime = oracle(case, m, tag, rep)
        rep.dist[f'{label}:{regime}'] += 1
        rep.dist['result:' + tag] += 1
        key = json.dumps(case, sort_keys=True)
        rep.case(key, nontrivial=bool(m.passes), sample={'t': case['t'], 'opts': case['opts'],
                                                          'script_t': [a['k'] for a in case['script'][case['t']]],
                                                          'impl': s} if rep.evaluations % 997 == 0 else None)
    # the record of earlier solves must not feed back: the same call on a twin whose status / iterations differ
    for i, case in enumerate(cases):
        if i % 3:
            continue
        n = case['n']
        alt_status = ''.join('.FES-'[(i + j) % 5] for j in range(n))
        alt_iters = [(-1, 0, 5, 73)[(i + 2 * j) % 4] for j in range(n)]
        if alt_status == case['status'] and alt_iters == list(case['iters']):
            continue
        history_twin(case, alt_status, alt_iters, impl_out[i], rep)
    # the same call again (and again) on the state the previous call left — also after a call that raised: every 5th case
    rp_cases, rp_impl = [], []
    for i, case in enumerate(cases):
        if i % 5 != 2:
            continue
        repeat = 2 + (i // 5) % 2
        m = sc.build_instance(case)
        kw = sc.opts_kwargs(case['opts'], case['tol'], case.get('argform', 'plain'))
        tags = []
        with warnings.catch_warnings():
            warnings.simplefilter('ignore')
            for _ in range(repeat):
                try:
                    r = m.solve_t(sc.t_arg(case), **kw)
                    tags.append('ret:T' if r else 'ret:F')
                except Exception as e:  # noqa: BLE001
                    tags.append(sc.exc_name(e))
        w = sc.world_str(m, case['nE']).split('|')
        rp_impl.append(','.join(tags) + '|' + w[0] + '|' + w[1] + '|' + w[3] + '|')
        rp_cases.append(dict(case, traced=[], on=False, repeat=repeat, reset=False))
        rep.dist[f'{label}:repeat{repeat}:' + '>'.join(t.split(':')[0] for t in tags)] += 1
        rep.case(('repeat', json.dumps(case, sort_keys=True)), nontrivial=bool(m.passes))
    # solve_period(label) must behave exactly like solve_t(position of label): every 4th case also goes through it
    sp_cases, sp_impl = [], []
    for i, case in enumerate(cases):
        if i % 4:
            continue
        pos = case['t'] + case['n'] if case['t'] < 0 else case['t']
        pc = dict(case, t=pos)
        s, m, tag = sc.run_impl_solve_period(pc)
        regime = oracle(pc, m, tag, rep)
        rep.dist[f'{label}:solve_period:{regime}'] += 1
        rep.case(('solve_period', json.dumps(pc, sort_keys=True)), nontrivial=bool(m.passes))
        sp_cases.append(dict(pc, loc=pos))
        sp_impl.append(s)
    if not ctx.oracle_only:
        outs = ctx.drive([sc.line('solve_t', c) for c in cases])
        for case, a, b in zip(cases, outs, impl_out):
            if a != b:
                rep.disagree('solve_t: model != impl', case, a, b)
        outs = ctx.drive([sc.line('traced_solve_t', c) for c in rp_cases])
        for case, a, b in zip(rp_cases, outs, rp_impl):
            if a != b:
                rep.disagree('repeated solve_t: model != impl', case, a, b)
        outs = ctx.drive([sc.line('solve_period', c) for c in sp_cases])
        for case, a, b in zip(sp_cases, outs, sp_impl):
            if a != b:
                rep.disagree('solve_period: model != impl', case, a, b)


def _work(ctx, rep):
    """One worker's share (ctx.part of ctx.parts): a slice of the exhaustive core + its own random streams."""
    L = 2 if ctx.tier == 'quick' else 4
    n_random = (3000 if ctx.tier == 'quick' else 500000) * ctx.scale // ctx.parts
    n_natural = (300 if ctx.tier == 'quick' else 40000) * ctx.scale // ctx.parts
    buf, ncore = [], 0
    for i, case in enumerate(core_cases(L)):
        if i % ctx.parts != ctx.part:
            continue
        buf.append(case)
        ncore += 1
        if len(buf) >= 5000:
            check_cases(ctx, rep, buf, 'core')
            buf = []
    if buf:
        check_cases(ctx, rep, buf, 'core')
    rng = ctx.sub_rng('random')
    for chunk in range(0, n_random, 5000):
        check_cases(ctx, rep, [random_case(rng) for _ in range(min(5000, n_random - chunk))], 'random')
    rng = ctx.sub_rng('defaults')
    check_cases(ctx, rep, [default_case(rng) for _ in range((600 if ctx.tier == 'quick' else 60000) * ctx.scale // ctx.parts)], 'defaults')
    rng = ctx.sub_rng('dtype')
    n_dtype = (1200 if ctx.tier == 'quick' else 150000) * ctx.scale // ctx.parts
    for chunk in range(0, n_dtype, 5000):
        check_cases(ctx, rep, [dtype_case(rng) for _ in range(min(5000, n_dtype - chunk))], 'dtype')
    rng = ctx.sub_rng('bigint')
    for _ in range((400 if ctx.tier == 'quick' else 40000) * ctx.scale // ctx.parts):
        bigint_check(rng, rep)
    rng = ctx.sub_rng('scale')
    check_cases(ctx, rep, [scale_case(rng, ctx.tier != 'quick') for _ in range((12 if ctx.tier == 'quick' else 160) * ctx.scale // ctx.parts)], 'scale')
    # natural systems
    rng = ctx.sub_rng('natural')
    nat = [natural_case(rng) for _ in range(n_natural)]
    for case, impl, rec, vals0 in nat:
        parts = impl.split('|')
        final = (parts[1], [int(x) for x in parts[2].split(',')], [[int(b) for b in r.split(',')] for r in parts[4].split(';')])
        calls = parts[3].split(',') if parts[3] else []
        regime = oracle_natural(case, parts[0], final, calls, rec, rep)
        rep.dist['natural:' + case['regime'] + ':' + regime] += 1
        rep.case(json.dumps(case, sort_keys=True), nontrivial=True,
                 sample={'source': case['source'], 'opts': case['opts'], 't': case['t'], 'impl': impl[:120]}
                 if rep.evaluations % 101 == 0 else None)
    if not ctx.oracle_only:
        outs = ctx.drive([sc.line('solve_t', {k: v for k, v in c.items() if k not in ('source', 'regime')}) for c, *_ in nat])
        for (case, impl, *_), a in zip(nat, outs):
            if a != impl:
                rep.disagree('solve_t (parser-built system, recorded vectors): model != impl', case, a, impl)
    rep.notes.append(f'part {ctx.part}/{ctx.parts}: core lattice L={L}: {ncore} cases; random {n_random}; natural systems {n_natural}')


def run(ctx, rep):
    import framework
    framework.parallel(_work, ctx, rep, parts=(1 if ctx.tier == 'quick' else ctx.workers))


def oracle_natural(case, tag, final, calls, rec, rep):
    """Property restated over the vectors recorded from the real model (finite regime only)."""
    n, t, o = case['n'], case['t'], case['opts']
    pos = t + n if t < 0 else t
    src = pos + o['offset']
    v0 = [unbits(case['vals'][i][src]) for i in range(2)]
    vecs = [v0] + rec
    if not all(np.isfinite(x) for v in vecs for x in v):
        return 'outside-regime'
    tol = unbits(case['tol'])
    st, it, _ = final
    K = len(rec)
    good = [k for k in range(max(1, o['min_iter']), K + 1)
            if all(abs(a - b) < tol for a, b in zip(vecs[k], vecs[k - 1]))]
    if good:
        k0 = good[0]
        if not (K == k0 and tag == 'ret:T' and st[pos] == '.' and it[pos] == k0 and calls[-1:] == [f'a{k0}']):
            rep.violate('converge-mismatch', f'natural system: first accepted pass {k0}, ran {K} passes, got {tag} '
                        f'{st[pos]!r} {it[pos]}', case)
        return 'converged'
    want = 'NonConvergenceError' if o['failures'] == 'raise' else 'ret:F'
    if not (K == max(o['max_iter'], 0) and tag == want and st[pos] == 'F' and it[pos] == K
            and not any(c.startswith('a') for c in calls)):
        rep.violate('fail-mismatch', f'natural system: no accepted pass in {K} passes (max_iter {o["max_iter"]}), '
                    f'got {tag} {st[pos]!r} {it[pos]}', case)
    return 'failed'


def replay(ctx, rep, case):
    if 'bigint' in case:
        import random as _r
        for sd in range(400):       # the stream is cheap: re-run it (the stored tuple names the failing shape)
            bigint_check(_r.Random(sd), rep)
        return
    if 'repeat' in case:
        check_cases(ctx, rep, [case] * 5, 'replay')      # position 2 of 5 goes through the repeat stream
        return
    if 'twin_status' in case:
        s, m, tag = sc.run_impl_solve_t(case['case'])
        print('  impl :', s)
        history_twin(case['case'], case['twin_status'], case['twin_iters'], s, rep)
        return
    if 'loc' in case:
        s, m, tag = sc.run_impl_solve_period(case)
        oracle(case, m, tag, rep)
        print('  impl (solve_period):', s)
        return
    s, m, tag = sc.run_impl_solve_t(case)
    oracle(case, m, tag, rep)
    print('  impl :', s)
    try:
        print('  model:', ctx.drive([sc.line('solve_t', {k: v for k, v in case.items() if k not in ('source', 'regime')})])[0])
    except Exception as e:  # noqa: BLE001
        print('  model: <driver unavailable>', e)
