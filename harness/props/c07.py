"""C07 — the Fortran back-end computes what the Python back-end computes."""
import json, multiprocessing, os, re, shutil, struct, tempfile, traceback, warnings

import numpy as np

import fsic
import fsic.fortran
from fsic.exceptions import FortranEngineError, NonConvergenceError, SolutionError

import fortran_ctypes as fc
import fortran_gen as fg

ID = 'C07'
LEAN_MODULE = 'Proofs.C07'
THEOREMS = ['Fsic.C07.' + n for n in [
    'fortran_numbering', 'fortran_numbers_distinct', 'fortran_index_rewrite', 'rewrite_expression_text',
    'fortran_index_rewrite_cell', 'kind_safe_agree', 'kind_safe_assign_agree', 'full_agree_false_at_half',
    'full_agree_false_at_tenth', 'evaluate_agree', 'fortran_loop_eq_python_loop', 'fortran_solveT_eq_python',
    'fortran_check_rows_aligned', 'fortran_solve_eq_fold', 'fortran_solve_eq_python_solveList',
    'fortran_solve_eq_python_solve', 'fortran_solve_frame', 'fortran_later_periods_untouched',
    'evaluate_frame', 'offset_copy_frame', 'wrapper_returns_engine_block', 'wEvaluate_returns_engine_block',
    'error_codes_consistent']]
RULE = ('programs from an own grammar (1-6 equations, shared variables, parameters {a}, errors <e>, lags/leads up to 3, '
        'left-hand sides that carry a lag/lead of their own (H[1] = ..., R[-1] = ...), '
        'integer and decimal literals, + - * / ** unary minus parentheses exp log abs, max and min with two to four arguments, long sums over dozens of '
        'variables that need continuation lines) plus a fixed list of designed programs (convergence exactly at tol, '
        'offset copies, each known defect); per program random finite data and a sample of the call lattice: '
        '_evaluate(t), solve_t(t, min_iter, max_iter, tol, offset, failures, errors), solve_period(label, ...), '
        'solve(start, end, ...), always comparing the whole value matrix, with '
        'positive/negative/infeasible/out-of-range t; operation HISTORIES (2-5 steps on the same pair of instances: solve '
        'then solve with too few iterations / an out-of-span offset / failures ignore-then-raise, solve_t then solve, '
        'copy() between calls; the instance dtype float32 / int / object-of-floats on a sample of the calls of every program '
        '(incl. a pre-existing NaN under errors=raise); full state compared after every step and every step tied to the model from the record '
        'the previous step left); every program also rendered under other script layouts (harness/gen_scripts.py: '
        'wrapped multi-line equations with blank/comment lines inside, comments, spacing variants, random layouts): must '
        'build, give the same symbols, Fortran text made only of comments / predicted statements / continuations, compile, '
        'and give bit-identical results to the plain layout.  distinct = distinct (script, data, call); non-trivial = the '
        'Fortran module compiled and the call evaluated at least one equation')
TRUSTED = ['gfortran 12 (-O0) and what its generated code computes in floating point; libm (exp, log, pow)',
           'harness/fortran_ctypes.py standing in for the f2py extension module (same call signatures, column-major '
           'copies, scalars by reference)',
           'NumPy float64 scalar arithmetic is IEEE-754 double (mirrored by Lean Float in the driver instance); '
           'gfortran real(4) arithmetic is IEEE-754 single (mirrored by Lean Float32)']
ASSUMPTIONS = ['the theorems are about float64 storage (what crosses to Fortran); instances of dtype object-of-floats are '
               'required to behave identically, dtype int / float32 identically up to the open finding dtype-rounds-once',
               'values stay finite (the property text); non-finite data is used only to tie the model of the error-code '
               'paths to the compiled template, never for the property oracle',
               'documented option strings only: failures in {raise, ignore}, errors in {raise, skip, ignore, replace}',
               'non-empty span of integer labels 0..n-1; -n <= t < n except where stated']

META = {
    "text": "PARTIAL. Proved in Lean for the model M5 of fsic/fortran.py (as repaired by c07-fix1..4): the Fortran numbering is 1 + the position in the Python class's NAMES; the regex rewrite turns NAME[t+k] into solved_values(i, index+k) (character-level scanner; for whole rendered equations the rewritten text is the renumbered tree) and with index = t+1 that is the same storage cell for every offset; the convergence rows the wrapper passes (names.index(x)+1) are the cells Python's check reads; for every expression satisfying the decidable predicate KindSafe and every interpretation of the real operators (two real kinds with a widening map) the Fortran denotation of the rewritten expression equals the Python denotation, hence a whole evaluate pass agrees; on finite data the template's solve_t loop equals M1's Python loop, the whole FortranEngine.solve_t equals BaseModel.solve_t (world and result, every option set with documented strings incl. max_iter<=0 and infeasible periods), the template's solve is a fold of solve_t with early exit, FortranEngine.solve equals SolverMixin.solve (period loop, start/end resolution), and whatever the engine returns the wrapper's solve writes status/iterations only at the positions handed over and at none behind the entry that raises (records of earlier calls survive); the error codes the wrapper dispatches on are the integers declared in the template (decide over reflected tables). The statement about expressions without KindSafe is FALSE of the current code and its negation is proved at 1/2 (integer division) and 0.1 (single-precision literal). NOT covered by the proof: what gfortran's generated code computes in floating point, libm (exp/log/pow and real**integer agree only to rounding), and the ctypes shim that stands in for f2py; these are exercised only by the differential check (compiled module vs Python class on generated programs and data).",
    "design_ref": "DESIGN.md §5 M5, §6 C07, §7 row 16",
    "note": "Trusted: Lean kernel; axioms propext/Classical.choice/Quot.sound; gfortran 12, libm, the gfortran+ctypes shim replacing f2py (f2py cannot build here); the correspondence harness, which ties the model to the code on generated programs only. Values are compared bit-exactly where only + - * / on doubles are involved, within 4 ulp for a single libm result and 1e-12 relative to max(1,|v|) where libm results chain within a pass. Open known findings: int-division, int-power-negative-exponent, single-precision-literal, single-precision-arithmetic, int-arg-intrinsic-compile, infeasible-period-evaluate. Fixed (a recurrence is a new violation): convergence-variables-zero-based, max-iter-zero-engine-error, infeasible-period-mismatch, solve-continues-after-offset-error.",
    "technique": "Lean 4 proof (structural induction on expressions, on the iteration fuel and on the period list; decide over reflected code tables) + differential check of gfortran-compiled modules against the Python class"
}

TOL_ULP = 4
# /repo commit 82074b6 made BaseModel.solve_t reject periods without enough lags/leads (IndexError); M1
# (FsicModel/Solver.lean) has that test since /verif 72aadbd.  With False the Python-side model tie would skip calls
# that address such a period.
M1_HAS_FEASIBILITY_TEST = True


# ---------------------------------------------------------------------------------------------------------------
# floats as bit patterns

def bits(x):
    return struct.unpack('<Q', struct.pack('<d', float(x)))[0]


def unbits(b):
    return struct.unpack('<d', struct.pack('<Q', int(b)))[0]


def canon_bits(b):
    """-0.0 and +0.0 are one value; every NaN is one value (payload and sign are not specified by either language)."""
    x = unbits(b)
    if x == 0.0:
        return 0
    if x != x:
        return 0x7ff8000000000000
    return int(b)


def ordered(b):
    b = int(b)
    return b if b < (1 << 63) else (1 << 63) - b


def ulp_dist(a, b):
    return abs(ordered(canon_bits(a)) - ordered(canon_bits(b)))


# ---------------------------------------------------------------------------------------------------------------
# building the two classes of one program

def symbols_of(script):
    return fsic.parse_model(script)


def name_lists(symbols):
    T = fsic.parser.Type
    return ([s.name for s in symbols if s.type == T.ENDOGENOUS], [s.name for s in symbols if s.type == T.EXOGENOUS],
            [s.name for s in symbols if s.type == T.PARAMETER], [s.name for s in symbols if s.type == T.ERROR])


class CodegenError(Exception):
    """build_fortran_definition raised on symbols the parser produced."""


def build_classes(prog, workdir):
    """(symbols, PythonClass, FortranClass or None, fortran text, compile log or None)."""
    symbols = symbols_of(prog['script'])
    P = fsic.build_model(symbols)
    try:
        text = fsic.fortran.build_fortran_definition(symbols)
    except Exception as e:  # noqa: BLE001
        raise CodegenError(f'{type(e).__name__}: {e}') from e
    try:
        eng = fc.build_engine(text, workdir)
    except fc.CompileError as e:
        return symbols, P, None, text, e.log

    class F(fsic.fortran.FortranEngine, P):
        ENGINE = eng
    return symbols, P, F, text, None


def exc_tag(e):
    for cls, name in ((NonConvergenceError, 'NonConvergenceError'), (FortranEngineError, 'FortranEngineError'),
                      (SolutionError, 'SolutionError')):
        if isinstance(e, cls):
            return name
    for cls in (ValueError, IndexError, KeyError):
        if type(e) is cls:
            return cls.__name__
    return 'Other(' + type(e).__name__ + ')'


DTYPES = {'float64': float, 'float32': np.float32, 'int': int, 'object': object}


def make_instance(cls, n, data, dtype=None):
    m = cls(list(range(n))) if dtype in (None, 'float64') else cls(list(range(n)), dtype=DTYPES[dtype])
    for name in m.names:
        m.__dict__['_' + name][:] = [unbits(b) for b in data[name]]
    return m


def snapshot(m, tag):
    return {'tag': tag, 'status': ''.join(str(x) for x in m.status), 'iters': [int(x) for x in m.iterations],
            'vals': [[bits(x) for x in m.__dict__['_' + name]] for name in m.names]}


def kwargs_of(o):
    return dict(min_iter=o['min_iter'], max_iter=o['max_iter'], tol=unbits(o['tol']), offset=o['offset'],
                failures=o['failures'], errors=o['errors'])


def do_call(m, call):
    """Run one call on the instance; returns the result tag."""
    with warnings.catch_warnings():
        warnings.simplefilter('ignore')
        try:
            if call['call'] == 'evaluate':
                m._evaluate(call['t'])
                return 'ok'
            if call['call'] == 'solve_t':
                r = m.solve_t(call['t'], **kwargs_of(call['opts']))
                return 'ret:T' if r else 'ret:F'
            if call['call'] == 'solve_period':   # the span is range(n): the label of a period is its position
                r = m.solve_period(call['t'], **kwargs_of(call['opts']))
                return 'ret:T' if r else 'ret:F'
            labels, idx, flags = m.solve(start=call.get('start'), end=call.get('end'), **kwargs_of(call['opts']))
            if list(labels) != [m.span[i] for i in idx]:
                return 'bad-labels'
            return 'ok:' + ','.join(str(int(i)) for i in idx) + ':' + ''.join('T' if f else 'F' for f in flags)
        except Exception as e:  # noqa: BLE001
            return exc_tag(e)


def run_call(cls, n, data, call, dtype=None):
    m = make_instance(cls, n, data, dtype)
    tag = do_call(m, call)
    o = snapshot(m, tag)
    if dtype not in (None, 'float64'):
        o['dtypes'] = sorted({str(m.__dict__['_' + name].dtype) for name in m.names})
    return o


def cast_once(obs, dtype):
    """The float64 observation with its values cast to the instance dtype once, at the end — what a Fortran engine
    does for an instance of a narrower dtype (values cross as float64, the iteration runs in double, the result is
    cast back on storing), where the Python class rounds / truncates on every single store."""
    def c(b):
        x = unbits(b)
        if dtype == 'float32':
            return bits(float(np.float32(x)))
        if dtype == 'int':
            return bits(float(int(x))) if np.isfinite(x) else b
        return b
    return dict(obs, vals=[[c(b) for b in row] for row in obs['vals']])


def dtype_data(data, dtype, rng):
    """Initial values the dtype can hold exactly (so both classes start from the same stored numbers)."""
    if dtype == 'int':
        return {k: [bits(float(rng.randrange(-3, 4))) for _ in row] for k, row in data.items()}
    if dtype == 'float32':
        return {k: [bits(float(np.float32(unbits(b)))) for b in row] for k, row in data.items()}
    return data


# ---- the Python class with its convergence rows shifted by one ----------------------------------------------------
# Before c07-fix1 FortranEngine passed `[self.names.index(x) for x in self.check]` (0-based) as
# `convergence_variables` while the template indexes `solved_values(convergence_variables, index)` 1-based: row i read
# variable i-1, and row 0 the storage cell before the column, i.e. the last variable of the previous period (the shim
# places a 0.0 before the block).  `twin_call` runs the *pure-Python* class with exactly that check vector; a Fortran
# result that equals the twin's but not the Python class's gets the key `convergence-variables-zero-based` (a fixed
# finding: its recurrence is reported as a new violation under that name).

def twin_call(P, n, data, call):
    m = make_instance(P, n, data)
    names = list(m.names)
    last = names[-1]

    def refresh():
        src = m.__dict__['_' + last]
        ph = np.zeros(len(src))
        ph[1:] = src[:-1]
        m.__dict__['_PH__'] = ph
    shifted = []
    for x in m.check:
        i = names.index(x)
        shifted.append(names[i - 1] if i >= 1 else 'PH__')
    m.__dict__['check'] = shifted
    refresh()
    if call['call'] != 'solve':
        tag = do_call(m, call)
        return snapshot(m, tag)
    # solve(): refresh the phantom row before every period (the previous period has just been solved)
    o = call['opts']
    with warnings.catch_warnings():
        warnings.simplefilter('ignore')
        try:
            if o['min_iter'] > o['max_iter']:
                raise ValueError
            start = call.get('start')
            end = call.get('end')
            for lab in (start, end):
                if lab is not None and not isinstance(m._locate_period_in_span(lab), int):
                    raise KeyError(lab)
            if start is None:
                start = m.span[m.lags]
            if end is None:
                end = m.span[-1 - m.leads]
            idx = list(range(m._locate_period_in_span(start), m._locate_period_in_span(end) + 1))
            flags = []
            for t in idx:
                refresh()
                flags.append(m.solve_t(t, **kwargs_of(o)))
            tag = 'ok:' + ','.join(str(i) for i in idx) + ':' + ''.join('T' if f else 'F' for f in flags)
        except Exception as e:  # noqa: BLE001
            tag = exc_tag(e)
    return snapshot(m, tag)


# ---------------------------------------------------------------------------------------------------------------
# comparison of two observations

def same_control(a, b):
    return a['tag'] == b['tag'] and a['status'] == b['status'] and a['iters'] == b['iters']


def max_ulp(a, b):
    worst = 0
    for ra, rb in zip(a['vals'], b['vals']):
        for x, y in zip(ra, rb):
            worst = max(worst, ulp_dist(x, y))
    return worst


def rel_close(a, b, rel):
    for ra, rb in zip(a['vals'], b['vals']):
        for x, y in zip(ra, rb):
            fx, fy = unbits(x), unbits(y)
            if canon_bits(x) == canon_bits(y):
                continue
            if not (np.isfinite(fx) and np.isfinite(fy)):
                return False
            if abs(fx - fy) > rel * max(abs(fx), abs(fy)) + 1e-300:
                return False
    return True


def mask_cols(obs, cols):
    """The observation with the given period columns blanked."""
    return dict(obs, vals=[[0 if i in cols else b for i, b in enumerate(row)] for row in obs['vals']])


def all_finite(obs):
    return all(np.isfinite(unbits(x)) for row in obs['vals'] for x in row)


def abs_close(a, b, eps):
    """|x - y| <= eps * max(1, |x|, |y|) for every cell: rounding differences of libm calls chained through several
    equations of one pass (a 1-ulp difference in `Z = … ** (-0.5)` is amplified by `Z ** 3` in the next equation)."""
    for ra, rb in zip(a['vals'], b['vals']):
        for x, y in zip(ra, rb):
            if canon_bits(x) == canon_bits(y):
                continue
            fx, fy = unbits(x), unbits(y)
            if not (np.isfinite(fx) and np.isfinite(fy)):
                return False
            if abs(fx - fy) > eps * max(1.0, abs(fx), abs(fy)):
                return False
    return True


def values_agree(a, b, libm, iterated):
    """bit-exact where only + - * / on doubles are involved; with libm (exp, log, pow, real**integer): 4 ulp, or — when
    several such results feed each other within one pass — 1e-12 relative to max(1, |value|); 1e-9 when libm results
    have been fed back through many passes."""
    if not libm:
        return max_ulp(a, b) == 0
    if not iterated:
        return max_ulp(a, b) <= TOL_ULP or abs_close(a, b, 1e-12)
    return rel_close(a, b, 1e-9) or abs_close(a, b, 1e-9)


def agree(a, b, libm, iterated):
    return same_control(a, b) and values_agree(a, b, libm, iterated)


# ---------------------------------------------------------------------------------------------------------------
# calls

def feasible(p, n, lags, leads):
    return lags <= p <= n - 1 - leads


def mkopts(min_iter=0, max_iter=100, tol=1e-10, offset=0, failures='raise', errors='raise'):
    return {'min_iter': min_iter, 'max_iter': max_iter, 'tol': bits(tol), 'offset': offset, 'failures': failures,
            'errors': errors}


def random_opts(rng, lags):
    max_iter = rng.choice([1, 2, 3, 5, 8, 20, 100, 100])
    min_iter = rng.choice([0, 0, 0, 0, 1, 2, min(3, max_iter), max_iter, max_iter, max_iter + 1])
    tol = rng.choice([1e-10, 1e-10, 1e-6, 1e-3, 0.25, 0.5])
    offset = rng.choice([0, 0, 0, 0, -1, -1, 1, -2, 2, -7, 7])
    return mkopts(min_iter, max_iter, tol, offset, rng.choice(['raise', 'ignore']),
                  rng.choice(['raise', 'raise', 'skip', 'ignore', 'replace']))


def random_calls(rng, n, lags, leads, budget):
    ok = [p for p in range(n) if feasible(p, n, lags, leads)]
    bad = [p for p in range(n) if not feasible(p, n, lags, leads)]
    calls = []

    def spell(p):
        return p if rng.random() < 0.6 else p - n
    for _ in range(budget['evaluate']):
        r = rng.random()
        if r < 0.75 and ok:
            calls.append({'call': 'evaluate', 't': spell(rng.choice(ok))})
        elif r < 0.9 and bad:
            calls.append({'call': 'evaluate', 't': spell(rng.choice(bad))})
        else:
            calls.append({'call': 'evaluate', 't': rng.choice([n, n + 1, -n - 1, -n - 2])})
    for _ in range(budget['solve_t']):
        r = rng.random()
        o = random_opts(rng, lags)
        if r < 0.85 and ok:
            t = spell(rng.choice(ok))
        elif r < 0.95 and bad:
            t = spell(rng.choice(bad))
        else:
            t = rng.choice([n, -n - 1])
        if rng.random() < 0.2:
            calls.append({'call': 'solve_period', 't': t if rng.random() < 0.9 or t < 0 else n + 2, 'opts': o})
        else:
            calls.append({'call': 'solve_t', 't': t, 'opts': o})
    for _ in range(budget['solve']):
        o = random_opts(rng, lags)
        c = {'call': 'solve', 'opts': o}
        r = rng.random()
        if r < 0.5:
            pass
        elif r < 0.85 and ok:
            a, b = rng.choice(ok), rng.choice(ok)
            if rng.random() < 0.85:
                a, b = min(a, b), max(a, b)
            if rng.random() < 0.7:
                c['start'] = a
            if rng.random() < 0.7:
                c['end'] = b
        elif r < 0.95:
            c['start'] = rng.choice(range(n))
            c['end'] = rng.choice(range(n))
        else:
            c['start'] = n + 3
        calls.append(c)
    return calls


def random_data(rng, names, n, style=None):
    style = style or rng.choice(['dyadic', 'uniform', 'mixed'])
    data = {}
    for name in names:
        row = []
        for _ in range(n):
            if style == 'dyadic' or (style == 'mixed' and rng.random() < 0.5):
                x = rng.randrange(-16, 17) / 8.0
            else:
                x = rng.uniform(-2.0, 2.0)
            row.append(bits(x))
        data[name] = row
    return data


def call_periods(call, n, lags, leads):
    """0-based positions the call addresses explicitly (None when t is outside the span)."""
    if call['call'] == 'solve_period':
        return [call['t']] if 0 <= call['t'] < n else None
    if call['call'] in ('evaluate', 'solve_t'):
        t = call['t']
        if not -n <= t < n:
            return None
        return [t + n if t < 0 else t]
    s = call.get('start')
    e = call.get('end')
    if (s is not None and not 0 <= s < n) or (e is not None and not 0 <= e < n):
        return None
    s = lags if s is None else s
    e = n - 1 - leads if e is None else e
    return list(range(s, e + 1))


# ---------------------------------------------------------------------------------------------------------------
# the oracle: the property restated as Fortran class vs Python class

def classify(prog, call, n, lags, leads, F, P, twin_fn):
    """None if the Fortran observation is what the property demands; otherwise (key, text).  Keys of behaviours already
    recorded in known_findings.json are returned only when the observation is *explained* by that defect."""
    libm = prog['libm'] or 'powi' in prog['unsafe']
    iterated = call['call'] != 'evaluate'
    if not all_finite(P) or P['tag'] == 'SolutionError' or 'E' in P['status']:
        # outside the property: values do not stay finite in the Python class (an overflow raises inside NumPy
        # before the store, so the stored values may all be finite while the solve has failed numerically)
        return ('skip', 'non-finite')
    if agree(F, P, libm, iterated):
        return None
    defects = [k for k in prog['unsafe'] if k != 'powi']
    what = (f"{call}: Fortran {F['tag']} status {F['status']} iterations {F['iters']} vs Python {P['tag']} "
            f"status {P['status']} iterations {P['iters']}; max value distance {max_ulp(F, P)} ulp")
    periods = call_periods(call, n, lags, leads)
    if (call['call'] == 'solve' and call['opts']['offset'] != 0 and call['opts']['errors'] != 'raise'
            and F['tag'] == 'IndexError' and P['tag'] == 'IndexError' and periods is not None
            and any(not 0 <= p + call['opts']['offset'] < n for p in periods)):
        # the template's solve() only `return`s on an error when error_control is 'raise'; with any other setting it
        # goes on solving the later periods after an offset error, and the wrapper stores those values before raising.
        # Explained by that defect iff the two classes differ only in periods after the offending one.
        first = min(p for p in periods if not 0 <= p + call['opts']['offset'] < n)
        later = {p for p in periods if p > first}
        if same_control(F, P) and values_agree(mask_cols(F, later), mask_cols(P, later), libm, iterated):
            return ('solve-continues-after-offset-error', what)
    if call['call'] == 'evaluate' and periods is None and F['tag'] == 'IndexError':
        # t outside the span: the compiled module refuses up front (IndexError, nothing changed); the generated Python
        # _evaluate has no up-front check.  Either it raises IndexError too, but the statements before the failing one
        # have already stored (with `C[-1] = …` the store at t-1 is inside the span); or — when every access of the
        # program carries an offset that lands back inside the span, e.g. `X[-2] = … N[-2]` at t = n — it does not
        # raise at all.  Both are the listed finding (same call site: the up-front check exists on one side only).
        return ('infeasible-period-evaluate', what)
    # explicit infeasible period: the compiled module refuses with its own error code
    if periods is not None and any(not feasible(p, n, lags, leads) for p in periods):
        if call['call'] == 'evaluate' and F['tag'] == 'IndexError':
            return ('infeasible-period-evaluate', what)
        if call['call'] != 'evaluate' and F['tag'] == 'FortranEngineError':
            return ('infeasible-period-mismatch', what)
        # otherwise the call ended earlier for another reason: judged by the rules below
    if iterated and call['opts']['max_iter'] <= 0 and call['opts']['min_iter'] <= call['opts']['max_iter']:
        if F['tag'] == 'FortranEngineError' and F['status'] == '-' * n:
            return ('max-iter-zero-engine-error', what)
        return ('max-iter-zero-other', what)
    if iterated:
        T = twin_fn()
        if T is not None and all_finite(T) and agree(F, T, libm, iterated):
            return ('convergence-variables-zero-based', what)   # explained entirely by the shifted convergence rows
        if T is not None and (not all_finite(T) or T['tag'] == 'SolutionError' or 'E' in T['status']):
            # with the convergence rows the compiled loop really reads, the solve leaves the finite regime (e.g. it
            # "converges" early, moves on to the next period and overflows there): outside the property
            return ('skip', 'non-finite-with-shifted-rows')
        if T is not None and libm and boundary_sensitive(prog, call, twin_fn, P):
            return ('skip', 'libm-boundary')
        if T is not None and libm and same_control(F, T) and perturbation_sensitive(T, twin_fn):
            return ('skip', 'libm-ill-conditioned')
        if defects:   # a literal/integer defect changes values, which may also change the pass at which the loop stops
            return (defects[0], what)
        return ('engine-mismatch:' + call['call'], what)
    if defects:
        return (defects[0], what)
    return ('engine-mismatch:evaluate', what)


def perturbation_sensitive(base, twin_fn):
    """Same control flow but values further apart than the tolerance: is the iteration itself ill-conditioned
    (rounding differences of libm amplified pass after pass)?  Decided on the Python class alone: perturb every
    input by one part in 1e15 and see whether its own result moves by more than the tolerance."""
    alt = twin_fn('perturb')
    if alt is None or not same_control(alt, base):
        return True
    return not (rel_close(alt, base, 1e-10) or abs_close(alt, base, 1e-10))


def boundary_sensitive(prog, call, twin_fn, P):
    """With libm in the loop the two engines may legitimately stop one pass apart when a difference sits within
    rounding of `tol`: detect by re-running the Python twin with tol nudged either way."""
    base = twin_fn()
    o = call['opts']
    tol = unbits(o['tol'])
    for f in (1 - 1e-6, 1 + 1e-6):
        c2 = dict(call)
        c2['opts'] = dict(o, tol=bits(tol * f))
        alt = twin_fn(c2)
        if alt is None or not same_control(alt, base):
            return True
    return False


# ---------------------------------------------------------------------------------------------------------------
# text of the generated module

def strip_ws(s):
    return re.sub(r'\s+', '', s)


def unwrap(block):
    """Join free-form continuation lines (`… &` newline `& …`) and drop comments; whitespace is not significant."""
    out = []
    for line in block.split('\n'):
        s = line.strip()
        if not s or s.startswith('!'):
            continue
        if out and out[-1].endswith('&'):
            prev = out.pop()[:-1]
            s = s[1:] if s.startswith('&') else s
            out.append(prev + s)
        else:
            out.append(s)
    return out


def module_parts(text):
    """(statements of the equations block, {array name: declaration}, lags/leads line) with whitespace removed."""
    i = text.index('solved_values = initial_values')
    a = text.index('  ! ----', i)
    b = text.index('  ! ----', a + 10)
    eqs = [strip_ws(s) for s in unwrap(text[text.index('\n', a) + 1:b])]
    m0 = text.index('module structure')
    m1 = text.index('end module structure')
    decls = {}
    ll = None
    for s in unwrap(text[m0:m1]):
        w = strip_ws(s)
        mm = re.match(r'integer,dimension\(\d+\)::([a-z]+)', w)
        if mm:
            decls[mm.group(1)] = w
        elif w.startswith('integer::lags'):
            ll = w
    return eqs, decls, ll


# ---------------------------------------------------------------------------------------------------------------
# requests for the Lean driver

def model_payload(prog, symbols, n, data, call, check, record=None):
    endo, exo, par, err = name_lists(symbols)
    T = fsic.parser.Type
    sym = [s for s in symbols if s.type not in (T.FUNCTION, T.KEYWORD, T.VERBATIM)]
    lits = {}

    def walk(e):
        if e[0] == 'dec':
            lits[e[1]] = list(fg.lit_bits(e[1])) + list(fg.dec_parts(e[1]))
        elif e[0] == 'neg':
            walk(e[1])
        elif e[0] in ('bin', 'fn2'):
            walk(e[2])
            walk(e[3])
        elif e[0] == 'fn1':
            walk(e[2])
        elif e[0] == 'fnv':
            for a in e[2]:
                walk(a)
    for eq in prog['eqs']:
        walk(eq['rhs'])
    names = endo + exo + par + err
    return {'endo': endo, 'exo': exo, 'par': par, 'err': err, 'check': check,
            # evaluation order = order of the endogenous *symbols* (first appearance in the script), as in both back-ends
            # n-ary max/min cross to the model as nested binary calls (fortran_gen.fold)
            'eqs': [{'lhs': eq['lhs'], 'off': eq.get('off', 0), 'rhs': fg.fold(eq['rhs'])}
                    for eq in sorted(prog['eqs'], key=lambda q: endo.index(q['lhs']))],
            'lits': [{'text': k, 'r4': v[0], 'r8': v[1], 'm': v[2], 'e': v[3]} for k, v in sorted(lits.items())],
            'symlags': [int(s.lags) for s in sym], 'symleads': [int(s.leads) for s in sym],
            'n': n, 'vals': [data[x] for x in names], 'call': call,
            **({'status': record[0], 'iters': record[1]} if record else {})}


def obs_str(o):
    return (o['tag'] + '|' + o['status'] + '|' + ','.join(str(i) for i in o['iters']) + '|' +
            ';'.join(','.join(str(canon_bits(b)) for b in row) for row in o['vals']))


def str_nonfinite(s):
    parts = s.split('|')
    if len(parts) != 4:
        return False
    return any(not np.isfinite(unbits(int(b))) for row in parts[3].split(';') for b in row.split(',') if b)


def canon_model_str(s):
    parts = s.split('|')
    if len(parts) != 4:
        return s
    rows = [','.join(str(canon_bits(int(b))) for b in row.split(',') if b) for row in parts[3].split(';')]
    return '|'.join(parts[:3] + [';'.join(rows)])


# ---------------------------------------------------------------------------------------------------------------
# operation histories: several calls on the SAME pair of instances, full state compared after every call

def run_history(cls, n, data, steps):
    """Observations after every step; a step is a call dict or {'op': 'copy'} (continue on `m.copy()`)."""
    m = make_instance(cls, n, data)
    obs = []
    for st in steps:
        if st.get('op') == 'copy':
            with warnings.catch_warnings():
                warnings.simplefilter('ignore')
                try:
                    m = m.copy()
                    tag = 'copied'
                except Exception as e:  # noqa: BLE001
                    tag = exc_tag(e)
        else:
            tag = do_call(m, st)
        obs.append(snapshot(m, tag))
    return obs


def random_histories(rng, n, lags, leads, count):
    ok = [p for p in range(n) if feasible(p, n, lags, leads)]
    if not ok:
        return []
    good = lambda **kw: mkopts(**{**dict(min_iter=0, max_iter=100, tol=1e-9, failures='ignore'), **kw})  # noqa: E731
    few = rng.choice([1, 2, 3])
    t1, t2 = rng.choice(ok), rng.choice(ok)
    off = rng.choice([-1, 1, -2, 2, n, -n])
    er = rng.choice(['raise', 'skip', 'ignore', 'replace'])
    H = [
        # solve, then solve with too few iterations and failures='raise': stops at the first period, the rest keep their record
        [{'call': 'solve', 'opts': good()}, {'call': 'solve', 'opts': good(max_iter=few, tol=1e-14, failures='raise')}],
        # solve, then solve with an offset that leaves the span at one end
        [{'call': 'solve', 'opts': good()}, {'call': 'solve', 'opts': good(offset=off, errors=er)}],
        # failures='ignore' then 'raise' with the same few iterations
        [{'call': 'solve', 'opts': good(max_iter=few, tol=1e-14)},
         {'call': 'solve', 'opts': good(max_iter=few, tol=1e-14, failures='raise')}],
        # solve_t then solve
        [{'call': 'solve_t', 't': t1 if rng.random() < 0.5 else t1 - n, 'opts': good(max_iter=few)}, {'call': 'solve', 'opts': good()},
         {'call': 'solve', 'start': t2, 'opts': good(max_iter=1, tol=1e-14, failures='raise')}],
        # copy() between calls
        [{'call': 'solve', 'opts': good()}, {'op': 'copy'},
         {'call': 'solve_t', 't': t2, 'opts': good(max_iter=1, tol=1e-14, failures='raise')}, {'op': 'copy'},
         {'call': 'solve', 'start': min(t1, t2), 'end': max(t1, t2), 'opts': good(offset=rng.choice([0, -1, 1]), errors=er)}],
    ]
    # free-form: 2-4 random calls with copies sprinkled in
    steps = []
    for c in random_calls(rng, n, lags, leads, {'evaluate': 0, 'solve_t': 2, 'solve': 2})[:rng.choice([2, 3, 4])]:
        steps.append(c)
        if rng.random() < 0.3:
            steps.append({'op': 'copy'})
    rng.shuffle(steps)
    H.append(steps)
    if count >= len(H):
        return H
    keep = H[:3] + rng.sample(H[3:], max(0, count - 3))
    return keep[:count]


# ---------------------------------------------------------------------------------------------------------------
# script layouts (harness/gen_scripts.py) and the shape of the generated Fortran text

def to_gs(e, env):
    """This module's expression as a gen_scripts AST.  `(-x)` keeps its parentheses (a call with an empty function
    name), so both languages keep reading the same tree."""
    import gen_scripts as gs
    k = e[0]
    if k == 'int':
        return gs.Num(str(e[1]))
    if k == 'dec':
        return gs.Num(e[1])
    if k == 'var':
        kind = {'v': 'var', 'p': 'param', 'e': 'error'}[env[e[1]]]
        return gs.Term(kind, e[1], e[2] if e[2] else None)
    if k == 'neg':
        return gs.Call('', (gs.Un('-', to_gs(e[1], env)),))
    if k == 'bin':
        return gs.Bin(fg.OPS[e[1]][0], to_gs(e[2], env), to_gs(e[3], env))
    if k == 'fn1':
        return gs.Call(e[1], (to_gs(e[2], env),))
    if k == 'fnv':
        return gs.Call(e[1], tuple(to_gs(a, env) for a in e[2]))
    return gs.Call(e[1], (to_gs(e[2], env), to_gs(e[3], env)))


def layout_scripts(prog, rng, names):
    """[(layout name, script text)] for the same equations under other layouts."""
    import gen_scripts as gs
    gprog = gs.Program([gs.Equation(gs.Term('var', eq['lhs'], eq.get('off') or None), to_gs(eq['rhs'], prog['env']))
                        for eq in prog['eqs']])
    out = []
    for name in names:
        if name == 'random':
            L = gs.random_layout(rng)
            L.call_space = ''   # the empty-name call that stands for a parenthesis must stay `(`
        else:
            L = gs.catalogue_layout(name, rng)
        out.append((name, gs.render(gprog, L)))
    return out


def stray_lines(text):
    """Physical lines of the generated Fortran that are neither blank, a comment, a line of FORTRAN_TEMPLATE, a
    declaration/statement that starts where one is expected, nor a continuation of one.  Looked at: the header above
    `module structure` (comments only) and the equations block of `evaluate` (comments, assignments to
    `solved_values(…)`, their `&` continuations)."""
    bad = []
    head = text[:text.index('module structure')]
    for line in head.split('\n'):
        if line.strip() and not line.lstrip().startswith('!'):
            bad.append(line)
    i = text.index('solved_values = initial_values')
    a = text.index('  ! ----', i)
    b = text.index('  ! ----', a + 10)
    cont = False
    for line in text[text.index('\n', a) + 1:b].split('\n'):
        st = line.strip()
        if not st:
            continue
        if st.startswith('!'):
            if cont:
                bad.append(line)
            continue
        if cont:
            if not st.startswith('&'):
                bad.append(line)
        elif not re.match(r'solved_values\(\d+, index(?:[+-]\d+)?\)\s*=', st):
            bad.append(line)
        cont = st.endswith('&')
    return bad


# ---------------------------------------------------------------------------------------------------------------
# designed programs (seed-independent): each pins one clause of the property or one known defect

def V(name, off=0):
    return ['var', name, off]


def D(text):
    return ['dec', text]


def B(op, x, y):
    return ['bin', op, x, y]


def designed_programs():
    progs = []

    def add(tag, eqs, par=(), err=(), loose=False, calls=None, data=None, n=6, nonfinite=False):
        p = fg.finish_program(eqs, par, err, None, loose)
        p.update(tag=tag, designed_calls=calls, designed_data=data, n=n, nonfinite=nonfinite)
        progs.append(p)
    # convergence exactly at tol: |diff| == tol must NOT converge (strict <).  A moves by exactly 0.25 per pass.
    edge_calls = [{'call': 'solve_t', 't': t, 'opts': mkopts(mi, ma, 0.25, 0, f, 'raise')}
                  for t in (2, -3) for mi in (0, 2) for ma in (1, 3, 6) for f in ('ignore', 'raise')]
    edge_calls += [{'call': 'solve_t', 't': 2, 'opts': mkopts(0, 6, tol, 0, 'ignore', 'raise')} for tol in (0.2500001, 0.125, 0.5)]
    edge_calls += [{'call': 'solve', 'opts': mkopts(0, 4, 0.25, 0, 'ignore', 'raise')},
                   {'call': 'solve', 'opts': mkopts(0, 4, 0.25, 0, 'raise', 'raise')}]
    add('edge-tol', [{'lhs': 'A', 'rhs': B('add', V('A'), D('0.25'))}, {'lhs': 'Bv', 'rhs': B('add', V('A'), V('X'))}],
        calls=edge_calls, data='dyadic')
    # a walk that settles: A halves its distance to X each pass (exact in binary), B follows; iteration counts matter
    settle_calls = [{'call': 'solve_t', 't': t, 'opts': mkopts(mi, ma, tol, off, f, e)}
                    for t in (1, 3, -2) for mi, ma in ((0, 100), (3, 100), (0, 2), (2, 2), (5, 4))
                    for tol in (1e-10, 0.25) for off in (0, -1) for f in ('raise', 'ignore') for e in ('raise', 'skip')]
    settle_calls += [{'call': 'solve', 'opts': mkopts(0, ma, 1e-6, off, f, e)}
                     for ma in (100, 3) for off in (0, -1, 1) for f in ('raise', 'ignore') for e in ('raise', 'replace')]
    settle_calls += [{'call': 'solve', 'start': 2, 'end': 4, 'opts': mkopts(0, 100, 1e-6, 0, 'raise', 'raise')},
                     {'call': 'solve', 'start': 4, 'end': 2, 'opts': mkopts()},
                     {'call': 'solve', 'start': 9, 'opts': mkopts()},
                     {'call': 'solve', 'opts': mkopts(5, 4)}]
    add('settle', [{'lhs': 'A', 'rhs': B('add', B('mul', D('0.5'), V('A')), B('mul', D('0.5'), V('X')))},
                   {'lhs': 'Bv', 'rhs': B('add', B('mul', D('0.25'), V('Bv')), V('A', -1))},
                   {'lhs': 'Cv', 'rhs': B('sub', V('A'), B('mul', V('k'), V('Bv')))}],
        par=('k',), calls=settle_calls, data='dyadic', n=7)
    # offsets: in and out of the span, both spellings of t; a NaN at t that the offset copy overwrites
    off_calls = [{'call': 'solve_t', 't': t, 'opts': mkopts(0, 50, 1e-8, off, 'ignore', e)}
                 for t in (1, 2, 4, -1, -4) for off in (-1, 1, -2, 2, 3, -5, 6) for e in ('raise', 'ignore')]
    add('offsets', [{'lhs': 'A', 'rhs': B('add', B('mul', D('0.5'), V('A')), V('X'))},
                    {'lhs': 'Bv', 'rhs': B('mul', D('0.25'), B('add', V('A'), V('Bv')))}],
        calls=off_calls, data='uniform', n=6)
    add('offset-overwrites-nan', [{'lhs': 'A', 'rhs': B('add', B('mul', D('0.5'), V('A')), V('X'))},
                                  {'lhs': 'Bv', 'rhs': B('mul', D('0.25'), B('add', V('A'), V('Bv')))}],
        calls=[{'call': 'solve_t', 't': 2, 'opts': mkopts(0, 50, 1e-8, -1, 'ignore', 'raise')},
               {'call': 'solve_t', 't': -4, 'opts': mkopts(0, 50, 1e-8, 1, 'ignore', 'raise')}],
        data='nan-at-2', n=6)
    add('offset-error-in-solve', [{'lhs': 'A', 'rhs': B('add', B('mul', D('0.5'), V('A')), V('X'))}],
        calls=[{'call': 'solve', 'opts': mkopts(0, 50, 1e-8, off, 'ignore', e)}
               for off in (-1, 1) for e in ('raise', 'skip', 'ignore', 'replace')], data='uniform', n=6)
    # indexed left-hand sides: the defined variable carries its own lead / lag, so a pass at t writes period t+1 / t-1.
    # Every entry point, both spellings of t, the whole value matrix compared.
    ix_calls = [{'call': 'evaluate', 't': t} for t in (1, 2, 4, -2, -5, 0, 5, -1)]
    ix_calls += [{'call': c, 't': t, 'opts': mkopts(mi, ma, 1e-9, off, 'ignore', 'raise')}
                 for c in ('solve_t', 'solve_period') for t in ((1, 3, -2, -4, 0) if c == 'solve_t' else (1, 2, 4, 0, 9))
                 for mi, ma, off in ((0, 50, 0), (2, 3, 0), (0, 50, -1), (0, 50, 1))]
    ix_calls += [{'call': 'solve', 'start': s_, 'end': e_, 'opts': mkopts(0, 50, 1e-9, off, f, 'raise')}
                 for s_, e_ in ((None, None), (2, 4), (1, None), (None, 3)) for off in (0, 1) for f in ('ignore', 'raise')]
    add('indexed-lhs', [{'lhs': 'H', 'off': 1, 'rhs': B('sub', B('add', V('H'), V('YD')), B('mul', D('0.5'), V('H')))},
                        {'lhs': 'R', 'off': -1, 'rhs': B('add', B('mul', D('0.5'), V('R')), V('X'))},
                        {'lhs': 'S', 'rhs': B('add', B('mul', D('0.25'), V('S')), B('add', V('H', 1), V('R', -1)))}],
        calls=ix_calls, data='dyadic', n=7)
    # lags and leads in one model; every explicit period including the infeasible ones
    ll_calls = [{'call': 'evaluate', 't': t} for t in range(-9, 9)]
    ll_calls += [{'call': 'solve_t', 't': t, 'opts': mkopts(0, 30, 1e-9, 0, 'ignore', 'raise')} for t in range(-8, 8)]
    ll_calls += [{'call': 'solve', 'start': s, 'end': e, 'opts': mkopts(0, 30, 1e-9, 0, 'ignore', er)}
                 for s, e in ((None, None), (0, None), (None, 6), (1, 5), (2, 4)) for er in ('raise', 'skip')]
    add('lags-leads', [{'lhs': 'Y', 'rhs': B('add', B('mul', D('0.5'), V('Y', -2)), B('sub', V('X', 1), B('mul', V('a'), V('Z', -1))))},
                       {'lhs': 'Z', 'rhs': B('add', B('mul', D('0.25'), V('Y')), B('add', V('e'), V('Z', 1)))}],
        par=('a',), err=('e',), calls=ll_calls, data='uniform', n=7)
    # parameters and errors after many exogenous variables: every category's numbering matters
    many = [f'X{i}' for i in range(11)]
    rhs = V('p1')
    for i, x in enumerate(many):
        rhs = B('add' if i % 2 else 'sub', rhs, B('mul', V('p2') if i % 3 == 0 else D('0.5'), V(x, -(i % 3))))
    rhs = B('add', rhs, B('mul', V('e1'), V('e2')))
    add('numbering', [{'lhs': 'Q', 'rhs': rhs}, {'lhs': 'R', 'rhs': B('sub', B('mul', V('p1'), V('Q')), B('mul', V('p2'), V('e2')))}],
        par=('p1', 'p2'), err=('e1', 'e2'), data='uniform', n=6,
        calls=[{'call': 'evaluate', 't': t} for t in (2, 3, 5, -1)] +
              [{'call': 'solve', 'opts': mkopts(0, 20, 1e-9, 0, 'ignore', 'raise')}])
    # max_iter = 0 and negative
    add('max-iter-zero', [{'lhs': 'A', 'rhs': B('add', B('mul', D('0.5'), V('A')), V('X'))}],
        calls=[{'call': 'solve_t', 't': 2, 'opts': mkopts(0, 0, 1e-6, 0, f, 'raise')} for f in ('ignore', 'raise')] +
              [{'call': 'solve_t', 't': 2, 'opts': mkopts(-2, -1, 1e-6, 0, 'ignore', 'raise')},
               {'call': 'solve', 'opts': mkopts(0, 0, 1e-6, 0, 'ignore', 'raise')}], data='dyadic')
    # the defects already seen (DESIGN §7 row 16), one program each
    X = V('X')
    add('int-division', [{'lhs': 'Y', 'rhs': B('mul', B('div', ['int', 1], ['int', 2]), X)}], data='dyadic')
    add('int-division-2', [{'lhs': 'Y', 'rhs': B('add', X, B('div', ['int', 7], ['int', 2]))}], data='dyadic')
    add('int-power-negative', [{'lhs': 'Y', 'rhs': B('mul', B('pow', ['int', 2], ['neg', ['int', 1]]), X)}], data='dyadic')
    add('single-literal', [{'lhs': 'Y', 'rhs': B('mul', D('0.1'), X)}], data='dyadic')
    add('single-literal-2', [{'lhs': 'Y', 'rhs': B('add', B('mul', D('0.3'), X), D('2.71828'))}], data='uniform')
    add('single-arith', [{'lhs': 'Y', 'rhs': B('mul', B('div', D('1.0'), D('3.0')), X)}], data='dyadic')
    add('single-arith-exp', [{'lhs': 'Y', 'rhs': B('mul', ['fn1', 'exp', D('0.5')], X)}], data='dyadic')
    add('int-arg-max', [{'lhs': 'Y', 'rhs': ['fn2', 'max', X, ['int', 0]]}], data='dyadic')
    add('int-arg-log', [{'lhs': 'Y', 'rhs': B('mul', ['fn1', 'log', ['int', 2]], X)}], data='dyadic')
    # unary minus written loosely: Python reads (-A)*B, Fortran -(A*B); the values are the same in IEEE arithmetic
    add('loose-minus', [{'lhs': 'Y', 'rhs': B('mul', ['neg', X], V('W'))},
                        {'lhs': 'Z', 'rhs': B('sub', B('mul', X, ['neg', V('W', -1)]), B('pow', ['neg', X], ['int', 2]))},
                        {'lhs': 'U', 'rhs': B('div', ['neg', B('pow', V('W'), ['int', 2])], D('1.5'))}],
        loose=True, data='uniform')
    # function arity: max / min with three and four arguments (any number >= 2 in Python and in Fortran)
    add('variadic-minmax', [{'lhs': 'Wv', 'rhs': ['fnv', 'max', [V('W'), B('mul', V('Wv', -1), D('0.5')), B('mul', V('X'), V('a'))]]},
                            {'lhs': 'Rv', 'rhs': ['fnv', 'min', [V('X'), V('W'), B('add', V('Rv', -1), D('0.25')), D('8.0')]]},
                            {'lhs': 'Q', 'rhs': B('add', ['fnv', 'min', [V('Wv'), ['fn2', 'max', V('Rv'), V('X', -1)], D('1.5')]],
                                                   B('mul', D('0.25'), V('Q')))}],
        par=('a',), data='uniform', n=7)
    # operator precedence and associativity of ** and unary minus
    add('power-assoc', [{'lhs': 'Y', 'rhs': B('pow', B('add', ['fn1', 'abs', X], D('1.5')), B('pow', D('0.5'), ['int', 2]))},
                        {'lhs': 'Z', 'rhs': ['neg', B('pow', B('add', ['fn1', 'abs', X], D('0.5')), D('1.5'))]},
                        {'lhs': 'U', 'rhs': B('sub', B('sub', X, V('W')), B('div', B('div', X, D('2.0')), D('4.0')))}],
        data='uniform')
    # non-finite values: used ONLY to tie the model of the error-code paths to the compiled template (T), never by the oracle
    nf_calls = [{'call': 'solve_t', 't': 2, 'opts': mkopts(mi, ma, 1e-6, 0, f, e)}
                for mi in (0, 2) for ma in (1, 3) for f in ('raise', 'ignore') for e in ('raise', 'skip', 'ignore', 'replace')]
    nf_calls += [{'call': 'solve', 'opts': mkopts(0, 3, 1e-6, 0, f, e)} for f in ('raise', 'ignore')
                 for e in ('raise', 'skip', 'ignore', 'replace')]
    add('nonfinite-div0', [{'lhs': 'A', 'rhs': B('div', V('X'), V('W'))},
                           {'lhs': 'Bv', 'rhs': B('add', B('mul', D('0.5'), V('Bv')), V('A'))}],
        calls=nf_calls, data='zero-W-at-2', nonfinite=True)
    return progs


def designed_data(kind, names, n, rng):
    if kind in ('dyadic', 'uniform'):
        return random_data(rng, names, n, kind)
    data = random_data(rng, names, n, 'dyadic')
    if kind == 'nan-at-2':
        for name in ('A', 'Bv'):
            data[name][2] = bits(float('nan'))
    if kind == 'zero-W-at-2':
        data['W'] = [bits(1.0)] * n
        data['W'][2] = bits(0.0)
        data['W'][4] = bits(0.0)
        data['X'] = [bits(1.5)] * n
    return data


# ---------------------------------------------------------------------------------------------------------------
# one program, start to finish (runs in a worker process)

def process_program(job):
    idx, prog, seed_tag, budget, oracle_only = job
    import random
    rng = random.Random(seed_tag)
    out = {'idx': idx, 'violations': [], 'dist': {}, 'cases': [], 'model': [], 'notes': [], 'text': None}

    def count(k, n=1):
        out['dist'][k] = out['dist'].get(k, 0) + n
    work = tempfile.mkdtemp(prefix='fsic-c07-')
    try:
        try:
            symbols, P, F, text, log = build_classes(prog, work)
        except CodegenError as e:
            out['violations'].append({'key': 'codegen-raises', 'what': f'build_fortran_definition raised {e}',
                                      'case': {'script': prog['script'], 'tag': prog.get('tag', 'random')}})
            out['cases'].append((json.dumps(prog['script']), False))
            count('codegen-raises')
            return out
        except Exception as e:  # noqa: BLE001  the generator produced something fsic's parser rejects
            out['notes'].append(f'program {idx} rejected by the parser: {type(e).__name__}: {str(e)[:200]}\n{prog["script"]}')
            count('parser-rejected')
            return out
        endo, exo, par, err = name_lists(symbols)
        names = endo + exo + par + err
        T = fsic.parser.Type
        sym = [s for s in symbols if s.type not in (T.FUNCTION, T.KEYWORD, T.VERBATIM)]
        lags = P.LAGS
        leads = P.LEADS
        out['text'] = {'idx': idx, 'endo': endo, 'exo': exo, 'par': par, 'err': err,
                       'equations': [s.equation for s in symbols if s.type == T.ENDOGENOUS and s.equation is not None],
                       'symlags': [int(s.lags) for s in sym], 'symleads': [int(s.leads) for s in sym],
                       'impl': module_parts(text), 'script': prog['script']}
        count('programs')
        count('equations:%d' % len(prog['eqs']))
        count('variables:%s' % ('<=9' if len(names) <= 9 else '10-19' if len(names) < 20 else '>=20'))
        count('continuation-lines' if '&\n' in text[text.index('solved_values = initial_values'):text.index('end subroutine evaluate')] else 'single-line-equations')
        for k in prog['unsafe']:
            count('feature:' + k)
        if '"fnv"' in json.dumps(prog['eqs']):
            count('feature:max-min-with-3+-arguments')
        count('class:libm' if prog['libm'] else 'class:arithmetic-only')
        base_case = {'script': prog['script'], 'tag': prog.get('tag', 'random')}
        # names must be numbered as the Python class orders them
        if list(P.NAMES) != names:
            out['violations'].append({'key': 'names-order', 'what': f'NAMES {P.NAMES} vs symbol lists {names}', 'case': base_case})
        # does it compile?
        expect_compile_error = 'int-arg-intrinsic-compile' in prog['unsafe'] or 'int-overflow' in prog['unsafe']
        if F is None:
            key = ('int-arg-intrinsic-compile' if 'int-arg-intrinsic-compile' in prog['unsafe'] else
                   'int-overflow-compile' if 'int-overflow' in prog['unsafe'] else 'does-not-compile')
            first = [l for l in log.splitlines() if 'Error' in l][:2]
            out['violations'].append({'key': key, 'what': f'generated Fortran does not compile: {first}', 'case': base_case})
            out['cases'].append((json.dumps(base_case, sort_keys=True), False))
            count('compile-error')
            return out
        if expect_compile_error:
            out['notes'].append(f'program {idx} with {prog["unsafe"]} compiled after all')
        n = prog.get('n') or rng.choice([5, 6, 7, 8, 9])
        n = max(n, lags + leads + 2)
        data = (designed_data(prog['designed_data'], names, n, rng) if prog.get('designed_data')
                else random_data(rng, names, n))
        calls = prog.get('designed_calls') or random_calls(rng, n, lags, leads, budget)
        check = list(P.CHECK)
        model_ok = (not oracle_only and not prog['libm'] and 'powi' not in prog['unsafe'] and not prog.get('loose'))
        bad = stray_lines(text)
        if bad:
            out['violations'].append({'key': 'fortran-text-stray-line', 'case': base_case,
                                      'what': f'generated Fortran contains lines that are neither comment, statement nor continuation: {bad[:3]}'})
        plain_obs = []
        for call in calls:
            case = dict(base_case, n=n, data=data, call=call, ast=prog['eqs'], env=prog['env'])
            Fo = run_call(F, n, data, call)
            if prog.get('nonfinite'):
                count('nonfinite-model-tie:' + Fo['tag'])
                if model_ok:
                    out['model'].append((model_payload(prog, symbols, n, data, call, check), obs_str(Fo), None, case, prog['unsafe']))
                continue
            Po = run_call(P, n, data, call)
            if len(plain_obs) < 6:
                plain_obs.append((call, Fo, Po))
            cache = {}

            def twin_fn(c=None):
                key = json.dumps(c or call, sort_keys=True)
                if key not in cache:
                    try:
                        if c == 'perturb':
                            d2 = {k: [bits(unbits(b) * (1 + 1e-15)) for b in row] for k, row in data.items()}
                            cache[key] = twin_call(P, n, d2, call)
                        else:
                            cache[key] = twin_call(P, n, data, c or call)
                    except Exception:  # noqa: BLE001
                        cache[key] = None
                return cache[key]
            verdict = classify(prog, call, n, lags, leads, Fo, Po, twin_fn)
            count(f"{call['call']}:{Po['tag'].split(':')[0]}")
            if verdict is None:
                count('agree:' + call['call'])
            elif verdict[0] == 'skip':
                count('skipped:' + verdict[1])
            else:
                count('differs:' + verdict[0])
                out['violations'].append({'key': verdict[0], 'what': verdict[1], 'case': case})
            if os.environ.get('C07_DUMP_OBS'):   # self-test aid: what the Fortran class did on every call
                out.setdefault('fobs', []).append((json.dumps([prog['script'], call], sort_keys=True), obs_str(Fo),
                                                   obs_str(Po), None if verdict is None else verdict[0]))
            nontrivial = Fo['tag'] not in ('ValueError', 'KeyError') and verdict != ('skip', 'non-finite')
            out['cases'].append((json.dumps([prog['script'], data, call], sort_keys=True), nontrivial))
            in_span = call['call'] not in ('solve_t', 'solve_period') or -n <= call['t'] < n   # the models assume -n <= t < n
            if model_ok and in_span and all_finite(Po) and all_finite(Fo):
                periods = call_periods(call, n, lags, leads)
                p_tie = (M1_HAS_FEASIBILITY_TEST or call['call'] == 'evaluate' or
                         (periods is not None and all(feasible(p, n, lags, leads) for p in periods)))
                out['model'].append((model_payload(prog, symbols, n, data, call, check), obs_str(Fo),
                                     obs_str(Po) if p_tie else None, case, prog['unsafe']))
        if not prog.get('nonfinite'):
            defects = [k for k in prog['unsafe'] if k != 'powi']
            # ---- instance dtype: float32, int, object-of-floats (float64 is everything above) -----------------------
            if not defects and plain_obs:
                picks = [c for c, *_ in plain_obs]
                it_calls = [c for c in calls if c['call'] in ('solve_t', 'solve_period', 'solve')]
                picks = (picks[:2] + it_calls[:budget.get('dtype_calls', 4)])
                libm_ = prog['libm'] or 'powi' in prog['unsafe']
                for dt in ('float32', 'int', 'object'):
                    ddata = dtype_data(data, dt, rng)
                    extra = []
                    if dt != 'int' and P.CHECK and feasible(lags, n, lags, leads):
                        # a pre-existing NaN in a check variable under errors='raise': rejected alike, nothing changes
                        nd = {k: list(v) for k, v in ddata.items()}
                        nd[P.CHECK[0]][lags] = bits(float('nan'))
                        extra = [({'call': 'solve_t', 't': lags, 'opts': mkopts(0, 5, 1e-6, 0, 'ignore', 'raise')}, nd),
                                 ({'call': 'solve', 'start': lags, 'opts': mkopts(0, 5, 1e-6, 0, 'ignore', 'raise')}, nd)]
                    for call, dd in [(c, ddata) for c in picks] + extra:
                        count('dtype:' + dt)
                        case = dict(base_case, n=n, data=dd, call=call, dtype=dt, ast=prog['eqs'], env=prog['env'])
                        out['cases'].append((json.dumps([prog['script'], dd, call, dt], sort_keys=True), True))
                        fo, po = run_call(F, n, dd, call, dt), run_call(P, n, dd, call, dt)
                        iterated = call['call'] != 'evaluate'
                        what = (f"dtype={dt} {call}: Fortran {fo['tag']} status {fo['status']} iterations {fo['iters']} "
                                f"dtypes {fo.get('dtypes')} vs Python {po['tag']} status {po['status']} iterations "
                                f"{po['iters']} dtypes {po.get('dtypes')}; max value distance {max_ulp(fo, po)} ulp")
                        if fo.get('dtypes') != po.get('dtypes'):
                            out['violations'].append({'key': 'engine-mismatch:dtype-' + dt, 'what': what, 'case': case})
                            continue
                        if dd is not ddata:   # the NaN case: identical rejection, identical state
                            if not (same_control(fo, po) and max_ulp(fo, po) == 0):
                                out['violations'].append({'key': 'engine-mismatch:dtype-' + dt, 'what': what, 'case': case})
                            else:
                                count('agree:dtype-nan-' + dt)
                            continue
                        if (not all_finite(po) or po['tag'] == 'SolutionError' or 'E' in po['status']) and dt != 'object':
                            count('skipped:dtype-non-finite')
                            continue
                        if agree(fo, po, libm_, iterated):
                            count('agree:dtype-' + dt)
                            continue
                        v = classify(prog, call, n, lags, leads, fo, po, lambda c=None: None)
                        if v is not None and v[0] in ('skip', 'infeasible-period-evaluate'):
                            count('skipped:dtype-' + v[0]) if v[0] == 'skip' else out['violations'].append({'key': v[0], 'what': what, 'case': case})
                            continue
                        if dt in ('float32', 'int'):
                            raw64 = run_call(F, n, dd, call)
                            huge = dt == 'int' and any(abs(unbits(b)) >= 2.0 ** 53 for row in raw64['vals'] for b in row)
                            if huge or not all_finite(raw64) or raw64['tag'] == 'SolutionError' or 'E' in raw64['status']:
                                count('skipped:dtype-non-finite-in-double')   # the engine's double arithmetic overflows (or leaves int64)
                                continue
                            f64 = cast_once(raw64, dt)
                            if same_control(fo, f64) and max_ulp(fo, f64) == 0:
                                count('differs:dtype-rounds-once')
                                out['violations'].append({'key': 'dtype-rounds-once', 'what': what, 'case': case})
                                continue
                        count('differs:engine-mismatch:dtype-' + dt)
                        out['violations'].append({'key': 'engine-mismatch:dtype-' + dt, 'what': what, 'case': case})
            # ---- operation histories (exact comparison: arithmetic-only programs without a known defect) ----------
            if not defects and not prog['libm'] and 'powi' not in prog['unsafe']:
                for steps in random_histories(rng, n, lags, leads, budget.get('histories', 4)):
                    Fh, Ph = run_history(F, n, data, steps), run_history(P, n, data, steps)
                    pre = ('-' * n, [-1] * n, data)
                    for i, (st, fo, po) in enumerate(zip(steps, Fh, Ph)):
                        count('history-step:' + (st.get('call') or 'copy'))
                        case = dict(base_case, n=n, data=data, history=steps, step=i, ast=prog['eqs'], env=prog['env'])
                        out['cases'].append((json.dumps([prog['script'], data, steps[:i + 1]], sort_keys=True), True))
                        if not all_finite(po) or po['tag'] == 'SolutionError' or 'E' in po['status']:
                            count('skipped:history-non-finite')
                            break
                        if not agree(fo, po, False, True):
                            count('differs:engine-mismatch:history')
                            out['violations'].append({'key': 'engine-mismatch:history', 'case': case, 'what': (
                                f"after step {i} of {steps}: Fortran {fo['tag']} status {fo['status']} iterations "
                                f"{fo['iters']} vs Python {po['tag']} status {po['status']} iterations {po['iters']}; "
                                f"max value distance {max_ulp(fo, po)} ulp")})
                            break
                        count('agree:history-step')
                        if model_ok and 'call' in st and all_finite(fo) and (st['call'] != 'solve_t' or -n <= st['t'] < n):
                            d0 = dict(zip(names, pre[2])) if not isinstance(pre[2], dict) else pre[2]
                            out['model'].append((model_payload(prog, symbols, n, d0, st, check, record=(pre[0], pre[1])),
                                                 obs_str(fo), obs_str(po), case, prog['unsafe']))
                        pre = (po['status'], po['iters'], po['vals'])
            # ---- the same equations under other script layouts ---------------------------------------------------
            if not prog.get('loose') and plain_obs:
                plain_syms = [(s_.name, s_.type.name, s_.lags, s_.leads) for s_ in symbols]
                lay = budget.get('layouts', ['wrapped', 'wrapped_blank', 'random'])
                if len(lay) > 4 and idx % 4:   # thorough: the whole catalogue on every fourth program
                    lay = ['wrapped', 'wrapped_blank', 'comments', 'random']
                for lname, script_v in layout_scripts(prog, rng, lay):
                    vcase = {'script': script_v, 'tag': prog.get('tag', 'random'), 'layout': lname, 'plain': prog['script']}
                    count('layout:' + lname)
                    out['cases'].append((json.dumps([script_v, 'layout']), True))
                    lwork = os.path.join(work, 'layout')
                    shutil.rmtree(lwork, ignore_errors=True)
                    try:
                        sym_v, P_v, F_v, text_v, log_v = build_classes({'script': script_v}, lwork)
                    except CodegenError as e:
                        out['violations'].append({'key': 'codegen-raises', 'what': f'layout {lname}: {e}', 'case': vcase})
                        continue
                    except Exception as e:  # noqa: BLE001
                        out['violations'].append({'key': 'layout-rejected', 'case': vcase, 'what': (
                            f'the plain layout of these equations builds, layout {lname} does not: {type(e).__name__}: {str(e)[:200]}')})
                        continue
                    if [(s_.name, s_.type.name, s_.lags, s_.leads) for s_ in sym_v] != plain_syms:
                        out['violations'].append({'key': 'layout-changes-symbols', 'case': vcase,
                                                  'what': f'layout {lname} gives other symbols than the plain layout'})
                        continue
                    bad = stray_lines(text_v)
                    if bad:
                        out['violations'].append({'key': 'fortran-text-stray-line', 'case': vcase, 'what': (
                            f'layout {lname}: generated Fortran contains lines that are neither comment, statement nor '
                            f'continuation: {bad[:3]}')})
                    if F_v is None:
                        if F is not None:
                            first = [l for l in log_v.splitlines() if 'Error' in l][:2]
                            out['violations'].append({'key': 'does-not-compile', 'case': vcase, 'what': (
                                f'layout {lname}: generated Fortran does not compile (the plain layout does): {first}')})
                        continue
                    T_ = fsic.parser.Type
                    symv = [s_ for s_ in sym_v if s_.type not in (T_.FUNCTION, T_.KEYWORD, T_.VERBATIM)]
                    out.setdefault('texts', []).append({
                        'idx': idx, 'endo': endo, 'exo': exo, 'par': par, 'err': err,
                        'equations': [s_.equation for s_ in sym_v if s_.type == T_.ENDOGENOUS and s_.equation is not None],
                        'symlags': [int(s_.lags) for s_ in symv], 'symleads': [int(s_.leads) for s_ in symv],
                        'impl': module_parts(text_v), 'script': script_v})
                    for call, Fo, Po in plain_obs[:3]:
                        fv, pv = run_call(F_v, n, data, call), run_call(P_v, n, data, call)
                        if not (same_control(fv, Fo) and max_ulp(fv, Fo) == 0 and same_control(pv, Po) and max_ulp(pv, Po) == 0):
                            out['violations'].append({'key': 'layout-changes-result', 'case': dict(vcase, n=n, data=data, call=call),
                                                      'what': f'layout {lname}, {call}: results differ from the plain layout'})
                            break
                    else:
                        count('agree:layout')
    except (OSError, MemoryError) as e:   # infrastructure (gfortran missing, disk, memory): not a verdict
        out['notes'].append('worker error: ' + ''.join(traceback.format_exception(type(e), e, e.__traceback__))[-1500:])
        out['error'] = True
    except Exception as e:  # noqa: BLE001
        # The harness could not digest what the code under test returned (never happens on the unchanged tree; seen
        # once with a seeded change that made the compiled module read outside its arrays).  That is a deviation of
        # the code, not of the infrastructure: report it with the traceback instead of aborting the whole check.
        tb = ''.join(traceback.format_exception(type(e), e, e.__traceback__))[-1500:]
        out['notes'].append('worker exception: ' + tb)
        out['violations'].append({'key': 'unprocessable-observation', 'what': 'the harness raised while processing this program: ' + tb,
                                  'case': {'script': prog['script'], 'tag': prog.get('tag', 'random')}})
    finally:
        shutil.rmtree(work, ignore_errors=True)
    return out


# ---------------------------------------------------------------------------------------------------------------

def crash_result(job, why):
    idx, prog = job[0], job[1]
    return {'idx': idx, 'dist': {'engine-crash': 1}, 'cases': [(json.dumps(prog['script']), False)], 'model': [],
            'notes': [], 'text': None,
            'violations': [{'key': 'engine-crash', 'what': f'the process running the compiled module died ({why})',
                            'case': {'script': prog['script'], 'tag': prog.get('tag', 'random')}}]}


def run_jobs(jobs, workers, timeout):
    """One program per task in a pool of forked workers.  A compiled module that crashes its process (out-of-bounds
    write after a code-generation defect) breaks the pool: the unfinished programs are then re-run one per process,
    and the ones that die again are reported as `engine-crash`."""
    from concurrent.futures import ProcessPoolExecutor, as_completed
    from concurrent.futures.process import BrokenProcessPool
    ctx = multiprocessing.get_context('fork')
    done = {}
    try:
        with ProcessPoolExecutor(max_workers=workers, mp_context=ctx) as ex:
            futs = {ex.submit(process_program, j): j for j in jobs}
            for f in as_completed(futs, timeout=timeout):
                j = futs[f]
                try:
                    done[j[0]] = f.result()
                except BrokenProcessPool:
                    pass
    except BrokenProcessPool:
        pass
    for j in jobs:
        if j[0] in done:
            continue
        try:
            with ProcessPoolExecutor(max_workers=1, mp_context=ctx) as ex:
                done[j[0]] = ex.submit(process_program, j).result(timeout=timeout)
        except BrokenProcessPool:
            done[j[0]] = crash_result(j, 'signal')
    return [done[j[0]] for j in jobs]


def gen_programs(ctx, n_random):
    progs = designed_programs()
    rng = ctx.sub_rng('programs')
    for i in range(n_random):
        r = rng.random()
        g = fg.Gen(rng, libm=(r < 0.6))
        if r > 0.93:
            p = g.program(big=True)
        else:
            p = g.program()
        progs.append(p)
    # defects embedded in random surroundings
    for i in range(max(2, n_random // 10)):
        g = fg.Gen(rng, libm=False)
        p = g.program(n_eq=rng.choice([1, 2]))
        bad = rng.choice([['bin', 'div', ['int', rng.choice([1, 3, 7])], ['int', rng.choice([2, 4])]],
                          ['dec', rng.choice(fg.INEXACT_DECS)],
                          ['bin', 'mul', ['dec', '1.5'], ['dec', rng.choice(['0.7', '1.5'])]]])
        eqs = p['eqs']
        eqs[0]['rhs'] = ['bin', 'add', eqs[0]['rhs'], ['bin', 'mul', bad, ['var', eqs[0]['lhs'], -1]]]
        par = [k for k, v in p['env'].items() if v == 'p']
        err = [k for k, v in p['env'].items() if v == 'e']
        progs.append(fg.finish_program(eqs, par, err, rng))
    return progs


def run(ctx, rep):
    quick = ctx.tier == 'quick'
    n_random = (70 if quick else 1500) * ctx.scale
    budget = ({'evaluate': 5, 'solve_t': 12, 'solve': 5, 'histories': 4, 'layouts': ['wrapped', 'wrapped_blank', 'random']}
              if quick else
              {'evaluate': 6, 'solve_t': 16, 'solve': 8, 'histories': 6,
               'layouts': ['tight', 'wide', 'brace_spaces', 'index_spaces', 'explicit_zero', 'plus_sign', 'call_space',
                           'paren_space', 'wrapped', 'wrapped_blank', 'comments', 'blank_lines', 'random', 'random']})
    progs = gen_programs(ctx, n_random)
    jobs = [(i, p, f'{ctx.prop}:{ctx.seed}:prog:{i}', budget, ctx.oracle_only) for i, p in enumerate(progs)]
    results = run_jobs(jobs, min(ctx.workers, 16), 900 if quick else 3600)
    if sum(1 for o in results if o['dist'].get('parser-rejected')) > len(results) // 2:
        raise RuntimeError('the parser rejects most generated programs: ' + '; '.join(results[0]['notes'])[:500])
    text_reqs, model_reqs = [], []
    for out in results:
        for k, v in out['dist'].items():
            rep.dist[k] += v
        rep.notes += out['notes'][:3]
        if out.get('error'):
            raise RuntimeError(out['notes'][-1])
        for v in out['violations']:
            rep.violate(v['key'], v['what'], v['case'])
        for key, nontrivial in out['cases']:
            rep.case(key, nontrivial=nontrivial)
        if out.get('fobs'):
            rep.__dict__.setdefault('fobs', []).extend(out['fobs'])
        if out['text'] is not None:
            text_reqs.append(out['text'])
        text_reqs += out.get('texts', [])
        model_reqs += out['model']
        if out['cases'] and len(rep.samples) < 6 and out['idx'] % 7 == 0:
            rep.samples.append({'script': progs[out['idx']]['script'][:300], 'calls': len(out['cases'])})
    if not ctx.oracle_only:
        correspondence(ctx, rep, text_reqs, model_reqs)
    rep.notes.append(f'{len(progs)} programs ({len(designed_programs())} designed), {rep.evaluations} calls; '
                     f'model tie on {len(model_reqs)} calls of arithmetic-only programs')


def correspondence(ctx, rep, text_reqs, model_reqs):
    # (1) text of the equations block, the four index arrays and the lags/leads line
    lines = ['f_text\t' + json.dumps({k: t[k] for k in ('endo', 'exo', 'par', 'err', 'equations', 'symlags', 'symleads')},
                                     separators=(',', ':')) for t in text_reqs]
    for t, reply in zip(text_reqs, ctx.drive(lines)):
        eqs, decls, ll = t['impl']
        case = {'script': t['script']}
        try:
            m = json.loads(reply)
        except ValueError:
            rep.disagree('f_text: driver reply', case, reply, None)
            continue
        rep.dist['text-tie'] += 1
        if [strip_ws(c) for c in m['codes']] != eqs:
            rep.disagree('rewrite of the equations block: model != impl', case, m['codes'], eqs)
        want = {k: strip_ws(v) for k, v in zip(('endogenous', 'exogenous', 'parameters', 'errors'), m['decls'])}
        if want != decls:
            rep.disagree('index array declarations: model != impl', case, want, decls)
        if strip_ws(m['lagsleads']) != ll:
            rep.disagree('lags/leads line: model != impl', case, m['lagsleads'], ll)
    # (2) both engines on arithmetic-only programs: wrapper + template model vs compiled module, M1 vs Python class
    lines = ['f_run\t' + json.dumps(p, separators=(',', ':')) for p, *_ in model_reqs]
    for (payload, f_impl, p_impl, case, feats), reply in zip(model_reqs, ctx.drive(lines)):
        parts = reply.split(' ## ')
        if len(parts) != 3:
            rep.disagree('f_run: driver reply', case, reply, None)
            continue
        f_model, p_model, safe = canon_model_str(parts[0]), canon_model_str(parts[1]), parts[2]
        rep.dist['model-tie:' + payload['call']['call']] += 1
        if f_model != f_impl:
            rep.disagree('Fortran engine: model != compiled module', case, f_model, f_impl)
        if p_impl is not None and p_model != p_impl:
            if str_nonfinite(p_model):
                # NumPy turns an overflow into a warning, which solve_t(errors='raise') converts into an exception
                # *before* the store; the Python-side model has no warnings and stores the infinity.  Non-finite
                # values are outside the property; only the Fortran-side tie covers them.
                rep.dist['model-tie:python-side-nonfinite-skipped'] += 1
            else:
                rep.disagree('Python engine: model != Python class', case, p_model, p_impl)
        unsafe = [k for k in feats if k != 'powi']
        if (safe == 'safe') != (not unsafe):
            rep.disagree('KindSafe: model != harness typing', case, safe, unsafe)


def search(ctx, rep, disagreements):
    run(ctx, rep)


def _replay_here(case):
    """Replay one case in *this* process; returns (lines to print, [(key, what)])."""
    lines, viol = [], []

    class _Rep:
        @staticmethod
        def violate(key, what, c):
            viol.append((key, what))
    rep = _Rep()
    print = lines.append  # noqa: A001
    prog = {'script': case['script'], 'eqs': case.get('ast', []), 'env': case.get('env', {})}
    feats = set()
    for eq in prog['eqs']:
        feats |= fg.unsafe_features(eq['rhs'])
    prog['unsafe'] = sorted(feats)
    prog['libm'] = any(fg.uses_libm(eq['rhs']) for eq in prog['eqs'])
    work = tempfile.mkdtemp(prefix='fsic-c07-')
    try:
        try:
            symbols, P, F, text, log = build_classes(prog, work)
        except CodegenError as e:
            print('  build_fortran_definition raised ' + str(e))
            rep.violate('codegen-raises', str(e), case)
            return lines, viol
        except Exception as e:  # noqa: BLE001
            if 'plain' in case:
                print('  the layout variant does not build: ' + repr(e)[:200])
                rep.violate('layout-rejected', repr(e)[:200], case)
                return lines, viol
            raise
        if F is None:
            print('  generated Fortran does not compile: ' + str([l for l in log.splitlines() if 'Error' in l][:2]))
            rep.violate('does-not-compile', 'compile error', case)
            return lines, viol
        bad = stray_lines(text)
        if bad:
            print('  stray lines in the generated Fortran: ' + str(bad[:3]))
            rep.violate('fortran-text-stray-line', str(bad[:3]), case)
        if 'history' in case:
            n, data, steps = case['n'], case['data'], case['history']
            Fh, Ph = run_history(F, n, data, steps), run_history(P, n, data, steps)
            for i, (st, fo, po) in enumerate(zip(steps, Fh, Ph)):
                print(f'  step {i} {st}')
                print('    fortran: ' + obs_str(fo)[:200])
                print('    python : ' + obs_str(po)[:200])
                if not all_finite(po) or po['tag'] == 'SolutionError' or 'E' in po['status']:
                    break
                if not agree(fo, po, False, True):
                    rep.violate('engine-mismatch:history', f'after step {i}', case)
                    break
            return lines, viol
        if 'dtype' in case:
            n, data, call, dt = case['n'], case['data'], case['call'], case['dtype']
            fo, po = run_call(F, n, data, call, dt), run_call(P, n, data, call, dt)
            print('  fortran: ' + obs_str(fo)[:300])
            print('  python : ' + obs_str(po)[:300])
            ok = fo.get('dtypes') == po.get('dtypes') and agree(fo, po, prog['libm'], call['call'] != 'evaluate')
            if not ok and dt in ('float32', 'int') and fo.get('dtypes') == po.get('dtypes'):
                f64 = cast_once(run_call(F, n, data, call), dt)
                if same_control(fo, f64) and max_ulp(fo, f64) == 0:
                    rep.violate('dtype-rounds-once', 'explained by casting once', case)
                    return lines, viol
            if not ok:
                rep.violate('engine-mismatch:dtype-' + dt, 'differs', case)
            return lines, viol
        if 'plain' in case and 'call' in case:   # a layout variant whose results differed from the plain layout
            work2 = tempfile.mkdtemp(prefix='fsic-c07-')
            try:
                _, P0, F0, _, _ = build_classes({'script': case['plain']}, work2)
                n, data, call = case['n'], case['data'], case['call']
                fv, pv = run_call(F, n, data, call), run_call(P, n, data, call)
                f0, p0 = run_call(F0, n, data, call), run_call(P0, n, data, call)
                if not (same_control(fv, f0) and max_ulp(fv, f0) == 0 and same_control(pv, p0) and max_ulp(pv, p0) == 0):
                    rep.violate('layout-changes-result', 'results differ from the plain layout', case)
            finally:
                shutil.rmtree(work2, ignore_errors=True)
            return lines, viol
        if 'call' not in case:
            print('  compiles')
            return lines, viol
        n, data, call = case['n'], case['data'], case['call']
        Fo, Po = run_call(F, n, data, call), run_call(P, n, data, call)
        print('  fortran: ' + obs_str(Fo)[:300])
        print('  python : ' + obs_str(Po)[:300])
        def twin_fn(c=None):
            if c == 'perturb':
                return twin_call(P, n, {k: [bits(unbits(b) * (1 + 1e-15)) for b in row] for k, row in data.items()}, call)
            return twin_call(P, n, data, c or call)
        v = classify(prog, call, n, P.LAGS, P.LEADS, Fo, Po, twin_fn)
        if v is not None and v[0] != 'skip':
            rep.violate(v[0], v[1], case)
    finally:
        shutil.rmtree(work, ignore_errors=True)
    return lines, viol


def replay(ctx, rep, case):
    """Replay in a forked child: a compiled module that crashes must not take the check down with it."""
    from concurrent.futures import ProcessPoolExecutor
    from concurrent.futures.process import BrokenProcessPool
    try:
        with ProcessPoolExecutor(max_workers=1, mp_context=multiprocessing.get_context('fork')) as ex:
            lines, viol = ex.submit(_replay_here, case).result(timeout=900)
    except BrokenProcessPool:
        lines, viol = ['  the process running the compiled module died'], [('engine-crash', 'the process running the compiled module died')]
    for l in lines:
        print(l)
    for key, what in viol:
        rep.violate(key, what, case)
