"""C14 — layout of the script does not matter; the normal form is a fixed point."""
import ast, collections, io, random, re, tokenize, zlib

import gen_scripts as gs
import lexer_common as lc
import parser_oracle as po
import text_streams as ts
from props import c13

P = lc.P

ID = 'C14'
LEAN_MODULE = 'Proofs.C14'
THEOREMS = ['Fsic.C14.' + n for n in [
    'scan_render_go', 'scan_render', 'layout_invariance_scan', 'termsOf_congr', 'layout_invariance_terms',
    'explicit_zero', 'split_concat_lines', 'split_concat_error', 'split_concat', 'blank_and_comment_lines_neutral',
    'normaliseWs_idempotent', 'parseBody_render', 'nf_reparse', 'normal_form_fixed_point', 'holes_spell']]
RULE = ('random C01-grammar programs (six generator configurations incl. verbatim fragments, named periods, LHS '
        'offsets, fenced blocks) and the exhaustive small-statement tier; each under every single transformation of '
        'the layout catalogue (tight, wide, spaces inside braces / angle brackets / index brackets, explicit [0], '
        '[+k], space before a call parenthesis, spaces inside parentheses, parenthesise-and-break, comments, blank '
        'lines) and random compositions; statement-by-statement parses merged vs the whole script; random statement '
        'permutations; re-parse of every normalised equation; plus a finding stream (space before `[`, spaces inside '
        'the index brackets of the left-hand side). distinct = distinct (program, layout) text; non-trivial = the '
        'transformed text differs from the plain text')
TRUSTED = c13.TRUSTED
ASSUMPTIONS = c13.ASSUMPTIONS + ['"meaning of the generated code" is compared as ast.dump of Symbol.code (the weaker '
                                 'reading: redundant parentheses and whitespace are not meaning)',
                                 'symbol lists are compared as multisets of (name, type, lags, leads) for layouts and '
                                 'as name-indexed maps for permutations (order differences are recorded, not alarmed)']

META = {
    "text": "Proved for all inputs on model M2: scan_render — for every well-formed token list (inert chunks, `<` operator, variables with/without adjacent index `[ w1 text w2 ]`, `{ w1 n w2 }` / `< w1 n w2 >` terms with optional index, functions `n w (`, keywords of the reflected keyword.kwlist, verbatim fragments) and EVERY choice of the whitespace strings, scanning the rendered text returns exactly the tokens' (kind, name, raw index, span) in order; layout_invariance_scan / layout_invariance_terms — two layouts of the same tokens give the same matches and the same parsed terms (kind, name, lag/lead index), explicit `[0]` = no index; split_concat — after a complete part the line-buffer automaton is back in its initial state, so the statements of l1 ++ l2 (and of s1 ++ '\\n' ++ s2) are those of the parts, an error in the first part is final, blank and comment-only lines are neutral; normaliseWs is idempotent. Re-parse round trip on the token grammar: parseBody_render (for every well-formed statement token list and layout, parse_equation returns the tokens' terms and equation/code = normalised template filled with the terms' texts), nf_reparse (with a normalised template the equation is the token list re-spelled name[t±k]), normal_form_fixed_point (parsing the feed-back form [0]/[+k]/[-k] of the equation tokens reproduces the equation text, given Stable index spellings), plus evaluated round trips of equation and code on concrete statements. On every run the driver confirms that the statements of the generated scripts under every layout satisfy the hypotheses of scan_render (executable checker wfB, proved sound).",
    "design_ref": "DESIGN.md §5 M2, §6 C14 (and C01 scan_render), §7 row 11, §10 fall-back, Appendix C",
    "note": "scan_render is fully proved for the token grammar above (not a _partial); outside it: a literal `{` that is not a parameter, identifiers glued to numbers (`1e5`), empty index text. The fixed-point theorems carry decidable side conditions (Wf of the statement and of its two sides, first '=' in the middle chunk, balanced braces inside terms only, indexes parse, symbol stage accepts, template already normalised, Stable index spellings); not proved: that normaliseWs distributes over the template holes of an arbitrary token list, Stable for all integer indexes (core digit lemma proved), the code text in general. layout_invariance is proved at scanner/term level; the step to Symbols (Symbol.combine, cross-statement merge, permutation) and the normal-form fixed point at symbol level belong to M3 and are covered here by the metamorphic oracle on the real code (layouts, merge of single-statement parses, permutations, re-parse of normalised equations) and by strict correspondence. Known findings (open; the regex patch was not applied to /repo): whitespace between a name and `[` is not neutral; whitespace inside/before the index brackets of the left-hand side is rejected. Statements are given to the model exactly as to the code (a trailing comment passed directly to parse_equation is lexed by both; through parse_model it is stripped by both).",
    "technique": "Lean 4 proof (single-step lemma per regex alternative + induction over the token list with a boundary condition; automaton decomposition; invariants of the three substitutions) + differential correspondence + metamorphic oracle"
}


def view(symbols):
    return sorted((s.name or '', s.type.name, str(s.lags), str(s.leads)) for s in symbols)


def code_asts(symbols):
    out = {}
    for s in symbols:
        if s.code is not None:
            try:
                out[s.name or ('<verbatim>' + str(len(out)))] = ast.dump(ast.parse(s.code))
            except SyntaxError:
                out[s.name or ('<verbatim>' + str(len(out)))] = 'unparsable:' + s.code
    return out


def parse(text):
    """-> (symbols | None, outcome tag)"""
    try:
        return P.parse_model(text), 'accepted'
    except po.OWN as e:
        return None, 'own:' + type(e).__name__
    except Exception as e:  # noqa: BLE001
        return None, 'internal:' + type(e).__name__


def unT(equation):
    """[t] -> [0], [t-k] -> [-k], [t+k] -> [+k]"""
    return re.sub(r'\[t([+-]\d+)?\]', lambda m: '[' + (m.group(1) or '0') + ']', equation)


def merge_spec(parses):
    """Merge of single-statement parses as the property describes it: a name is endogenous if some statement assigns
    it, lags/leads are the extremes, its equation is the one of the assigning statement; first appearance order."""
    order, table, verb = [], {}, []
    for syms in parses:
        for s in syms:
            if s.name is None:
                verb.append((s.equation, s.code))
                continue
            if s.name not in table:
                order.append(s.name)
                table[s.name] = [s.type, s.lags, s.leads, s.equation, s.code]
            else:
                cur = table[s.name]
                if s.type != cur[0]:
                    cur[0] = max(s.type, cur[0])
                if isinstance(s.lags, int) and isinstance(cur[1], int):
                    cur[1] = min(cur[1], s.lags)
                elif isinstance(s.lags, int):
                    cur[1] = s.lags
                if isinstance(s.leads, int) and isinstance(cur[2], int):
                    cur[2] = max(cur[2], s.leads)
                elif isinstance(s.leads, int):
                    cur[2] = s.leads
                if s.equation is not None:
                    cur[3], cur[4] = s.equation, s.code
    return [(n, table[n][0].name, table[n][1], table[n][2], table[n][3], table[n][4]) for n in order], verb


def full_view(symbols):
    return ([(s.name, s.type.name, s.lags, s.leads, s.equation, s.code) for s in symbols if s.name is not None],
            [(s.equation, s.code) for s in symbols if s.name is None])


def check_layout(key, plain, text, rep, stream, layout=None, base=None):
    """The transformed text must parse to the same (name, type, lags, leads) and the same code ast as the plain one."""
    if base is None:
        base, _ = parse(plain)
        if base is None:
            return
    case = {'check': 'layout', 'key': key, 'stream': stream, 'plain': plain, 'text': text, 'layout': layout}
    syms, tag = parse(text)
    if syms is None:
        rep.violate(key, f'layout {layout}: plain text accepted, transformed text {tag}', case)
    elif view(syms) != view(base):
        rep.violate(key, f'layout {layout} changes (name, type, lags, leads): {view(base)} -> {view(syms)}', case)
    elif code_asts(syms) != code_asts(base):
        rep.violate(key, f'layout {layout} changes the ast of the generated code', case)
    elif [x.name for x in syms] != [x.name for x in base]:
        rep.dist['layout-changes-symbol-order'] += 1


def check_merge(stmts, rep, stream):
    case = {'check': 'merge', 'stream': stream, 'stmts': stmts, 'text': '\n'.join(stmts)}
    whole, tag = parse('\n'.join(stmts))
    if whole is None:
        return
    singles = [parse(s) for s in stmts]
    if not all(s is not None for s, _ in singles):
        rep.violate('statement-alone-rejected', f'a statement of an accepted script is rejected on its own: '
                    f'{[t for _, t in singles]}', case)
        return
    want, got = merge_spec([s for s, _ in singles]), full_view(whole)
    if want != got:
        rep.violate('parse-is-not-merge', f'parse of the script differs from the merge of its statements: {want} vs {got}', case)


def check_perm(stmts, order, rep, stream):
    case = {'check': 'perm', 'stream': stream, 'stmts': stmts, 'order': order, 'text': '\n'.join(stmts[i] for i in order)}
    base, _ = parse('\n'.join(stmts))
    if base is None:
        return
    ps, tag = parse(case['text'])
    if ps is None:
        rep.violate('permutation-changes-outcome', f'permuted script {tag}', case)
        return
    a, b = full_view(base), full_view(ps)
    if sorted(map(repr, a[0])) != sorted(map(repr, b[0])) or sorted(map(repr, a[1])) != sorted(map(repr, b[1])):
        rep.violate('permutation-changes-symbols', 'permuting statements changes a symbol', case)


def check_nf(name, equation, code, rep, stream):
    back = unT(equation)
    case = {'check': 'nf', 'stream': stream, 'name': name, 'equation': equation, 'code': code, 'text': back}
    r, tag = parse(back)
    if r is None:
        if tag.startswith('own') and po._rejection_key(back) == 'exec-at-parse-rejects-valid':
            return
        if tag.startswith('internal') and tag.endswith(('ZeroDivisionError', 'TypeError', 'OverflowError')):
            return
        rep.violate('normal-form-rejected', f're-parsing the normalised equation gives {tag}', case)
        return
    again = [x for x in r if x.name == name and x.equation is not None]
    if not again or again[0].equation != equation or again[0].code != code:
        rep.violate('normal-form-not-fixed', f'normalised equation {equation!r} re-parses to '
                    f'{[(x.equation, x.code) for x in again]}', case)


def text_variants(prog, rng):
    """Layout changes made on the text itself: whitespace-only blank lines, trailing whitespace, CRLF line ends,
    blank lines at both ends (verbatim blocks are left alone)."""
    spaced = gs.render(prog, gs.catalogue_layout('blank_lines'))
    lines, fence = [], False
    for ln in spaced.split('\n'):
        if ln.startswith('```'):
            fence = not fence
        lines.append(rng.choice(['  ', '\t', ' \t ']) if (ln == '' and not fence) else ln)
    yield 'whitespace-only-lines', '\n'.join(lines)
    plain = gs.render(prog, gs.PLAIN)
    lines, fence = [], False
    for ln in plain.split('\n'):
        is_fence = ln.startswith('```')
        lines.append(ln if (fence or is_fence) else ln + rng.choice(['  ', '\t', ' ']))
        if is_fence:
            fence = not fence
    yield 'trailing-whitespace', '\n'.join(lines)
    yield 'crlf', plain.replace('\n', '\r\n')
    yield 'blank-lines-at-ends', '\n\n' + plain + '\n\n'


def oracle_program(prog, rng, rep, n_random, stream):
    plain = gs.render(prog, gs.PLAIN)
    base, tag = parse(plain)
    rep.dist[f'{stream}:plain:{tag}'] += 1
    if base is None:
        if tag.startswith('own') and po._rejection_key(plain) == 'exec-at-parse-rejects-valid':
            rep.dist['skipped:rejected-by-exec-syntax-check (C13 finding)'] += 1
        elif tag.startswith('internal') and tag.endswith(('ZeroDivisionError', 'TypeError', 'OverflowError')):
            rep.dist['skipped:exec-syntax-check-raised (C13 finding)'] += 1
        else:
            rep.violate('grammar-script-rejected', f'plain layout rejected with {tag}',
                        {'check': 'accept', 'stream': stream, 'text': plain})
        return []
    texts = [plain]
    for name, L in ts.layouts_for(rng, n_random):
        text = gs.render(prog, L)
        texts.append(text)
        rep.case((stream, text), nontrivial=text != plain,
                 sample={'layout': name, 'text': text} if zlib.crc32(text.encode()) % 4999 == 0 else None)
        check_layout('layout-not-neutral:' + (name if not name.startswith('random') else 'composition'), plain, text,
                     rep, stream, layout=name, base=base)
    for name, text in text_variants(prog, rng):
        texts.append(text)
        rep.case((stream, text), nontrivial=True)
        check_layout('layout-not-neutral:' + name, plain, text, rep, stream, layout=name, base=base)
    stmts = [gs.render(gs.Program([st]), gs.PLAIN) for st in prog.statements]
    rep.case((stream, 'merge', plain), nontrivial=len(stmts) > 1)
    check_merge(stmts, rep, stream)
    if len(stmts) > 1:
        order = list(range(len(stmts)))
        rng.shuffle(order)
        texts.append('\n'.join(stmts[i] for i in order))
        rep.case((stream, 'perm', texts[-1]), nontrivial=order != sorted(order))
        check_perm(stmts, order, rep, stream)
    ticked = {st.lhs.name for st in prog.statements if isinstance(st, gs.Equation)
              and any(isinstance(t.index, str) and t.index.startswith('`') for t in [st.lhs] + gs.terms_of(st.rhs))}
    for s in base:
        if s.name is None or s.equation is None or '`' in s.equation or s.name in ticked:
            continue   # the property excludes equations with backticked period indexes
        texts.append(unT(s.equation))
        rep.case((stream, 'nf', texts[-1]), nontrivial=True)
        check_nf(s.name, s.equation, s.code, rep, stream)
    return texts


# ---- finding stream: whitespace sites the default renderer never uses ----------------------------------------------

def finding_variants(prog):
    """(key, plain text, transformed text)"""
    out = []
    plain = gs.render(prog, gs.PLAIN)
    lines = plain.split('\n')
    for i, ln in enumerate(lines):
        if '=' not in ln or ln.startswith('```'):
            continue
        lhs, rhs = ln.split('=', 1)
        m = re.search(r'(?<=[A-Za-z_0-9}>])\[', rhs)
        if m:
            t = lhs + '=' + rhs[:m.start()] + ' ' + rhs[m.start():]
            out.append(('space-before-index-not-neutral', plain, '\n'.join(lines[:i] + [t] + lines[i + 1:])))
        m = re.fullmatch(r'(\w+)\[([^\]]*)\](\s*)', lhs)
        if m:
            t = f'{m.group(1)}[ {m.group(2)} ]{m.group(3)}=' + rhs
            out.append(('lhs-index-space-rejected', plain, '\n'.join(lines[:i] + [t] + lines[i + 1:])))
            t = f'{m.group(1)} [{m.group(2)}]{m.group(3)}=' + rhs
            out.append(('lhs-index-space-rejected', plain, '\n'.join(lines[:i] + [t] + lines[i + 1:])))
    return out


FIXED_FINDINGS = [('space-before-index-not-neutral', 'Y = W[1]', 'Y = W [1]'),
                  ('space-before-index-not-neutral', 'Y = {a}[-1] + X', 'Y = {a} [-1] + X'),
                  ('lhs-index-space-rejected', 'Y[0] = X', 'Y[ 0 ] = X'),
                  ('lhs-index-space-rejected', 'Y[1] = X', 'Y [1] = X')]


def oracle_variant(key, plain, text, rep, stream):
    rep.case((stream, text), nontrivial=True)
    check_layout(key, plain, text, rep, stream, layout='whitespace-variant')


# ---- workers ---------------------------------------------------------------------------------------------------------

def w_programs(payload, rep):
    tag, first, count, n_random, oracle_only = payload
    for i in range(first, first + count):
        rng = random.Random(f'{tag}:{i}')
        prog = ts.program(rng, i)
        texts = oracle_program(prog, rng, rep, n_random, 'program')
        variants = []
        for key, plain, text in finding_variants(prog)[:4]:
            oracle_variant(key, plain, text, rep, 'finding')
            variants.append(text)
        if not oracle_only and texts:
            strict_compare(texts, rep, 'program')
            c13.compare_texts(variants, rep, False, 'finding')   # malformed stream: lenient


def w_small(payload, rep):
    tag, index, stride, oracle_only = payload
    for k, prog in enumerate(gs.small_statements(2)):
        if k % stride != index:
            continue
        rng = random.Random(f'{tag}:{k}')
        texts = oracle_program(prog, rng, rep, 1, 'small')
        if not oracle_only and texts:
            strict_compare(texts, rep, 'small')


def soft_programs():
    """One-equation programs in which a soft keyword / builtin name is an ordinary series: bare, with [0], lagged,
    on either side, as parameter and as error."""
    T, E, P_ = gs.Term, gs.Equation, gs.Program
    for n in ts.SOFT_NAMES:
        for ix in (None, 0, -1, 2):
            yield P_([E(T('var', 'Y_', None), gs.Bin('+', T('var', n, ix), gs.Num('1')))])
            yield P_([E(T('var', n, None if ix is None else 0), gs.Bin('*', T('var', 'X_', ix), T('var', n, -1)))])
        yield P_([E(T('var', 'Y_', None), gs.Bin('+', T('param', n, None), T('var', 'X_', None)))])
        yield P_([E(T('var', 'Y_', None), gs.Bin('-', T('error', n, None), T('var', 'X_', -1)))])


def w_soft(payload, rep):
    tag, index, stride, oracle_only, step = payload
    for k, prog in enumerate(soft_programs()):
        if k % stride != index or (k // stride) % step != zlib.crc32(tag.encode()) % step:
            continue
        rng = random.Random(f'{tag}:{k}')
        texts = oracle_program(prog, rng, rep, 1, 'soft')
        if not oracle_only and texts:
            strict_compare(texts, rep, 'soft')


# ---- order of parses: the result of a parse must not depend on what the process parsed before ---------------------

ROLE_NAMES = ['exp', 'log', 'f', 'g_1', 'np.sqrt', 'X', 'abs', 'type', 'k']


def role_scripts(name):
    """The same identifier in every role it can play (function, variable bare / [0] / lagged / named period,
    parameter, error, left-hand side), one small script per role."""
    base = name.split('.')[-1]
    out = {'called': f'Y_ = {name}(Z_)', 'called-space': f'Y_ = {name} (Z_) + 1'}
    if '.' not in name:
        out.update({
            'variable': f'Y_ = {name} + Z_', 'variable[0]': f'Y_ = {name}[0] + Z_', 'lagged': f'Y_ = {name}[-2] * 2',
            'lead': f'Y_ = {name}[+1]', 'spaced-index': f'Y_ = {name}[ -1 ]', 'period': f"Y_ = {name}['a']",
            'parameter': f'Y_ = {{{name}}} * Z_', 'parameter-spaced': f'Y_ = {{ {name} }}[-1]',
            'error': f'Y_ = Z_ + <{name}>', 'lhs': f'{name} = Z_[-1]', 'lhs[0]': f'{name}[0] = Z_',
        })
    else:
        out.update({'variable': f'Y_ = {base} + Z_', 'lagged': f'Y_ = {base}[-1]'})
    return out


def fresh_views(scripts):
    """Each script parsed ALONE in a fresh interpreter (one subprocess for the whole list): the reference."""
    import json, subprocess, sys
    code = ('import json, sys\nimport fsic\nout = []\n'
            'for s in json.load(sys.stdin):\n'
            '    try:\n'
            '        import importlib, fsic.parser as P\n'
            '        P = importlib.reload(P)\n'
            '        out.append([[x.name, x.type.name, str(x.lags), str(x.leads), x.equation, x.code] for x in P.parse_model(s)])\n'
            '    except Exception as e:\n'
            '        out.append("raises " + type(e).__name__)\n'
            'json.dump(out, sys.stdout)\n')
    p = subprocess.run([sys.executable, '-c', code], input=json.dumps(scripts), capture_output=True, text=True,
                       timeout=600)
    if p.returncode != 0:
        raise RuntimeError('fresh interpreter failed: ' + p.stderr[-500:])
    return json.loads(p.stdout)


def here_view(script):
    try:
        return [[x.name, x.type.name, str(x.lags), str(x.leads), x.equation, x.code] for x in P.parse_model(script)]
    except Exception as e:  # noqa: BLE001
        return 'raises ' + type(e).__name__


def w_order(payload, rep):
    """parse A then B  ==  parse B then A  ==  B alone in a fresh interpreter, for every ordered pair of roles."""
    names, seed_tag = payload
    for name in names:
        roles = role_scripts(name)
        keys = list(roles)
        ref = dict(zip(keys, fresh_views([roles[k] for k in keys])))
        rng = random.Random(f'{seed_tag}:{name}')
        orders = [keys, keys[::-1]] + [rng.sample(keys, len(keys)) for _ in range(3)]
        for order in orders:
            for pos, k in enumerate(order):
                got = here_view(roles[k])
                rep.case(('order', name, tuple(order[:pos + 1])), nontrivial=pos > 0)
                if got != ref[k]:
                    rep.violate('parse-depends-on-history',
                                f'{roles[k]!r} parsed after {[roles[j] for j in order[:pos]][-3:]} gives {got} but alone '
                                f'in a fresh interpreter {ref[k]}',
                                {'check': 'order', 'stream': 'order', 'text': roles[k], 'history': [roles[j] for j in order[:pos]]})
                    break
        # and through parse_equation / parse_terms directly (the helpers share whatever state parse_model uses)
        for k in keys:
            try:
                P.parse_equation(roles[k])
            except Exception:  # noqa: BLE001
                pass
            got = here_view(roles[k])
            if got != ref[k]:
                rep.violate('parse-depends-on-history', f'{roles[k]!r} after parse_equation calls gives {got}, fresh {ref[k]}',
                            {'check': 'order', 'stream': 'order', 'text': roles[k], 'history': [roles[j] for j in keys]})


def w_fixed(payload, rep):
    oracle_only = payload
    for key, plain, text in FIXED_FINDINGS:
        oracle_variant(key, plain, text, rep, 'finding')
    if not oracle_only:
        c13.compare_texts([t for _, a, b in FIXED_FINDINGS for t in (a, b)], rep, False, 'finding')


def strict_compare(texts, rep, stream):
    texts = list(dict.fromkeys(texts))
    stmts = []
    for s in texts:
        try:
            stmts += P.split_equations(s)
        except Exception:  # noqa: BLE001
            pass
    stmts = list(dict.fromkeys(stmts))
    c13.compare_texts(list(dict.fromkeys(texts + stmts)), rep, True, stream)
    # do the statements fall under the hypotheses of the proved round trip (scan_render)?
    plain = [s for s in stmts if not s.startswith('`')]
    for s, o in zip(plain, lc.drive([lc.wf_line(s) for s in plain])):
        if o == 'wf=1 render=1 scan=1':
            rep.dist['scan_render:statement-covered-by-theorem'] += 1
        elif 'render=0' in o:
            rep.dist['scan_render:tokeniser-mismatch'] += 1
        elif o == 'wf=1 render=1 scan=0':
            rep.disagree('scan_render: well-formed token list whose scan differs from the expected matches',
                         {'stream': stream, 'text': s}, o, 'wf=1 render=1 scan=1')
        else:
            rep.dist['scan_render:statement-outside-token-grammar'] += 1


for _n, _f in (('programs', w_programs), ('small', w_small), ('fixed', w_fixed), ('soft', w_soft), ('order', w_order)):
    ts.register('c14:' + _n, _f)


def run(ctx, rep):
    quick = ctx.tier == 'quick'
    oo = ctx.oracle_only
    tasks = []
    n_prog = (600 if quick else 12000) * ctx.scale
    per = 20
    for first in range(0, n_prog, per):
        tasks.append(('c14:programs', (f'{ctx.seed}:c14', first, min(per, n_prog - first), 3 if quick else 6, oo)))
    stride = 48
    for index in range(stride):
        tasks.append(('c14:small', (f'{ctx.seed}:c14s', index, stride, oo)))
    tasks.append(('c14:fixed', oo))
    for index in range(16):
        tasks.append(('c14:soft', (f'{ctx.seed}:c14soft', index, 16, oo, 3 if quick else 1)))
    for n in ROLE_NAMES:
        tasks.append(('c14:order', ([n], f'{ctx.seed}:order')))
    ts.run_pool(ctx, rep, tasks)
    rep.notes.append(f'{n_prog} programs + small-statement tier, each x {len(gs.LAYOUT_CATALOGUE)} catalogue layouts + '
                     f'{3 if quick else 6} random compositions, merge, permutation, normal-form re-parse')


def squeeze(t):
    """Runs of blanks/tabs -> one blank, but only where whitespace is layout: not inside backticks or quotes (a
    verbatim fragment or a string literal keeps its text), not at the start of a line (indentation)."""
    out, quote, i = [], None, 0
    while i < len(t):
        c = t[i]
        if quote:
            out.append(c)
            if c == quote or c == '\n':
                quote = None
        elif c in '`\'"':
            quote = c
            out.append(c)
        elif c in ' \t' and out and out[-1] != '\n':
            while i + 1 < len(t) and t[i + 1] in ' \t':
                i += 1
            out.append(' ')
        else:
            out.append(c)
        i += 1
    return ''.join(out)


def search(ctx, rep, disagreements):
    for d in disagreements:
        t = d.get('case', {}).get('text')
        if isinstance(t, str) and '```' not in t:
            # a disagreeing text: is it a layout of something whose plain form parses differently?
            oracle_variant('layout-not-neutral:whitespace-squeeze', squeeze(t), t, rep, 'neighbourhood')
    run(ctx, rep)


def replay(ctx, rep, case):
    kind = case.get('check')
    print('  check:', kind, ' text:', repr(case.get('text')))
    if kind == 'layout' and case.get('key') == 'layout-not-neutral:whitespace-squeeze' and (
            '```' in case['text'] or squeeze(case['text']) != case['plain']):
        # stored by an earlier version that also squeezed whitespace inside string literals / verbatim text:
        # not a pair of layouts of the same script
        print('  (stale corpus case: the stored pair is not a layout transformation; skipped)')
    elif kind == 'layout':
        print('  plain:', repr(case['plain']))
        for t in (case['plain'], case['text']):
            syms, tag = parse(t)
            print('   ->', tag, None if syms is None else full_view(syms))
        check_layout(case['key'], case['plain'], case['text'], rep, 'replay', layout=case.get('layout'))
    elif kind == 'order':
        ref = fresh_views([case['text']])[0]
        for h in case.get('history', []):
            here_view(h)
        got = here_view(case['text'])
        print('   after history:', got, '\n   fresh        :', ref)
        if got != ref:
            rep.violate('parse-depends-on-history', 'result depends on earlier parses', case)
    elif kind == 'merge':
        check_merge(case['stmts'], rep, 'replay')
    elif kind == 'perm':
        check_perm(case['stmts'], case['order'], rep, 'replay')
    elif kind == 'nf':
        check_nf(case['name'], case['equation'], case['code'], rep, 'replay')
    else:
        syms, tag = parse(case['text'])
        print('   ->', tag)
        if syms is None:
            rep.violate('grammar-script-rejected', tag, case)
