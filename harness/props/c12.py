"""C12 — reindex preserves overlapping periods and fills the rest, on a fresh object."""
import itertools, json, warnings

import numpy as np
import pandas as pd

import fsic
from fsic.core.containers import VectorContainer
from fsic.extensions.model import PandasIndexFeaturesMixin
import b2_common as bc
from b2_common import line, fcanon, bits

ID = 'C12'
LEAN_MODULE = 'Proofs.C12'
THEOREMS = ['Fsic.C12.' + n for n in [
    'reindex_spec', 'reindex_label_read', 'reindex_new_label_read', 'first_occurrence', 'fill_default_table', 'default_by_kind', 'reflected_branches',
    'reflected_property_defaults', 'fill_precedence', 'model_defaults',
    'reindex_preserves_meta', 'coerce_ne_keyError', 'reindex_strict_unknown', 'effective_strict', 'reindex_succeeds',
    'reindexWith_spec', 'reindex_kind_eq_list', 'reindex_lookup_error', 'reindex_spec_all', 'reindex_succeeds_all',
    'numpy_lookup_answers', 'reindexWith_succeeds', 'reindex_list_no_keyError', 'reindex_keyError_cause',
    'reindex_elements_from_old_or_fill', 'reindex_series_local', 'copy_loop_natural']]
RULE = ('span pairs: for list / tuple / mixed-hashable spans every old span of length 1..3 over 3 labels (repeats '
        'included) x every new span of length 0..3 (thorough: 0..4) over those labels plus one absent label; ranges '
        'x ranges and integer lists; NumPy int/str arrays (unique old spans + duplicate-label old spans); pandas '
        'Index / PeriodIndex (annual, quarterly) / DatetimeIndex windows, permutations, disjoint and repeated new '
        'labels. Every pair gets one of 16 fill configurations (fill_value of each type, per-variable fills with '
        'and without coercion, None keywords, unknown keywords, status/iterations overrides, over-long strings, NaN '
        'for int) x object strict flag x strict argument, rotating deterministically; containers and partly solved '
        'models alternate; variable sets rotate over every NumPy kind: float64/int64/bool/<U2; int8-32 and uint8-64; '
        'float16/32, complex64/128, <U5, bytes S3; object (lists, dicts), datetime64, timedelta64; TracerMixin models '
        '(Trace objects); object series holding an equal-length sequence in every period (tuples, one-item lists, 1-D arrays, '
        'strings); integer values beyond 2**53 and at the int32/uint32/int64/uint64 limits, float32 values not representable '
        'in float16 (kept values compared exactly); variables named like class members (size, values, copy, eval, reindex, nbytes, NAMES, LAGS) and '
        'underscore twins (Tw / _Tw / __Tw). The new span is given in every supported form (range, list, tuple, ndarray '
        'int/str/float, pd.Index, PeriodIndex annual/quarterly, DatetimeIndex); the result\'s span must be of the same type / '
        'dtype / freq and answer label access (elements, pandas string spellings, partial strings, slices) as a fresh '
        'object over that span does. Plus seeded random longer pairs, and the '
        'pandas mixin with default arguments. distinct = distinct (span type, old, new, configuration, class); '
        'non-trivial = reindex returns an object')
TRUSTED = ['labels cross to the model as equivalence classes under Python == / hash',
           "pandas Index.__contains__ / get_loc are inputs to the model for pandas spans (position map computed by the harness)",
           'NumPy casting of a fill value to float64 (int -> float) equals Lean Float.ofInt; int(float) and str(float) of a float fill value are inputs',
           'freshness / "shares nothing" is NOT proved (needs the heap model of C11): it is checked by the oracle only - '
           'ids of every mutable object and np.shares_memory of every array reachable from result and original, and '
           'mutate-one-side-observe-the-other',
           'pandas Series.reindex (the mixin) is outside the model: with default arguments the mixin is compared by the oracle with the same specification as the base class (overlap values, dtype default table NaN/0/False/\'\', status/iterations defaults, freshness)']
ASSUMPTIONS = ['every series has the length of the span (C09 invariant)',
               'default table judged for bool, all integer widths, float16/32/64, complex, <U, bytes; for object / datetime64 / timedelta64 series the default is not judged (not in the property\'s table), overlap values, given fills (object) and sharing are',
               'old spans of NumPy / pandas type have unique labels (the locators refuse or return masks for duplicates: outside the regime; NumPy duplicates are still compared with the model: KeyError)',
               'weaker readings enforced by the oracle: with repeated labels in the old span any occurrence\'s value is accepted; a keyword fill of None, a fill value whose conversion is a matter of taste (2.9 for an int series, a non-empty string for a bool series; but the number 0 in a str series is judged: the text 0), and fill_value for status/iterations of a model are not judged']

META = {
    "text": "Reflected probe table (Generated.reindexProbes: what the imported reindex puts into a new period, per dtype of a 20-dtype catalogue) with theorems quantifying over it: the model's if/elif branch function equals the code's for bool / every int and uint width / timedelta64 / <U / float64, and the code's defaults equal the property's table (False, 0, NaN, '') for every bool/int/uint/float/complex/<U dtype. Theorems for every object (any variables, dtypes, values), every old/new span (permuted, disjoint, repeated labels; first occurrence = list.index) and every fill_value / keyword fills / strict combination: each new position holds the old value at the first occurrence of its label, else coerce(dtype, keyword fill if given else fill_value) with None -> NaN/0/False/''; models default status to '-' and iterations to -1 unless overridden; names, order, dtypes, strict flag and all other attributes carry over; unknown fill keywords are rejected with KeyError exactly under effective strictness (strict=None -> the object's flag); reindex succeeds on well-formed objects. The model is tied to VectorContainer.reindex / BaseModel.reindex by exact comparison of the full reindexed state (values, dtypes, order, exception class) on all generated span pairs.",
    "design_ref": "DESIGN.md §5 M6, §6 C12, §7 row 19",
    "note": "Statements hold for every lookup of the model: list-like and NumPy spans (reindex_spec_all, reindex_succeeds_all, reindex_keyError_cause, reindex_lookup_error) and relative to a given position map (reindexWith_spec / reindexWith_succeeds: pandas, where in/get_loc are inputs). 'Original unchanged' holds by construction of the pure model (not a theorem); proved instead: the result is built only from the old values and the fill (reindex_elements_from_old_or_fill, reindex_series_local, copy_loop_natural). 'Shares nothing' needs object identity, which the model lacks: oracle only. Former findings reindex-object-elements-shared (fixed in /repo 9d7efdc) and reindex-bytes-default (fixed 9692991) keep their oracle keys: a return of either defect is a new VIOLATION. Partial: 'original unchanged / shares nothing' is not a theorem (the functional model has no aliasing; heap model belongs to C11) - checked by the oracle on the real code (ids, np.shares_memory, mutation probes). pandas get_loc / in are inputs for pandas spans; the pandas mixin (Series.reindex) is compared with the specification by the oracle only. Trusted: Lean kernel, axioms propext/Classical.choice/Quot.sound, the correspondence harness. The mixin with default arguments is held by the oracle to the same dtype default table as the base class (NaN, 0, False, '' - proved for the base class in fill_default_table; the mixin itself is not modelled). Former findings pandas-mixin-int/bool/str-default (fixed in /repo 7a4b423) and reindex-same-span-object-shared (fixed 4b4abc7) keep their oracle keys, so a regression is a new VIOLATION.",
    "technique": "Lean 4 proof (induction over the copy loop and the variable list) + exhaustive differential correspondence + property oracle with sharing probes"
}

VALUES = {
    'F': [1.5, float('nan'), -2.0, 4.25, 0.5, 8.0],
    'I': [3, -1, 2 ** 53 + 1, 1, -(2 ** 53) - 1, 2 ** 62 + 1],        # not representable as float64
    'B': [True, False, True, True, False, True],
    'S': ['ab', 'c', 'de', 'f', 'gh', 'i'],
    # every other NumPy kind the code can meet
    'I8': [3, -1, 4, 1, -5, 9], 'I16': [300, -1, 4, 1, -5, 9], 'I32': [2 ** 31 - 1, -(2 ** 31), 16777217, 1, -5, 9],
    'U8': [3, 200, 4, 1, 5, 9], 'U16': [3, 60000, 4, 1, 5, 9], 'U32': [3, 2 ** 32 - 1, 16777217, 1, 5, 9],
    'U64': [3, 2 ** 63 + 5, 2 ** 64 - 1, 2 ** 53 + 1, 5, 9],
    'F16': [1.5, float('nan'), -2.0, 4.25, 0.5, 8.0], 'F32': [1.5, float('nan'), 100000.25, 1e-10, 0.1, 3.0e38],   # not representable as float16
    'C64': [1.5 + 2j, complex('nan'), -2.0, 4.25j, 0.5, 8.0], 'C128': [1.5 + 2j, complex('nan'), -2.0, 4.25j, 0.5, 8.0],
    'S5': ['abcde', 'c', '', 'f', 'gh', 'i'],
    'Y3': [b'abc', b'c', b'', b'f', b'gh', b'i'],
    'O': None,     # fresh lists per build: see build()
    'OT': None, 'OL': None, 'OA': None, 'OS': None,   # object series of equal-length sequences in EVERY period
    'D': ['2000-01-01', 'NaT', '2000-01-03', '1999-12-31', '2000-02-01', '2001-01-01'],
    'TD': [1, -2, 3, 0, 5, 7],
    # variables named like members of the classes, and underscore twins (`Tw` is stored under '_Tw', which is also
    # the NAME of the variable `_Tw`): legal names that only a careless getattr(self, name) confuses
    'size': [1.5, 2.5, -2.0, 4.25, 0.5, 8.0], 'values': [3, -1, 4, 1, -5, 9], 'copy': [0.5, 1.5, 2.5, 3.5, 4.5, 5.5],
    'eval': [True, False, True, True, False, True], 'reindex': ['ab', 'c', 'de', 'f', 'gh', 'i'],
    'nbytes': [7, 8, 9, 10, 11, 12], 'NAMES': [9.0, 8.0, 7.0, 6.0, 5.0, 4.0], 'LAGS': [1, 2 ** 53 + 1, 3, 4, 5, 6],
    'Tw': [10.0, 11.0, 12.0, 13.0, 14.0, 15.0], '_Tw': [-1.0, -2.0, -3.0, -4.0, -5.0, -6.0],
    '__Tw': [100, 200, 300, 400, 500, 600],
}
DTYPES = {'F': float, 'I': int, 'B': bool, 'S': '<U2', 'I8': np.int8, 'I16': np.int16, 'I32': np.int32,
          'U8': np.uint8, 'U16': np.uint16, 'U32': np.uint32, 'U64': np.uint64, 'F16': np.float16, 'F32': np.float32,
          'C64': np.complex64, 'C128': np.complex128, 'S5': '<U5', 'Y3': 'S3', 'O': object, 'OT': object, 'OL': object, 'OA': object, 'OS': object, 'D': 'datetime64[D]',
          'TD': 'timedelta64[D]', 'size': float, 'values': int, 'copy': float, 'eval': bool, 'reindex': '<U2',
          'nbytes': np.int32, 'NAMES': float, 'LAGS': int, 'Tw': float, '_Tw': float, '__Tw': int}
VARSETS = [
    ['F', 'I', 'B', 'S'],
    ['I8', 'I16', 'I32', 'U8', 'U16', 'U32', 'U64', 'F'],
    ['F16', 'F32', 'C64', 'C128', 'S5', 'Y3'],
    ['O', 'D', 'TD', 'I32', 'S5'],
    ['size', 'values', 'copy', 'eval', 'reindex', 'nbytes', 'NAMES', 'LAGS'],
    ['Tw', '_Tw', '__Tw', 'size', 'F'],
    ['OT', 'OL', 'OA', 'OS', 'I'],
]


def add_vars(obj, n, varset):
    with warnings.catch_warnings():
        warnings.simplefilter('ignore')
        _add_vars(obj, n, varset)


def _add_vars(obj, n, varset):
    for k in VARSETS[varset]:
        if k in ('O', 'OT', 'OL', 'OA', 'OS'):
            vals = np.empty(n, dtype=object)
            for i in range(n):
                vals[i] = {'O': [i, 'x'] if i % 3 != 2 else {'k': i}, 'OT': (float(i), i + 0.5), 'OL': [i],
                           'OA': np.array([i, i + 1.5]), 'OS': 'ab' if i % 2 else 'cd'}[k]
            obj.add_variable(k, None, dtype=object)
            obj.__dict__['_' + k][:] = vals
        elif k == 'TD':
            obj.add_variable(k, np.array(VALUES[k][:n], dtype='timedelta64[D]'), dtype=DTYPES[k])
        elif k == 'D':
            obj.add_variable(k, np.array(VALUES[k][:n], dtype='datetime64[D]'), dtype=DTYPES[k])
        else:
            obj.add_variable(k, VALUES[k][:n], dtype=DTYPES[k])


_MODEL = None


def model_class():
    global _MODEL
    if _MODEL is None:
        _MODEL = fsic.build_model(fsic.parse_model('Y = 0.5 * G + 0.25 * Y[-1]'))
    return _MODEL


_PMODEL = None


def pandas_model_class():
    global _PMODEL
    if _PMODEL is None:
        class PandasModel(PandasIndexFeaturesMixin, model_class()):
            pass
        _PMODEL = PandasModel
    return _PMODEL


def build(span, is_model, strict, cls=None, varset=0):
    n = len(span)
    if is_model:
        obj = (cls or model_class())(span, strict=strict, G=2.0)
        add_vars(obj, n, varset)
        with warnings.catch_warnings():
            warnings.simplefilter('ignore')
            for t in range(1, n, 2):   # partly solved: odd positions
                try:
                    obj.solve_t(t)
                except Exception:  # noqa: BLE001
                    pass
    else:
        obj = VectorContainer(span, strict=strict)
        add_vars(obj, n, varset)
    return obj


# ---- fill configurations ----------------------------------------------------------------------------------------------

CONFIGS = [
    {},
    {'fill_value': 7},
    {'fill_value': 2.5},
    {'fill_value': True},
    {'fill_value': 0},
    {'F': 1.5, 'I': 3, 'B': True, 'S': 'zz'},
    {'F': True, 'I': 2.9, 'B': 0, 'S': 12},
    {'fill_value': 5, 'F': None, 'I': None},
    {'fill_value': 9, 'I': 4},
    {'Q': 1},
    {'Q': 1, 'fill_value': 3},
    {'status': 'E', 'iterations': 5},
    {'fill_value': float('nan')},
    {'S': 'toolong', 'B': 'x', 'I': '12'},
    {'fill_value': -1.0, 'S': ''},
    {'fill_value': 'q'},
    # keyword fills for the other dtypes (a keyword naming a variable the object does not have is an unknown keyword)
    {'I8': 5, 'U8': 200, 'I32': -7, 'U64': 2 ** 63, 'F32': 2.5, 'C64': 1.5, 'S5': 'hello!', 'Y3': 'zz', 'O': 7, 'TD': 3},
    {'I8': 300, 'F16': 1.5},
    {'U8': -1, 'C128': True},
    {'fill_value': 3, 'I16': None, 'F32': None, 'O': None},
    {'OT': None, 'OL': 7, 'OS': 'zz', 'I': 2 ** 53 + 3},
    # falsy fill values of every plain type, as fill_value and as keywords, against every dtype
    {'fill_value': False},
    {'fill_value': 0.0},
    {'fill_value': ''},
    {'status': 0, 'iterations': False, 'S': 0.0},
    {'S': 0, 'S5': False, 'I': False, 'I8': 0.0, 'B': 0, 'F': False, 'F32': 0, 'reindex': 0, 'eval': 0.0, 'values': False, 'U8': False, 'OS': 0},
    {'size': 9.5, 'values': 4, 'eval': True, 'reindex': 'zz', 'NAMES': 0.25, '_Tw': 1.25, 'Tw': 2.5, '__Tw': 7},
]
STRICT_ARGS = [None, None, True, False]


def case_kwargs(case):
    kw = dict(CONFIGS[case['config']])
    if case['strict_arg'] is not None:
        kw['strict'] = case['strict_arg']
    return kw


# ---- span pairs --------------------------------------------------------------------------------------------------------

POOLS = {
    'list_str': ['a', 'b', 'c', 'z'],
    'tuple_int': [2000, 2001, 2002, 1999],
    'mixed': ['a', 1, (2, 3), 2.5],
    'np_int': [2000, 2001, 2002, 1999],
    'np_str': ['a', 'b', 'c', 'z'],
    'np_float': [2000.0, 2001.5, 2002.0, 1999.25],
}


def to_span(kind, labels):
    if kind == 'tuple_int':
        return tuple(labels)
    if kind == 'np_int':
        return np.array(labels, dtype=np.int64)
    if kind == 'np_str':
        return np.array(labels, dtype='<U1')
    if kind == 'np_float':
        return np.array(labels, dtype=float)
    return list(labels)


def seqs(pool, lo, hi):
    for n in range(lo, hi + 1):
        for t in itertools.product(pool, repeat=n):
            yield list(t)


def pair_specs(tier):
    """(kind, old labels spec, new labels spec) - specs are JSON-able and rebuilt by `spans_of`."""
    new_max = 3 if tier == 'quick' else 4
    for kind in ('list_str', 'tuple_int', 'mixed'):
        pool = list(range(4))
        for old in seqs(pool[:3], 1, 3):
            for new in seqs(pool, 0, new_max):
                yield {'span_kind': kind, 'old': old, 'new': new}
    for kind in ('np_int', 'np_str', 'np_float'):
        pool = list(range(4))
        olds = [list(p) for n in (1, 2, 3) for p in itertools.permutations(pool[:3], n)] + [[0, 0], [0, 1, 0], [1, 1, 2]]
        for old in olds:
            for new in seqs(pool, 0, 3 if tier == 'quick' else 4):
                yield {'span_kind': kind, 'old': old, 'new': new}
    # ranges: old = range(start, start+n); new = range or list of ints
    for s in (0, 3):
        for n in (1, 2, 3, 4):
            for a in range(s - 2, s + 5):
                for k in range(0, 5):
                    yield {'span_kind': 'range', 'old': [s, n], 'new': {'range': [a, k]}}
            for new in seqs([s, s + 1, s + 2, s - 1], 0, 3):
                yield {'span_kind': 'range', 'old': [s, n], 'new': {'list': new}}
    # pandas: windows over a base of 6 labels (positions), permutations, repeats
    for kind in ('pd_int', 'pd_str', 'period_A', 'period_Q', 'datetime'):
        olds = [list(range(a, a + n)) for n in (1, 2, 3, 4) for a in (0, 1, 2)] + [[2, 0, 1], [3, 1]]
        news = [list(range(a, a + n)) for n in (0, 1, 2, 3, 4) for a in (0, 1, 3) if a + n <= 7] + \
               [[2, 0, 1], [1, 1, 0], [5, 6], [4, 2, 2, 0], [0, 6, 3]]
        for old in olds:
            for new in news:
                yield {'span_kind': kind, 'old': old, 'new': new}


def pandas_base(kind):
    return bc.make_span(kind, 7)


def spans_of(spec):
    """(old span object, new span object, family)."""
    kind = spec['span_kind']
    if kind in POOLS:
        pool = POOLS[kind]
        return to_span(kind, [pool[i] for i in spec['old']]), to_span(kind, [pool[i] for i in spec['new']]), bc.span_family(kind)
    if kind == 'range':
        s, n = spec['old']
        new = spec['new']
        return range(s, s + n), (range(new['range'][0], new['range'][0] + new['range'][1]) if 'range' in new else list(new['list'])), 'list'
    base = pandas_base(kind)
    return base[spec['old']], base[spec['new']], 'pandas'


def label_eq(a, b):
    try:
        r = a == b
        return bool(r) if isinstance(r, (bool, np.bool_)) else False
    except Exception:  # noqa: BLE001
        return False


# ---- canonical state --------------------------------------------------------------------------------------------------

def ftext(x):
    x = float(x)
    return 'nan' if x != x else str(bits(x))


def elem(x, dt, for_model=False):
    """One array element in the form that crosses to the model: float64 as IEEE bits, integer-like as int, bool,
    <U as str, every other kind as canonical text."""
    k = dt.kind
    if k == 'f' and dt.itemsize == 8:
        return bits(x) if for_model else ('nan' if x != x else bits(x))
    if k in 'iu':
        return int(x)
    if k == 'm':
        return int(np.asarray(x).astype('int64'))
    if k == 'b':
        return bool(x)
    if k == 'U':
        return str(x)
    if k == 'f':
        return ftext(x)
    if k == 'c':
        return 'c:' + ftext(complex(x).real) + ':' + ftext(complex(x).imag)
    if k == 'S':
        return 'y:' + bytes(x).decode('latin1')
    if k == 'M':
        return 'M:' + str(x)
    return 'o:' + (repr(x) if type(x).__module__ == 'builtins' else type(x).__name__)


def vals_json(a, for_model=False):
    return [elem(x, a.dtype, for_model) for x in a]


def state_json(obj):
    return [[name, str(obj.__dict__['_' + name].dtype), vals_json(obj.__dict__['_' + name])]
            for name in obj.__dict__['index']]


def cast_text(v, dt, n):
    """NumPy's own cast of a fill value by `np.full(n, v, dtype=dt)` (an input of the model for pass-through dtypes;
    with n = 0 a value NumPy cannot parse is not even looked at)."""
    with warnings.catch_warnings():
        warnings.simplefilter('ignore')
        try:
            a = np.full(n, v, dtype=dt)
            return str(elem(a[0], dt)) if n else ''
        except Exception:  # noqa: BLE001
            return None


def model_vars(obj, kw, n_new):
    out = []
    for name in obj.__dict__['index']:
        a = obj.__dict__['_' + name]
        cands = [None]
        if 'fill_value' in kw:
            cands.append(kw['fill_value'])
        if name in kw:
            cands.append(kw[name])
        if name == 'status':
            cands.append('-')
        if name == 'iterations':
            cands.append(-1)
        casts = [[pyval(v), cast_text(v, a.dtype, n_new)] for v in cands]
        out.append([name, {'k': a.dtype.kind, 'n': a.dtype.itemsize, 'name': str(a.dtype), 'casts': casts},
                    vals_json(a, for_model=True)])
    return out


def pyval(v):
    if v is None:
        return None
    if isinstance(v, (bool, np.bool_)):
        return {'b': bool(v)}
    if isinstance(v, (int, np.integer)):
        return {'i': int(v)}
    if isinstance(v, float):
        try:
            as_int = int(v)
        except (ValueError, OverflowError):
            as_int = None
        return {'f': bits(v), 'int': as_int, 'str': str(v)}
    return {'s': str(v)}


def request(case, obj, old, new, family):
    kw = case_kwargs(case)
    ids = {}

    def lid(x, labels=bc.Labels()):
        k = labels.ident(x)
        return ids.setdefault(k, len(ids))
    labels = bc.Labels()
    old_ids = [ids.setdefault(labels.ident(x), len(ids)) for x in list(old)]
    new_ids = [ids.setdefault(labels.ident(x), len(ids)) for x in list(new)]
    payload = {'kind': 'table' if family == 'pandas' else family, 'model': case['is_model'], 'old': old_ids, 'new': new_ids,
               'strict': bool(case['strict']), 'strict_arg': case['strict_arg'],
               'fill_value': pyval(kw.get('fill_value')),
               'fills': [[k, pyval(v)] for k, v in kw.items() if k not in ('fill_value', 'strict')],
               'vars': model_vars(obj, kw, len(list(new)))}
    if family == 'pandas':
        pm = []
        for x in list(new):
            if x in old:
                loc = old.get_loc(x)
                if not isinstance(loc, (int, np.integer)) or isinstance(loc, (bool, np.bool_)):
                    return None
                pm.append(int(loc))
            else:
                pm.append(None)
        payload['posmap'] = pm
    return line('reindex', payload)


# ---- oracle ------------------------------------------------------------------------------------------------------------

MUTABLE = (list, dict, set, np.ndarray)


def mutable_objects(obj):
    """id -> path of every mutable container reachable from the instance dictionary."""
    seen = {}

    def walk(x, path, depth=0):
        if depth > 6:
            return
        if isinstance(x, MUTABLE):
            if id(x) in seen:
                return
            seen[id(x)] = (path, x)
        if isinstance(x, dict):
            for k, v in x.items():
                walk(v, f'{path}[{k!r}]', depth + 1)
        elif isinstance(x, (list, tuple, set)) and not isinstance(x, str):
            for i, v in enumerate(x):
                if isinstance(v, MUTABLE) or isinstance(v, tuple) or hasattr(v, '__dict__'):
                    walk(v, f'{path}[{i}]', depth + 1)
        elif hasattr(x, '__dict__') and not isinstance(x, type) and \
                not type(x).__module__.startswith(('pandas', 'numpy', 'builtins')):
            # (internals of pandas index objects - cached engines, shared frequency objects - are pandas' business)
            walk(vars(x), path + '.__dict__', depth + 1)
    walk(obj.__dict__, 'obj.__dict__')
    return seen


def is_mutable(x):
    return not isinstance(x, (type(None), bool, int, float, complex, str, bytes, tuple, frozenset, np.generic))


def observe_element_mutation(x0, x1):
    """Change `x1` in place; does `x0` show it?  (x0 is x1 when the element object is shared.)"""
    try:
        if isinstance(x1, list):
            x1.append('__probe__')
            return x0[-1:] == ['__probe__']
        if isinstance(x1, dict):
            x1['__probe__'] = 1
            return '__probe__' in x0
        setattr(x1, '_probe_attr', 1)
        return getattr(x0, '_probe_attr', None) == 1
    except Exception:  # noqa: BLE001
        return None


def mutate_array(a, k):
    if not a.size:
        return
    kind = a.dtype.kind
    if kind in 'US':
        a[...] = a[::-1].copy()
        a[0] = 'q' if kind == 'U' else b'q'
    elif kind == 'b':
        a[...] = ~a
    elif kind == 'O':
        a[...] = None
    elif kind == 'M':
        a[...] = np.datetime64('1970-01-01') + np.timedelta64(k, 'D')
    else:
        a[...] = k


def strip_object_elements(snap):
    """Array-level view of a snapshot: in-place changes *inside* shared element objects are reported separately
    (reindex-object-elements-shared), so the array-level probes ignore the elements of object series."""
    out = dict(snap)
    out['vars'] = {k: (v if v is None or v[0] != 'object' else (v[0], v[1])) for k, v in snap['vars'].items()}
    return out


def snapshot_no_object_elements(obj):
    return strip_object_elements(bc.snapshot(obj))


def expected_fill(name, dtype, kw, is_model):
    """(value, judged?) per the property text; not judged where the text is ambiguous (see ASSUMPTIONS)."""
    fills = {k: v for k, v in kw.items() if k not in ('fill_value', 'strict')}
    if name in fills:
        v = fills[name]
        if v is None:
            return None, False
    elif is_model and name in ('status', 'iterations'):
        if kw.get('fill_value') is not None:
            return None, False
        v = '-' if name == 'status' else -1
    else:
        v = kw.get('fill_value')
    kind = dtype.kind
    if kind in 'OMm':
        # object / datetime64 / timedelta64: not in the property's default table; a given fill is judged for object
        if v is None or kind != 'O' or isinstance(v, (list, dict)):
            return None, False
        return v, True
    if v is None:
        v = {'f': float('nan'), 'c': float('nan'), 'i': 0, 'u': 0, 'b': False, 'U': '', 'S': b''}[kind]
    natural = ((kind in 'fc' and isinstance(v, (int, float)) and not isinstance(v, bool)) or
               (kind in 'iu' and isinstance(v, int) and not isinstance(v, bool)) or
               (kind == 'b' and isinstance(v, bool)) or (kind == 'U' and isinstance(v, str)) or
               (kind == 'S' and isinstance(v, (bytes, str))))
    if not natural:
        # a fill value of another plain type stands for itself in the series' own type: the number 0 in a str series
        # is '0', False in an int series is 0, 1 in a bool series is True (an integral float counts as its integer);
        # anything whose conversion is a matter of taste (2.9 into an int series, 'x' into a bool series) is not judged
        plain = isinstance(v, (bool, int, float)) and not (isinstance(v, float) and v != v)
        if kind == 'U' and plain:
            v = str(v)
        elif kind in 'iu' and plain and float(v).is_integer():
            v = int(v)
        elif kind == 'b' and plain and v in (0, 1):
            v = bool(v)
        elif kind in 'fc' and isinstance(v, bool):
            v = float(v)
        else:
            return None, False
    try:
        with warnings.catch_warnings():
            warnings.simplefilter('ignore')
            return np.full(1, v, dtype=dtype)[0], True
    except Exception:  # noqa: BLE001  (e.g. 300 for an int8 series: not representable, outside the property)
        return None, False


def deep_equal(a, b, depth=0):
    """Structural equality of two element objects (a copied Trace object is not `==` its original)."""
    if a is b:
        return True
    if type(a) is not type(b) or depth > 6:
        return False
    if isinstance(a, np.ndarray):
        if a.shape != b.shape or a.dtype != b.dtype:
            return False
        if a.dtype.kind == 'O':
            return all(deep_equal(x, y, depth + 1) for x, y in zip(a.ravel(), b.ravel()))
        try:
            return bool(np.array_equal(a, b, equal_nan=True))
        except TypeError:
            return bool(np.array_equal(a, b))
    if isinstance(a, dict):
        return a.keys() == b.keys() and all(deep_equal(a[k], b[k], depth + 1) for k in a)
    if isinstance(a, (list, tuple)):
        return len(a) == len(b) and all(deep_equal(x, y, depth + 1) for x, y in zip(a, b))
    if isinstance(a, float):
        return (a != a and b != b) or a == b
    if hasattr(a, 'equals') and type(a).__module__.startswith('pandas'):
        return bool(a.equals(b))
    if hasattr(a, '__dict__') and type(a).__eq__ is object.__eq__:
        return deep_equal(vars(a), vars(b), depth + 1)
    try:
        return bool(a == b)
    except Exception:  # noqa: BLE001
        return False


def same_value(a, b):
    if is_mutable(a) and is_mutable(b) and not isinstance(a, np.generic):
        return deep_equal(a, b)
    num = (float, np.floating, complex, np.complexfloating)
    if isinstance(a, num) and isinstance(b, num):
        return bool((np.isnan(a) and np.isnan(b)) or a == b)
    if isinstance(a, (np.datetime64, np.timedelta64)) and isinstance(b, (np.datetime64, np.timedelta64)):
        return bool((np.isnat(a) and np.isnat(b)) or a == b)
    return type(np.asarray(a).tolist()) == type(np.asarray(b).tolist()) and a == b


def span_problem(rspan, new):
    """'whose span is new_span': the same KIND of span, not merely the same labels."""
    if type(rspan) is not type(new):
        return f'type {type(rspan).__name__} instead of {type(new).__name__}'
    if isinstance(new, np.ndarray):
        if rspan.dtype != new.dtype or rspan.shape != new.shape:
            return f'ndarray dtype/shape {rspan.dtype}{rspan.shape} instead of {new.dtype}{new.shape}'
    elif isinstance(new, pd.Index):
        if not rspan.equals(new):
            return 'pandas index not .equals() the requested one'
        if rspan.dtype != new.dtype:
            return f'index dtype {rspan.dtype} instead of {new.dtype}'
        if getattr(rspan, 'freq', None) != getattr(new, 'freq', None):
            return f'index freq {getattr(rspan, "freq", None)} instead of {getattr(new, "freq", None)}'
    elif isinstance(new, range):
        if rspan != new:
            return f'{rspan!r} instead of {new!r}'
    return None


def label_spellings(kind, new):
    """Labels and label slices as a user addresses a FRESH object over this span: the elements themselves and, for
    pandas spans, the string spellings pandas accepts (incl. a partial string)."""
    labs = list(new)
    out = list(labs[:4])
    texts = bc.label_texts(kind, new)
    if isinstance(new, pd.Index):
        out += [t for t in texts[:4] if t is not None]
        if kind == 'period_Q' and texts and texts[0]:
            out.append(texts[0][:4])                   # a year in a quarterly index
        if kind == 'datetime' and texts and texts[0]:
            out.append(texts[0][:7])                   # a month in a daily index
    if len(labs) >= 2:
        out.append(slice(labs[0], labs[-1]))
        if isinstance(new, pd.Index) and texts[0] is not None and texts[-1] is not None:
            out.append(slice(texts[0], texts[-1]))
    return out


def access(o, nm, lab):
    with warnings.catch_warnings():
        warnings.simplefilter('ignore')
        try:
            return 'ok', o[nm, lab]
        except Exception as e:  # noqa: BLE001
            return 'exc', e


def span_form_oracle(case, r, new, names, rep, pre):
    rspan = r.__dict__['span']
    why = span_problem(rspan, new)
    if why:
        bc.violate(rep, pre + 'reindex-span-type', f'result.span is not the requested span object\'s kind: {why}', case)
    if rspan is new and isinstance(new, (list, np.ndarray)) and not case.get('same_span_object'):
        bc.violate(rep, pre + 'reindex-span-is-argument', 'result.span IS the (mutable) argument object', case)
    if not names:
        return
    # label access on the result behaves as on a fresh object built over the requested span
    nm = names[0]
    import copy as _copy
    if r.__dict__['_' + nm].shape != (len(list(new)),):
        return                                   # a malformed series is reported by the per-variable checks
    try:
        fresh = VectorContainer(_copy.deepcopy(new))
        fresh.add_variable(nm, 0, dtype=r.__dict__['_' + nm].dtype)
        fresh.__dict__['_' + nm][:] = r.__dict__['_' + nm]
    except Exception:  # noqa: BLE001
        return
    for lab in label_spellings(case['span_kind'], new):
        t0, v0 = access(fresh, nm, lab)
        t1, v1 = access(r, nm, lab)
        if t0 != t1 or (t0 == 'ok' and not deep_equal(np.asarray(v0), np.asarray(v1))):
            bc.violate(rep, pre + 'reindex-span-label-access',
                       f'result[{nm!r}, {lab!r}] gives {t1}: {v1!r}; on a fresh object over the requested span it gives {t0}: {v0!r}'[:400], case)
            break


def oracle(case, obj, before, old, new, outcome, rep, pandas_mixin=False):
    tag, r = outcome
    kw = case_kwargs(case)
    pre = 'pandas-mixin-' if pandas_mixin else ''
    if bc.snapshot(obj) != before:
        bc.violate(rep, pre + 'reindex-mutates-original', 'the original object changed during reindex()', case)
    names = list(obj.__dict__['index'])
    fills = [k for k in kw if k not in ('fill_value', 'strict')]
    unknown = [k for k in fills if k not in names]
    eff_strict = case['strict'] if case['strict_arg'] is None else case['strict_arg']
    if unknown and eff_strict:
        if not (tag == 'exc' and isinstance(r, KeyError)):
            bc.violate(rep, pre + 'reindex-strict-not-rejected', f'unknown fill keywords {unknown} under strict: expected KeyError, got {tag} {r!r}'[:300], case)
        return 'rejected'
    if tag == 'exc' and bc.span_family(case['span_kind']) == 'numpy' and len(set(case['old'])) < len(case['old']):
        return 'outside-regime'   # duplicate labels in a NumPy old span: the locator refuses (see ASSUMPTIONS)
    if tag == 'exc':
        # a fill value that cannot be represented (NaN for an int series, a string for a float series …) is outside
        # the property; an unknown keyword without strict must NOT be a reason to fail
        judged = [expected_fill(nm, obj.__dict__['_' + nm].dtype, kw, case['is_model'])[1] or
                  (nm in kw and kw[nm] is None) or (case['is_model'] and nm in ('status', 'iterations'))
                  for nm in names]
        if all(judged):
            bc.violate(rep, pre + 'reindex-raises', f'reindex raised {type(r).__name__}: {r}'[:300], case)
            return 'raised'
        return 'unrepresentable-fill'
    if r is obj:
        bc.violate(rep, pre + 'reindex-not-fresh', 'reindex returned the object itself', case)
    if type(r) is not type(obj):
        bc.violate(rep, pre + 'reindex-class', f'result class {type(r).__name__} != {type(obj).__name__}', case)
    rs = list(r.__dict__['span'])
    if len(rs) != len(list(new)) or not all(label_eq(a, b) for a, b in zip(rs, list(new))):
        bc.violate(rep, pre + 'reindex-span', f'result span {rs!r} is not the requested span {list(new)!r}', case)
    else:
        span_form_oracle(case, r, new, names, rep, pre)
    if list(r.__dict__['index']) != names:
        bc.violate(rep, pre + 'reindex-variable-order', f'variables {r.__dict__["index"]} != {names}', case)
        return 'wrong'
    old_l, new_l = list(old), list(new)
    for nm in names:
        a0, a1 = obj.__dict__['_' + nm], r.__dict__['_' + nm]
        if a1.dtype != a0.dtype:
            bc.violate(rep, pre + 'reindex-dtype', f'{nm}: dtype {a1.dtype} != {a0.dtype}', case)
            continue
        if a1.shape != (len(new_l),):
            bc.violate(rep, pre + 'reindex-length', f'{nm}: shape {a1.shape}, new span has {len(new_l)} periods', case)
            continue
        fill, judged = expected_fill(nm, a0.dtype, kw, case['is_model'])
        for i, lab in enumerate(new_l):
            occ = [k for k, x in enumerate(old_l) if label_eq(x, lab)]
            if occ:
                if not any(same_value(a1[i], a0[k]) for k in occ):
                    bc.violate(rep, pre + 'reindex-overlap-value', f'{nm}[{lab!r}] = {a1[i]!r}, old value {a0[occ[0]]!r}', case)
                    break
                # a label repeated in a sequence-type old span: "its old value" is the value the label addresses
                # (`obj[name, label]`, i.e. list.index: the FIRST occurrence — C10, theorem `first_occurrence`); a
                # result built from a later occurrence no longer answers a label-addressed read as the original does
                if (len(occ) > 1 and bc.span_family(case['span_kind']) == 'list'
                        and not same_value(a1[i], a0[occ[0]])):
                    bc.violate(rep, pre + 'reindex-overlap-not-first-occurrence',
                               f'{nm}[{lab!r}] = {a1[i]!r}: the label is repeated in the old span and addresses '
                               f'{a0[occ[0]]!r} there (first occurrence), the result holds the value of a later occurrence', case)
                    break
            elif judged and not same_value(a1[i], fill):
                key = 'reindex-bytes-default' if (a0.dtype.kind == 'S' and kw.get(nm) is None and kw.get('fill_value') is None) \
                    else 'reindex-fill-value'
                if pandas_mixin:
                    key = {'i': 'pandas-mixin-int-default', 'b': 'pandas-mixin-bool-default',
                           'U': 'pandas-mixin-str-default', 'u': 'pandas-mixin-int-default',
                           'S': 'reindex-bytes-default'}.get(a0.dtype.kind, 'pandas-mixin-fill-value')
                bc.violate(rep, key, f'{nm}[{lab!r}] (new period) = {a1[i]!r}, expected fill {fill!r}', case)
                break
    # attributes, lag/lead settings, strict flag carry over
    s0, s1 = before, bc.snapshot(r)
    if s1['attributes'] != s0['attributes'] or s1['strict'] != s0['strict'] or s1['extra'] != s0['extra']:
        diff = [k for k in set(s0['extra']) | set(s1['extra']) if s0['extra'].get(k) != s1['extra'].get(k)]
        bc.violate(rep, pre + 'reindex-attributes', f'attributes differ: {diff} / list {s1["attributes"] != s0["attributes"]} / strict {s1["strict"]} vs {s0["strict"]}', case)
    # shares nothing
    m0, m1 = mutable_objects(obj), mutable_objects(r)
    shared = [m0[i][0] for i in m0 if i in m1]
    span_shared = [p for p in shared if p == "obj.__dict__['span']"]
    other_shared = [p for p in shared if p != "obj.__dict__['span']"]
    if other_shared:
        bc.violate(rep, pre + 'reindex-shares-object', f'result and original share {other_shared[:5]}', case)
    if span_shared:
        bc.violate(rep, 'reindex-same-span-object-shared' if case.get('same_span_object') else pre + 'reindex-shares-object',
                    'result.span is the original\'s mutable span object', case)
    arrs0 = [v[1] for v in m0.values() if isinstance(v[1], np.ndarray)]
    arrs1 = [v[1] for v in m1.values() if isinstance(v[1], np.ndarray)]
    for a in arrs1:
        for b in arrs0:
            if a is not b and a.size and b.size and np.shares_memory(a, b):
                bc.violate(rep, pre + 'reindex-shares-memory', 'an array of the result shares memory with the original', case)
    # elements of object-dtype series (lists, dicts, Trace objects …) are reachable mutable state as well
    for nm in names:
        a0, a1 = obj.__dict__['_' + nm], r.__dict__['_' + nm]
        if a0.dtype.kind == 'O':
            ids0 = {id(x): i for i, x in enumerate(a0) if is_mutable(x)}
            hit = [(ids0[id(y)], j) for j, y in enumerate(a1) if id(y) in ids0]
            if hit:
                o, j = hit[0]
                seen = observe_element_mutation(a0[o], a1[j])
                bc.violate(rep, 'reindex-object-elements-shared',
                           f'{nm} (dtype object): result[{j}] IS original[{o}] ({type(a0[o]).__name__}); {len(hit)} shared '
                           f'element(s); in-place change through the result seen by the original: {seen}', case)
    if case.get('probe'):
        # mutate the result, observe the original; then the other way round
        for nm in names:
            mutate_array(r.__dict__['_' + nm], 41)
        r.__dict__['index'].append('__probe__')
        r.__dict__['_attributes'].append('__probe__')
        if snapshot_no_object_elements(obj) != strip_object_elements(before):
            bc.violate(rep, pre + 'reindex-shares-object', 'mutating the result changed the original', case)
        after_r = snapshot_no_object_elements(r)
        for nm in names:
            mutate_array(obj.__dict__['_' + nm], 43)
        obj.__dict__['_attributes'].append('__probe2__')
        if snapshot_no_object_elements(r) != after_r:
            bc.violate(rep, pre + 'reindex-shares-object', 'mutating the original changed the result', case)
    return 'holds'


def run_impl(obj, new, kw):
    with warnings.catch_warnings():
        warnings.simplefilter('ignore')
        try:
            return 'ok', obj.reindex(new, **kw)
        except Exception as e:  # noqa: BLE001
            return 'exc', e


def check_cases(ctx, rep, cases):
    reqs, held = [], []
    for case in cases:
        old, new, family = spans_of(case)
        obj = build(old, case['is_model'], case['strict'], varset=case.get('varset', 0))
        if case.get('same_span_object'):
            new = obj.__dict__['span']
        before = bc.snapshot(obj)
        req = None if ctx.oracle_only else request(case, obj, old, new, family)
        outcome = run_impl(obj, new, case_kwargs(case))
        impl = ('ok', state_json(outcome[1])) if outcome[0] == 'ok' else \
               ('err:KeyError' if isinstance(outcome[1], KeyError) else 'err:other', None)
        regime = oracle(case, obj, before, old, new, outcome, rep)
        rep.dist[f'{family}:{"model" if case["is_model"] else "container"}:{regime}'] += 1
        rep.dist[f'config:{case["config"]}'] += 1
        rep.case(json.dumps(case, sort_keys=True, default=str), nontrivial=(outcome[0] == 'ok'),
                 sample={'span_kind': case['span_kind'], 'old': repr(list(old)), 'new': repr(list(new)),
                         'kwargs': repr(case_kwargs(case)), 'model': case['is_model']}
                 if rep.evaluations % 2503 == 0 else None)
        if req is not None:
            reqs.append(req)
            held.append((case, impl))
        elif not ctx.oracle_only:
            rep.dist['unmodelled:pandas-locator'] += 1
    if reqs:
        outs = ctx.drive(reqs)
        for (case, impl), reply in zip(held, outs):
            if reply == 'err:unmodelled':
                rep.dist['unmodelled:coercion'] += 1
                continue
            if reply.startswith('ok:'):
                m = ('ok', json.loads(reply[3:]))
            else:
                m = ('err:KeyError' if reply == 'err:KeyError' else 'err:other', None)
            if m != impl:
                rep.disagree('reindex: model != impl', case, reply[:600], json.dumps(impl)[:600])


def enumerate_cases(tier):
    i = 0
    for spec in pair_specs(tier):
        i += 1
        case = dict(spec)
        case.update({'kind': 'reindex', 'config': i % len(CONFIGS), 'is_model': (i // len(CONFIGS)) % 2 == 1,
                     'strict': (i // 3) % 4 == 3, 'strict_arg': STRICT_ARGS[(i // 5) % 4], 'probe': i % 7 == 0,
                     'varset': (i // 2 + i // 9) % len(VARSETS)})
        yield case


def config_sweep():
    """Every configuration x strict flag x strict argument x class on a few span pairs."""
    pairs = [{'span_kind': 'list_str', 'old': [0, 1, 2], 'new': [2, 3, 0, 2]},
             {'span_kind': 'range', 'old': [0, 4], 'new': {'range': [2, 4]}},
             {'span_kind': 'np_int', 'old': [0, 1, 2], 'new': [3, 1]},
             {'span_kind': 'period_Q', 'old': [0, 1, 2, 3], 'new': [2, 3, 4, 5]},
             {'span_kind': 'mixed', 'old': [0, 2, 1], 'new': [1, 2, 3]}]
    for p in pairs:
        for c in range(len(CONFIGS)):
            for strict in (False, True):
                for sa in (None, True, False):
                    for is_model in (False, True):
                        for varset in range(len(VARSETS)):
                            if varset and (sa is False or (strict and sa) or p['span_kind'] in ('np_int', 'mixed')):
                                continue      # the full strict lattice and all five pairs only for the base variable set
                            case = dict(p)
                            case.update({'kind': 'reindex', 'config': c, 'is_model': is_model, 'strict': strict,
                                         'strict_arg': sa, 'probe': True, 'varset': varset})
                            yield case


def same_span_cases():
    for kind, old in (('list_str', [0, 1, 2]), ('mixed', [0, 1]), ('tuple_int', [0, 1, 2]), ('range', [0, 3]),
                      ('np_int', [0, 1, 2]), ('pd_int', [0, 1, 2])):
        for is_model in (False, True):
            yield {'kind': 'reindex', 'span_kind': kind, 'old': old, 'new': ({'range': [old[0], old[1]]} if kind == 'range' else old),
                   'config': 0, 'is_model': is_model, 'strict': False, 'strict_arg': None, 'probe': False,
                   'same_span_object': True}


def random_case(rng):
    kind = rng.choice(['list_str', 'tuple_int', 'mixed', 'np_int', 'np_str', 'np_float', 'pd_int', 'pd_str', 'period_A', 'period_Q', 'datetime'])
    if kind in POOLS:
        old = [rng.randrange(3) for _ in range(rng.randrange(1, 6))]
        if kind.startswith('np_'):
            old = list(dict.fromkeys(old))
        new = [rng.randrange(4) for _ in range(rng.randrange(0, 7))]
    else:
        old = rng.sample(range(7), rng.randrange(1, 6))
        new = [rng.randrange(7) for _ in range(rng.randrange(0, 7))]
    return {'kind': 'reindex', 'span_kind': kind, 'old': old, 'new': new, 'config': rng.randrange(len(CONFIGS)),
            'is_model': rng.random() < 0.5, 'strict': rng.random() < 0.3, 'strict_arg': rng.choice(STRICT_ARGS),
            'probe': rng.random() < 0.2, 'varset': rng.randrange(len(VARSETS))}


# ---- the pandas mixin with its default arguments -------------------------------------------------------------------------

def mixin_cases():
    for kind in ('pd_int', 'pd_str', 'period_A', 'period_Q', 'datetime', 'list_str', 'range'):
        if kind == 'range':
            specs = [([0, 4], {'range': [2, 4]}), ([0, 3], {'range': [0, 3]}), ([1, 3], {'list': [3, 1, 9]})]
        else:
            specs = [([0, 1, 2, 3], [2, 3, 4, 5]), ([0, 1, 2], [0, 1, 2]), ([1, 2, 3], [3, 1]), ([0, 1], [1, 0, 0]),
                     ([2, 3], [0, 1]), ([0, 1, 2], [])]
            if kind == 'list_str':
                specs = [(o, [min(x, 3) for x in n]) for o, n in specs if max(o) < 3]
        for j, (old, new) in enumerate(specs):
            for varset in (tuple(range(len(VARSETS))) if j < 2 else (j % len(VARSETS),)):
                yield {'kind': 'mixin', 'span_kind': kind, 'old': old, 'new': new, 'config': 0, 'is_model': True,
                       'strict': False, 'strict_arg': None, 'probe': False, 'varset': varset}


def run_mixin_case(case, rep):
    old, new, family = spans_of(case)
    obj = build(old, True, False, cls=pandas_model_class(), varset=case.get('varset', 0))
    before = bc.snapshot(obj)
    outcome = run_impl(obj, new, {})
    return oracle(case, obj, before, old, new, outcome, rep, pandas_mixin=True), outcome


def check_mixin(ctx, rep):
    for case in mixin_cases():
        regime, outcome = run_mixin_case(case, rep)
        rep.dist['mixin:' + regime] += 1
        rep.case(json.dumps(case, sort_keys=True), nontrivial=(outcome[0] == 'ok'))


# ---- object-dtype series: Trace objects of TracerMixin, lists in a container ---------------------------------------------

_TMODEL = None


def tracer_model_class():
    global _TMODEL
    if _TMODEL is None:
        from fsic.extensions import TracerMixin

        class TracedModel(TracerMixin, model_class()):
            pass
        _TMODEL = TracedModel
    return _TMODEL


def tracer_cases():
    for kind, old, new in (('range', [0, 4], {'range': [1, 4]}), ('range', [0, 3], {'list': [2, 0, 7]}),
                           ('list_str', [0, 1, 2], [2, 3, 0]), ('period_Q', [0, 1, 2, 3], [2, 3, 4])):
        for config in (0, 1):
            yield {'kind': 'tracer', 'span_kind': kind, 'old': old, 'new': new, 'config': config, 'is_model': True,
                   'strict': False, 'strict_arg': None, 'probe': True, 'varset': 0}


def run_tracer_case(case, rep):
    old, new, family = spans_of(case)
    obj = build(old, True, False, cls=tracer_model_class(), varset=0)
    before = bc.snapshot(obj)
    outcome = run_impl(obj, new, case_kwargs(case))
    return oracle(case, obj, before, old, new, outcome, rep), outcome


def check_tracer(ctx, rep):
    for case in tracer_cases():
        regime, outcome = run_tracer_case(case, rep)
        rep.dist['tracer:' + regime] += 1
        rep.case(json.dumps(case, sort_keys=True), nontrivial=(outcome[0] == 'ok'))


def _part(ctx, rep):
    """One worker's share: every `parts`-th enumerated case and its share of the random cases."""
    quick = ctx.tier == 'quick'
    cases = (list(enumerate_cases(ctx.tier)) + list(config_sweep()) + list(same_span_cases()))[ctx.part::ctx.parts]
    for chunk in range(0, len(cases), 4000):
        check_cases(ctx, rep, cases[chunk:chunk + 4000])
    rng = ctx.sub_rng('random')
    n_random = ((2000 if quick else 40000) * ctx.scale) // ctx.parts
    for chunk in range(0, n_random, 4000):
        check_cases(ctx, rep, [random_case(rng) for _ in range(min(4000, n_random - chunk))])
    if ctx.part == 0:
        check_mixin(ctx, rep)
        check_tracer(ctx, rep)


def run(ctx, rep):
    import framework
    framework.parallel(_part, ctx, rep, parts=min(8, ctx.workers))
    n_enum = sum(1 for _ in enumerate_cases(ctx.tier)) + sum(1 for _ in config_sweep()) + sum(1 for _ in same_span_cases())
    rep.notes.append(f'enumerated {n_enum} (span pair, configuration) cases; random {(2000 if ctx.tier == "quick" else 40000) * ctx.scale}; '
                     f'mixin {len(list(mixin_cases()))}; tracer {len(list(tracer_cases()))}; 8 worker processes')
    rep.exhaustive = False


def replay(ctx, rep, case):
    """Re-run one stored case.  Violations that are open known findings are printed, not counted."""
    tmp = type(rep)()
    _replay(ctx, tmp, case)
    bc.transfer_new_violations(ID, tmp, rep)


def _replay(ctx, rep, case):
    if case.get('kind') in ('mixin', 'tracer'):
        regime, outcome = (run_mixin_case if case['kind'] == 'mixin' else run_tracer_case)(case, rep)
        print('  impl :', outcome[0], state_json(outcome[1]) if outcome[0] == 'ok' else repr(outcome[1]))
        return
    old, new, family = spans_of(case)
    obj = build(old, case['is_model'], case['strict'], varset=case.get('varset', 0))
    if case.get('same_span_object'):
        new = obj.__dict__['span']
    before = bc.snapshot(obj)
    req = request(case, obj, old, new, family)
    outcome = run_impl(obj, new, case_kwargs(case))
    print('  impl :', outcome[0], state_json(outcome[1]) if outcome[0] == 'ok' else repr(outcome[1]))
    oracle(case, obj, before, old, new, outcome, rep)
    try:
        if req is not None:
            print('  model:', ctx.drive([req])[0])
    except Exception as e:  # noqa: BLE001
        print('  model: <driver unavailable>', e)
