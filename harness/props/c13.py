"""C13 — the parser is total, fails only with its own errors, has no side effects and drops no statement."""
import collections, itertools, json, random, zlib

import gen_scripts as gs
import lexer_common as lc
import parser_oracle as po
import text_streams as ts

ID = 'C13'
LEAN_MODULE = 'Proofs.Pipeline'   # imports Proofs.C13 (M2) and the M3 rejection lemmas: the composed theorem needs both
LEANCHECK_MODULES = ['Proofs.C13', 'Proofs.Pipeline']
THEOREMS = ['Fsic.C13.' + n for n in [
    'term_re_group_order', 'matchAt_consumes', 'scanGo_spans', 'scanTerms_spans', 'split_yields_checked',
    'unterminated_fence_rejected', 'format_safe', 'format_safe_arity', 'format_cannot_fail',
    'manual_field_rejected', 'empty_field_rejected', 'escaped_term_rejected', 'missing_equals_rejected',
    'straddling_term_rejected', 'no_endogenous_rejected', 'parse_error_classes', 'parseScript_error_classes',
    'parseScript_stops_at_first_error', 'pyInt_accepts']] + ['Fsic.Pipeline.' + n for n in [
    'stmts_wellIndexed', 'parseModelText_never_internal', 'parseModelText_error_classes',
    'parseModelText_ok_symbols_wellformed']]
RULE = ('(a) every string up to length L over the 26-character driving alphabet of the property (quick L=4, thorough '
        'L=5) plus lengths L+1..6 over six reduced alphabets chosen for regex interactions, enumerated exhaustively; '
        '(b) random C01-grammar programs (six generator configurations: verbatim fragments, named periods, LHS '
        'offsets, fenced verbatim blocks with comments and continuation lines) and the exhaustive small-statement '
        'tier, each under every layout of the catalogue and random compositions; (c) mutants of those scripts (token '
        'deletion / duplication / swap, bracket insertion / removal, stray characters); (d) a dedicated stream of the '
        'inputs behind the known findings; (f) left-hand sides of every shape (11 atoms x 6 joins x wrappers, up to three atoms), index texts of every shape (120 texts x 8 forms: signs, leading zeros, floats, exponents overflowing a double, inf/nan, 400- and 4301-digit integers, hex / underscores, quotes, backticks, nested brackets, Unicode digits), statements whose validity depends on the method context (global / nonlocal of the parameters of _evaluate), nesting near the compiler limits (15-24 and 93-102 levels) and very long chains / bracket nesting (20-5000); (e) fenced verbatim blocks of every shape (46 bodies incl. compound, dangling and '
        'module-level-only statements x 12 indentation / whitespace shapes x 3 contexts, fence-line variants). Around every '
        'parse_model / build_model / build_model_definition call the process-global state is snapshotted (cheap subset per '
        'call, full snapshot per batch and per call on the small streams). distinct = distinct input text; non-trivial = the text contains at least one '
        'term match or yields at least one statement')
TRUSTED = ['CPython compile(): the syntax check of parse_model (since a900a8c it compiles, it no longer executes; a '
           'regression to exec() trips the canary and is a VIOLATION)',
           'Python `re` engine: the Lean scanner/splitter are hand-written functional readings of term_re / equation_re, '
           'tied to `re` by exhaustive short strings + grammar scripts + mutants only',
           'CPython compile()/exec() and str.format (the latter mirrored by pyFormat for automatic/manual positional '
           'fields; attribute/item access, conversions and format specs are outside the model and skipped)',
           'harness/parser_oracle.py canary (sentinel `self`/`CANARY` in fsic.parser globals, patched print/open)']
ASSUMPTIONS = ['termination of the REAL parser is not a theorem: the Lean scanner terminates by structural recursion, the '
               'regular-expression engine may backtrack; the tie for "parse_model terminates" is the wall-clock budget '
               '(5000 x a reference parse measured in the same child process, at least 5 s per script) on identifiers of '
               'length 1..64 in every family x context, the growth check (doubling the length must not multiply the time by '
               'more than 8) and the 20 s alarm on every other input',
               'the syntax gate of parse_model is CPython compile() applied to each generated statement and to each verbatim '
               'block ON ITS OWN (module level, no indentation context), while build_model places the same text inside a '
               'method body; M2 does not model this gate (pyCompiles is a parameter) — the implication accepted => builds '
               '=> instantiates is checked by the oracle over fenced blocks of every shape, not proved',
               'code points <= U+00FF for the \\b / \\w decisions of the model (isWordU); whitespace and line-break '
               'classes are complete for Unicode',
               'of the symbol stage of parse_equation only the outcome class is modelled in M2 (symbolStage: function/'
               'variable clash, Symbol.combine type clash, exactly one endogenous variable); the symbols are M3',
               'statements whose execution at parse time would not terminate are not generated (the oracle has a '
               '20 s alarm per input)']

META = {
    "text": "Model M2 (term_re scanner, split_equations_iter automaton incl. the unterminated-fence error, whitespace normalisation, int(), Term.__str__/code, str.format, parse_equation in the order of the code: brace count, braces outside matched terms, parse_equation_terms with the missing-'=' check, term spanning the '=', template/format, outcome class of the symbol loop, exactly-one-endogenous check) is total by construction (structural recursion only). Proved for all inputs: matchAt_consumes, scanTerms_spans (non-empty, ordered, disjoint spans inside the text), split_yields_checked, format_safe / format_cannot_fail (once the checks of parse_equation are passed the template has exactly one automatic field per term and both str.format calls succeed), and at FULL strength, without guards, parse_error_classes / parseScript_error_classes: every failure of parse_equation / of the statement loop on the model is ParserError, IndentationError or SymbolError. Composed with M3 (Pipeline.parseModelText = parse_model without the syntax check, tied to the code by driver kind parse_model_text): parseModelText_never_internal — for every text the result is symbols or ParserError/IndentationError/SymbolError, no hypothesis (M2's terms satisfy M3's WellIndexed guard, so TypeError/AssertionError of the symbol logic are unreachable) — and parseModelText_ok_symbols_wellformed (name iff not verbatim, lags None or <= 0, leads None or >= 0). The former failure witnesses ('Y = {0}', 'Y = {}', 'Y = {{X}}', a fenced block in parentheses without '=', 'Y`=`', '1 = X', 'log = log(X)', an unterminated fence) are proved to be rejected with ParserError.",
    "design_ref": "DESIGN.md §5 M2, §6 C13, §7 rows 8, 9, 10, 18",
    "note": "Partial: CPython compile() (the syntax check of parse_model), the `re` engine and the symbols themselves (M3) are outside the proof; the model is tied to term_re/split_equations_iter/parse_equation by exhaustive strings (L<=4 quick, L<=5 thorough over the 26-character driving alphabet, longer over reduced alphabets), grammar scripts under all layouts (strict) and mutants (lenient: only the accepted / own-error / internal-error abstraction must agree; finer drift is reported as model_drift). The oracle runs the property on the real parse_model/build_model inside a private working/temp directory with a canary (sentinel `self`/`CANARY` in fsic.parser globals, patched print/open: a return to exec() is a violation) and with snapshots of the process-global state around every call (warnings filters/hooks, numpy error state, sys.path/modules, cwd, environ, std streams, locale, decimal context, random and numpy.random state, linecache, builtins, open descriptors, files created, every module-level container / function cache / class attribute of the fsic modules) after a warm-up call; any key that differs is a violation `side-effect:<key>`. Fenced blocks of every indentation shape are generated for the clause accepted => build_model => instantiation. Nine C13 findings are fixed in /repo (a900a8c, b0dddfe, ce6705d, 3f601b8, d65c5fa); the oracle keys stay in the code so that a revert is reported.",
    "technique": "Lean 4 proof (structural recursion, single-step lemmas, shape invariant Auto preserved by the normalisation, span invariant) + exhaustive/differential correspondence check + property oracle with canary"
}

FINDING_INPUTS = [
    'Y = 1/0', 'Y = CANARY()', '```\nCANARY()\n```', 'Y = print(1)', 'Y = {0}', 'Y = {}', 'Y = {{X}}', 'Y = { }',
    'Y = {[0]}', '1 = X', 'log = log(X)', 'Y = X\n```\nZ = W', '```', '(\n```\ny\n```\n)', 'as[1] = X', '{a} = X',
    '<e> = X', '`a` = X', '(Y X = Z)', 'Y = 1()', 'Y = X\nY = X', 'Y = X +', 'Y = X\n)', '  Y = X', 'Y = (X',
    'Y = {X', 'if = X', 'Y = X[a]', 'Y = in[1]', '```\n(\n```\nY = X\n)', 'Y = max(X, 0)\nmax = 2', 'Y == X', '```\ns (= 1\n```\nY = X)', 'Y`=`', 'Y = X[`a=1`]', 'Y = span', 'status = X', '\tY = X', 'Y = X\n  Z = 1', '  (Y =\n X)', 'Y = {a}\na = 1', ')', 'Y = X)',
]


# ---- (T) comparisons ------------------------------------------------------------------------------------------

def alpha_split(r):
    stmts, end = r.rsplit('|', 1)
    return ('ok', (stmts.count(';') + 1) if stmts else 0) if end == 'ok' else 'own'


def alpha_model_pe(m):
    if m.startswith('err:'):
        return 'own' if m[4:] in ('ParserError', 'IndentationError', 'SymbolError') else 'internal'
    return 'accepted'


def alpha_impl_pe(i):
    if i['kind'] == 'err':
        return 'own' if i['cls'] in ('ParserError', 'IndentationError', 'SymbolError') else 'internal'
    return 'accepted'


def compare_texts(texts, rep, strict, stream):
    """scan / split / parse_equation_text of every text, model vs implementation.
    strict=True: exact, nothing skipped (grammar scripts); strict='exact': exact incl. the error class, but inputs
    outside the model (format spec / symbol stage) are skipped (the documented malformed examples);
    strict=False: lenient (DESIGN §3.1) — a difference that the accepted / own-error / internal-error abstraction
    absorbs is recorded as model_drift."""
    lines = []
    for s in texts:
        lines += [lc.line('scan', s), lc.line('split', s), lc.line('parse_equation_text', s)]
    outs = lc.drive(lines)
    for k, s in enumerate(texts):
        m_scan, m_split, m_pe = outs[3 * k:3 * k + 3]
        i_scan, i_split, i_pe = lc.impl_scan(s), lc.impl_split(s), lc.impl_parse_equation(s)
        r_pe, detail = lc.cmp_parse_equation(m_pe, i_pe)
        rep.dist[f'{stream}:pe:{r_pe}'] += 1
        diffs = []
        if m_scan != i_scan:
            diffs.append(('term_re.finditer vs scanTerms', m_scan, i_scan))
        if m_split != i_split:
            diffs.append(('split_equations_iter vs splitStatements', m_split, i_split))
        if r_pe == 'disagree' or (strict is True and r_pe.startswith('skip')):
            diffs.append(('parse_equation vs parseEquationText' + (':' + detail if detail else ''), m_pe, repr(i_pe)))
        if not diffs:
            continue
        if not strict:
            a_ok = alpha_split(m_split) == alpha_split(i_split)
            if r_pe == 'disagree':
                a_ok = a_ok and alpha_model_pe(m_pe) == alpha_impl_pe(i_pe)
            if a_ok:
                for what, _, _ in diffs:
                    rep.dist['model_drift:' + what.split(' vs ')[0]] += 1
                continue
        for what, a, b in diffs:
            if len(rep.disagreements) < 40:
                rep.disagree(f'{what} [{stream}]', {'stream': stream, 'text': s}, a, b)
            else:
                rep.dist['disagreement:' + what] += 1


FULL_STREAMS = ('findings', 'findings-wellformed', 'blocks', 'index', 'index-unicode', 'neighbourhood', 'replay')


def oracle_texts(texts, rep, stream, expect_accept=False):
    """The property oracle on every text, inside a private working/temp directory, with the process-global state
    compared (a) around every single call (full snapshot for the small streams, the cheap subset for the
    exhaustive ones) and (b) around the whole batch with the full snapshot; a batch-level difference that no single
    call explained is localised by re-running the batch one input at a time with full snapshots."""
    full = stream in FULL_STREAMS
    with po.sandbox():
        po.warm_up()
        seen = set()
        before = po.full_snapshot()
        for s in texts:
            def violate(key, what, s=s):
                seen.add(key)
                rep.violate(key, what, {'stream': stream, 'text': s})
            tag = po.check(s, violate, rep.dist, expect_accept=expect_accept, full=full)
            rep.dist[f'{stream}:outcome:{tag}'] += 1
            rep.case((stream, s), nontrivial=(tag != 'own:ParserError' or '=' in s),
                     sample={'stream': stream, 'text': s, 'outcome': tag} if zlib.crc32(s.encode()) % 9973 == 0 else None)
        after = po.full_snapshot()
        changed = [k for k in po.SE.diff(before, after) if 'side-effect:' + k not in seen]
        if changed and not any(k.startswith('side-effect:') for k in seen):
            found = False
            for s in texts[:300]:    # localise: the first input whose single run (full snapshots) shows a change
                hit = []
                po.check(s, lambda key, what: hit.append((key, what)) if key.startswith('side-effect:') else None,
                         None, expect_accept=False, full=True)
                if hit:
                    found = True
                    for key, what in hit[:3]:
                        rep.violate(key, what, {'stream': stream, 'text': s})
                    break
            if not found:
                for k in changed:
                    rep.violate('side-effect:' + k, f'process state {k} changed over a batch of {len(texts)} inputs: '
                                + po.SE.describe(k, before, after), {'stream': stream, 'text': texts[0] if texts else ''})


def w_texts(payload, rep):
    """payload = (stream, texts | exhaustive task, strict, expect_accept, oracle_only)"""
    stream, src, strict, expect_accept, oracle_only = payload
    texts = list(ts.expand(src)) if isinstance(src, tuple) else src
    for lo in range(0, len(texts), 20000):
        chunk = texts[lo:lo + 20000]
        if not oracle_only:
            compare_texts(chunk, rep, strict, stream)
        oracle_texts(chunk, rep, stream, expect_accept)


def w_grammar(payload, rep):
    """payload = (seed tag, first index, count, n_random_layouts, oracle_only): programs x layouts, strict."""
    tag, first, count, n_random, oracle_only = payload
    for i in range(first, first + count):
        rng = random.Random(f'{tag}:{i}')
        prog = ts.program(rng, i)
        texts = [gs.render(prog, L) for _, L in ts.layouts_for(rng, n_random)]
        grammar_check(texts, rep, 'grammar', oracle_only)


def w_small(payload, rep):
    tag, index, stride, n_layouts, oracle_only = payload
    names = list(gs.LAYOUT_CATALOGUE)
    for k, prog in enumerate(gs.small_statements(2)):
        if k % stride != index:
            continue
        rng = random.Random(f'{tag}:{k}')
        chosen = ['plain'] + rng.sample(names[1:], min(n_layouts, len(names) - 1))
        texts = [gs.render(prog, gs.catalogue_layout(n, random.Random(rng.random()))) for n in chosen]
        grammar_check(texts, rep, 'small', oracle_only)


def grammar_check(texts, rep, stream, oracle_only):
    texts = list(dict.fromkeys(texts))
    if not oracle_only:
        # whole scripts: statement assembly; single statements: scanner and parse_equation
        stmts = []
        for s in texts:
            try:
                stmts += lc.P.split_equations(s)
            except Exception:  # noqa: BLE001  (reported by the comparison below)
                pass
        compare_texts(texts + list(dict.fromkeys(stmts)), rep, True, stream)
    oracle_texts(texts, rep, stream, expect_accept=True)


def w_mutants(payload, rep):
    tag, first, count, oracle_only = payload
    texts = []
    for i in range(first, first + count):
        rng = random.Random(f'{tag}:{i}')
        prog = ts.program(rng, i)
        base = gs.render(prog, gs.random_layout(random.Random(rng.random())))
        for _ in range(4):
            texts.append(ts.mutate(rng, base))
    texts = list(dict.fromkeys(texts))
    if not oracle_only:
        compare_texts(texts, rep, False, 'mutant')
    oracle_texts(texts, rep, 'mutant')


def w_aux(payload, rep):
    """Function-level comparisons: character classes, int(), str.format, the whitespace normalisation (the last one
    against Python's own re.sub of the three patterns; its tie to /repo is through parse_equation above)."""
    hi, fmt_len = payload
    import re
    cps_ = list(range(0, hi))
    outs = lc.drive([f'char_classes\t{c}' for c in cps_])
    for c, o in zip(cps_, outs):
        if 0xD800 <= c <= 0xDFFF:
            continue
        ch = chr(c)
        want = ''.join('1' if x else '0' for x in (
            re.fullmatch(r'\s', ch) is not None and ch.strip() == '', len(('a' + ch + 'b').splitlines()) == 2,
            re.fullmatch(r'[_A-Za-z]', ch) is not None, re.fullmatch(r'[_A-Za-z0-9]', ch) is not None,
            re.fullmatch(r'[_A-Za-z0-9.]', ch) is not None, re.fullmatch(r'\w', ch) is not None))
        if c > 0xFF:
            o, want = o[:5], want[:5]   # \w above Latin-1 is outside the model's domain (ASSUMPTIONS)
        rep.case(('class', c), nontrivial=False)
        if o != want:
            rep.disagree('character classes (space, linebreak, idstart, idchar, fnchar, word)', {'codepoint': c}, o, want)
    pool = [''.join(t) for n in range(0, 5) for t in itertools.product('1 0_+-', repeat=n)] + ['²', '١', '1.0', '0x1', '1e1', ' 12 ', '\t3\n']
    outs = lc.drive([lc.line('py_int', s) for s in pool])
    for s, o in zip(pool, outs):
        try:
            want = 'i%d' % int(s)
        except ValueError:
            want = 'none'
        if s == '١':
            continue
        rep.case(('int', s), nontrivial=want != 'none')
        if o != want:
            rep.disagree('int() vs pyInt', {'text': s}, o, want)
    temps = [''.join(t) for n in range(0, fmt_len + 1) for t in itertools.product('{}0a 1', repeat=n)]
    for args in (['A', 'BC'], [], ['x']):
        outs = lc.drive(['format\t' + json.dumps({'t': [ord(c) for c in t], 'a': [[ord(c) for c in a] for a in args]})
                         for t in temps])
        for t, o in zip(temps, outs):
            want = lc.impl_format(t, args)
            rep.case(('format', t, len(args)), nontrivial='{' in t)
            rep.dist['format:' + o.split(':')[0]] += 1
            if o != 'unmodelled' and o != want:
                rep.disagree('str.format vs pyFormat', {'template': t, 'args': args}, o, want)
    ws = [''.join(t) for n in range(0, 7) for t in itertools.product('a ()\n', repeat=n)]
    outs = lc.drive([lc.line('normalise', s) for s in ws])
    for s, o in zip(ws, outs):
        rep.case(('norm', s), nontrivial=' ' in s)
        if o != lc.cps(lc.py_normalise(s)):
            rep.disagree('whitespace normalisation vs normaliseWs', {'text': s}, o, lc.cps(lc.py_normalise(s)))


def w_timing(payload, rep):
    """Long identifiers of every family x context, lengths 1..64, each parse under a calibrated wall-clock budget,
    plus the growth of the parse time with the length of the name."""
    import parse_timing as pt
    items = pt.scripts(families=payload)
    times, timeouts, ref = pt.run(items)
    rep.dist[f'timing:{payload[0]}:reference-parse-us'] = int((ref or 0) * 1e6)
    for shape, n, script, budget in timeouts:
        rep.violate('parse-does-not-terminate-in-budget',
                    f'parse_model did not return within {budget:.1f}s (5000 x the reference parse, at least 5 s) for a '
                    f'{n}-character identifier in shape {shape}', {'stream': 'timing', 'text': script, 'shape': shape, 'n': n})
    table = pt.growth_table(times)
    worst = (0.0, None)
    for shape, d in table.items():
        for a, b in ((16, 32), (32, 64), (8, 16)):
            if a in d and b in d:
                ratio = d[b] / max(d[a], 1e-4)
                worst = max(worst, (ratio, f'{shape} {a}->{b}'))
                if ratio > 8 and d[b] > 0.02:
                    rep.violate('parse-time-superpolynomial',
                                f'doubling the identifier from {a} to {b} characters multiplies the parse time by {ratio:.0f} '
                                f'({d[a] * 1e3:.2f} ms -> {d[b] * 1e3:.2f} ms) in shape {shape}',
                                {'stream': 'timing', 'text': [it[2] for it in items if it[0] == shape and it[1] == b][0],
                                 'shape': shape, 'n': b})
        for n, dt in d.items():
            rep.case(('timing', shape, n), nontrivial=n >= 16)
    if table:
        shape0 = sorted(table)[0]
        rep.notes.append(f'parse time (us) by identifier length, shape {shape0}: '
                         + ', '.join(f'{n}:{int(table[shape0][n] * 1e6)}' for n in sorted(table[shape0]))
                         + f'; worst doubling ratio {worst[0]:.1f} at {worst[1]}; reference parse {int((ref or 0) * 1e6)} us')
    rep.dist['timing:scripts'] += len(times)
    rep.dist[f'timing:{payload[0]}:worst-doubling-ratio-x10'] = int(worst[0] * 10)


for _n, _f in (('timing', w_timing), ('texts', w_texts), ('grammar', w_grammar), ('small', w_small), ('mutants', w_mutants), ('aux', w_aux)):
    ts.register('c13:' + _n, _f)


def run(ctx, rep):
    quick = ctx.tier == 'quick'
    oo = ctx.oracle_only
    L = 4 if quick else 5
    tasks = []
    for t in ts.exhaustive_tasks(lc.ALPHABET, 0, L, plen=2):
        tasks.append(('c13:texts', ('exhaustive', t, False, False, oo)))
    for alpha, hi in (ts.REDUCED[:4] if quick else ts.REDUCED):
        a = list(alpha)
        for t in ts.exhaustive_tasks(a, L + 1, 5 if quick else hi, plen=2):
            tasks.append(('c13:texts', ('reduced', t, False, False, oo)))
    n_prog = (300 if quick else 6000) * ctx.scale
    per = 25
    tag = f'{ctx.seed}:grammar'
    for first in range(0, n_prog, per):
        tasks.append(('c13:grammar', (tag, first, min(per, n_prog - first), 2 if quick else 4, oo)))
    stride = 32
    for index in range(stride):
        tasks.append(('c13:small', (f'{ctx.seed}:small', index, stride, 3 if quick else 11, oo)))
    n_mut = (1000 if quick else 50000) * ctx.scale
    for first in range(0, n_mut, 100):
        tasks.append(('c13:mutants', (f'{ctx.seed}:mut', first, min(100, n_mut - first), oo)))
    tasks.append(('c13:texts', ('findings', FINDING_INPUTS, 'exact', False, oo)))
    import parse_timing as pt
    for fam in pt.FAMILIES:
        tasks.insert(0, ('c13:timing', [fam]))      # first: they run while the machine is least loaded by this check
    stress = list(ts.stress_scripts(not quick))
    for lo in range(0, len(stress), 12):
        tasks.insert(0, ('c13:texts', ('stress', stress[lo:lo + 12], False, False, oo)))    # the slowest inputs first
    lhs = list(ts.lhs_shape_scripts(not quick))
    for lo in range(0, len(lhs), 1500):
        tasks.append(('c13:texts', ('lhs', lhs[lo:lo + 1500], False, False, oo)))
    index = list(ts.index_shape_scripts())
    for lo in range(0, len(index), 100):
        tasks.append(('c13:texts', ('index', index[lo:lo + 100], False, False, oo)))
    # decimal digits / spaces above U+00FF: outside the model's domain (ASSUMPTIONS), oracle only
    tasks.append(('c13:texts', ('index-unicode', list(ts.index_shape_scripts(ts.INDEX_TEXTS_UNICODE)), False, False, True)))
    blocks = [t for _, t in ts.block_scripts()]
    for lo in range(0, len(blocks), 120):
        tasks.append(('c13:texts', ('blocks', blocks[lo:lo + 120], False, False, oo)))
    tasks.append(('c13:texts', ('findings-wellformed', ['T = log(-(0.5 + 2))', 'Y = exp(-(1 + 2)) * X'], True, True, oo)))
    if not oo:
        tasks.append(('c13:aux', (0x3100 if quick else 0x110000, 5 if quick else 6)))
    ts.run_pool(ctx, rep, tasks)
    rep.exhaustive = False
    rep.notes.append(f'exhaustive L<={L} over {len(lc.ALPHABET)} characters; reduced alphabets '
                     f'{[a for a, _ in ts.REDUCED]} to length {5 if quick else 6}; {n_prog} programs x '
                     f'{len(gs.LAYOUT_CATALOGUE)}+ layouts; {n_mut * 4} mutants')


def search(ctx, rep, disagreements):
    """P or T broke: oracle on the disagreeing inputs and their neighbourhood, then the regular stream x4."""
    texts = []
    for d in disagreements:
        t = d.get('case', {}).get('text')
        if isinstance(t, str):
            texts.append(t)
            rng = ctx.sub_rng('neigh', t)
            texts += [ts.mutate(rng, t) for _ in range(20)]
    oracle_texts(list(dict.fromkeys(texts)), rep, 'neighbourhood')
    run(ctx, rep)


def replay(ctx, rep, case):
    if case.get('stream') == 'timing':
        import parse_timing as pt
        times, timeouts, ref = pt.run([(case.get('shape', 'replay'), case.get('n', 0), case['text'])])
        print('  text :', repr(case['text']), ' reference parse', ref, ' time', times, ' timeouts', timeouts)
        if timeouts:
            rep.violate('parse-does-not-terminate-in-budget', 'still over budget', case)
        elif any(dt > 5000 * (ref or 1e-3) for dt in times.values()):
            rep.violate('parse-time-superpolynomial', 'still far above the reference parse', case)
        return
    if case.get('stream') == 'watchdog':
        print('  task :', case.get('task'), ' payload', str(case.get('payload'))[:300])
        print('  (a whole task overran its deadline; it carries no literal scripts to replay one by one)')
        return
    s = case['text']
    print('  text :', repr(s))
    oracle_texts([s], rep, 'replay',
                 expect_accept=case.get('stream') in ('grammar', 'small', 'findings-wellformed'))
    try:
        outs = lc.drive([lc.line('scan', s), lc.line('split', s), lc.line('parse_equation_text', s)])
        print('  model:', outs)
    except Exception as e:  # noqa: BLE001
        print('  model: <driver unavailable>', e)
    print('  impl :', [lc.impl_scan(s), lc.impl_split(s), lc.impl_parse_equation(s)])
