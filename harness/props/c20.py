"""C20 — the dependency-graph tool reports exactly the dependencies the equations have."""
import json, random, re, warnings

import numpy as np

import fsic  # noqa: F401
import fsic.tools
import gen_scripts as gs
import expr_common as ec

ID = 'C20'
LEAN_MODULE = 'Proofs.C20'
THEOREMS = ['Fsic.C20.' + n for n in [
    'edges_of_stmt', 'graph_edges_spec', 'graph_lhs_nodes', 'graph_edges_of_script', 'coincidence',
    'no_edge_no_influence', 'strict_terms_read', 'eager_terms_read', 'edge_is_read_partial', 'lazy_reads',
    'lazy_terms_read_somewhere_partial', 'every_edge_is_read_false_at_witness']]
RULE = ('programs of the C01 grammar (exhaustive small statements under rotating layouts, stress programs with '
        'two-digit lags/leads, parameters/errors with offsets, calls and lazy constructs, sampled programs up to 7 '
        'equations, the same programs with inline verbatim fragments from gen_scripts.VERBS in every equation, and with '
        'series renamed to function-looking names exp/log/max/min/abs/np/…, with identifiers of up to 64+ characters '
        'sharing 32/64-character prefixes and long dotted calls, one equation with 50-70 terms, 100-130 equations); for each program the real graph is compared with the model graph and with the term sets of the '
        'grammar AST, and at one feasible period EVERY (series, offset) cell within the model\'s lag/lead window is '
        'perturbed on random data: effect on every endogenous variable after one isolated evaluation of its equation '
        'vs the edges, reads observed with recording arrays. distinct = distinct script text; non-trivial = graph '
        'with at least one term edge')
TRUSTED = ['networkx DiGraph node/edge/attribute semantics', 'CPython evaluation order and laziness of if/else, and, or',
           'the recording ndarray logs every element access of the generated code']
ASSUMPTIONS = ['programs parse (every statement is `lhs = expression`), one equation per endogenous variable',
               'the symbols are handed to symbols_to_graph as any iterable of Symbol objects (list, tuple, generator, '
               'iter/filter/map/chain object, dict values view, deque, list subclass): all denote the same symbol list',
               'no named periods on the right-hand side of the perturbed series (guard of no_edge_no_influence)',
               'completeness ("every edge is read") is claimed for equations without if/else, and, or; the lazy case '
               'is exhibited as known finding lazy-branch-not-read']

META = {
    "text": "Token-level theorems for ALL well-formed programs, stores and operator interpretations: the graph built by re-scanning the normalised equations has, among term nodes, an edge x -> y iff x (with its offset) is a term of the right-hand side of y's equation, and the nodes carrying an equation are exactly the left-hand sides (graph_edges_spec, graph_lhs_nodes, graph_edges_of_script, using that the atoms of a parsed token list are the terms of its tree); the value of an expression depends only on the store cells of its terms, so a cell with no edge into y cannot influence y (coincidence, no_edge_no_influence); without lazily evaluated sub-expressions every term/edge is read for all data (strict_terms_read, edge_is_read_partial), in general every term outside a lazy position is (eager_terms_read), and a term in a lazy branch is read exactly when its guard selects it (lazy_reads, lazy_terms_read_somewhere_partial). The literal sentence 'every term with an edge is read' is proved FALSE at a witness (every_edge_is_read_false_at_witness) and reproduced on the real code as known finding. The model graph is compared exactly (nodes, equation attributes, edges, including the function/keyword nodes the tool adds) with fsic.tools.symbols_to_graph on every generated program.",
    "design_ref": "DESIGN.md §5 M4/M8, §6 C20, §7 row 17",
    "note": "Completeness is partial by necessity: Python does not evaluate the branch not taken of `a if c else b` nor the right operand of a decided and/or, so a term there has an edge but is not read (known finding lazy-branch-not-read, Python semantics rather than an fsic defect). Token level: the re-scan of the normalised TEXT by term_re is tied to the token model by the correspondence check only. Trusted: Lean kernel, standard axioms, networkx, the harness.",
    "technique": "Lean 4 proof (parser/atoms lemma by induction on fuel, coincidence by structural induction for every operator interpretation) + differential correspondence check + perturbation oracle with recording arrays"
}

class _Skip(Exception):
    pass


NODE_RE = re.compile(r'^([A-Za-z_][A-Za-z_0-9]*)\[t(?:([+-])([0-9]+))?\]$')


def parse_node(label):
    """Variable-like node label -> (name, offset); None for function names, keywords, verbatim, named periods."""
    m = NODE_RE.match(str(label))
    if not m:
        return None
    k = int(m.group(3)) if m.group(3) else 0
    return m.group(1), (-k if m.group(2) == '-' else k)


def mkcase(prog, text, wrap=False, stream='', seed=''):
    return {'text': text, 'prog': ec.p2j(prog), 'wrap': bool(wrap), 'stream': stream, 'data_seed': f'{seed}:{text}'}


def lazy_positions(e, lazy=False, acc=None):
    """Terms of the expression with a flag: underneath a lazily evaluated position?"""
    acc = [] if acc is None else acc
    if isinstance(e, gs.Term):
        acc.append((e, lazy))
    elif isinstance(e, gs.Un):
        lazy_positions(e.e, lazy, acc)
    elif isinstance(e, gs.Bin):
        lazy_positions(e.l, lazy, acc)
        lazy_positions(e.r, lazy or e.op in ('and', 'or'), acc)
    elif isinstance(e, gs.Call):
        for a in e.args:
            lazy_positions(a, lazy, acc)
    elif isinstance(e, gs.IfElse):
        lazy_positions(e.a, True, acc)
        lazy_positions(e.c, lazy, acc)
        lazy_positions(e.b, True, acc)
    return acc


def stress_programs():
    B, C, N, T, I = gs.Bin, gs.Call, gs.Num, gs.Term, gs.IfElse
    V = lambda n, ix=None: gs.Term('var', n, ix)  # noqa: E731
    P = lambda n, ix=None: gs.Term('param', n, ix)  # noqa: E731
    E = lambda n, ix=None: gs.Term('error', n, ix)  # noqa: E731
    Y = V('Y')
    out = [
        gs.Program([gs.Equation(Y, B('+', B('*', P('alpha_1'), V('X', -1)), E('e')))]),
        gs.Program([gs.Equation(Y, B('+', B('*', P('a', -2), V('X', 12)), E('u', 1)))]),
        gs.Program([gs.Equation(Y, B('-', V('X', -12), V('X', 10))), gs.Equation(V('Z'), B('*', V('Y', -1), P('b')))]),
        gs.Program([gs.Equation(Y, C('exp', (B('*', P('theta'), C('log', (V('X', -1),))),)))]),
        gs.Program([gs.Equation(Y, C('max', (V('X'), B('*', P('k'), V('Y', -1)))))]),
        gs.Program([gs.Equation(Y, I(V('A'), B('>', V('C'), N('1')), V('B')))]),
        gs.Program([gs.Equation(Y, I(V('A', -1), B('and', B('>', V('C'), N('1')), B('<', V('D', 1), N('2'))), P('b', -1)))]),
        gs.Program([gs.Equation(Y, I(N('1'), B('or', B('>', V('C'), N('1')), B('<', V('D'), N('2'))), E('e')))]),
        gs.Program([gs.Equation(V('C'), B('*', P('alpha_1'), V('YD'))), gs.Equation(V('YD'), B('-', V('Y'), V('T'))),
                    gs.Equation(V('Y'), B('+', V('C'), V('G'))), gs.Equation(V('T'), B('*', P('theta'), V('Y')))]),
        gs.Program([gs.Equation(V('A'), B('+', V('B'), V('A', -1))), gs.Equation(V('B'), B('+', V('A', 1), V('B', -1)))]),
        gs.Program([gs.Equation(Y, B('+', V('Y', -1), V('Y', -2)))]),
        gs.Program([gs.Equation(Y, B('*', V('is_open', 1), C('np.sqrt', (V('not_X', -1),))))]),
        # inline verbatim fragments (backticks inside an ordinary equation): a fragment is a constant, the equation
        # keeps its node, its attribute and the edges of all its terms
        gs.Program([gs.Equation(V('C'), B('+', B('*', P('alpha'), B('-', V('Y', -1), V('T'))), B('*', gs.Verb('0.25'), V('W', -1))))]),
        gs.Program([gs.Equation(V('I'), B('*', gs.Verb('np.log(2.0)'), V('K', -1)))]),
        gs.Program([gs.Equation(Y, B('+', gs.Verb('len(self.span)'), V('X')))]),
        gs.Program([gs.Equation(Y, B('+', B('*', gs.Verb("len('a  b')"), V('X', -1)), gs.Verb('( 1  +  1 )')))]),
        gs.Program([gs.Equation(V('C'), B('*', gs.Verb('0.5'), V('Y', -1))), gs.Equation(V('Y'), B('+', V('C'), V('G'))),
                    gs.Equation(V('K'), B('+', V('K', -1), B('*', gs.Verb("float(len('( x )'))"), E('e', 1))))]),
        gs.Program([gs.Equation(Y, I(gs.Verb('2.5'), B('>', V('X', 1), gs.Verb('(1 + 1)')), C('max', (V('Z', -2), gs.Verb('1.5')))))]),
        # parameters / errors named like Python keywords
        gs.Program([gs.Equation(V('B'), B('*', V('V'), B('+', P('lambda'), B('*', P('mu'), V('R')))))]),
        gs.Program([gs.Equation(V('B'), B('-', B('+', B('*', V('V'), P('del', -1)), E('in')), E('is', 1)))]),
        gs.Program([gs.Equation(Y, B('+', C('max', (P('None'), E('True', 1))), C('exp', (P('lambda', -2),)))),
                    gs.Equation(V('Z'), B('*', Y, E('for')))]),
        # series named like functions
        gs.Program([gs.Equation(Y, B('+', B('*', N('2'), V('exp')), V('log', -1)))]),
        gs.Program([gs.Equation(V('Z'), B('+', B('*', P('log'), V('X')), E('exp')))]),
        gs.Program([gs.Equation(V('max'), B('+', V('min', -1), N('1'))), gs.Equation(Y, B('*', V('max', -1), C('exp', (V('np'),))))]),
    ]
    return out


def all_cases(ctx):
    seed, quick = ctx.seed, ctx.tier == 'quick'
    names = list(gs.LAYOUT_CATALOGUE)
    cases = []
    for i, prog in enumerate(gs.small_statements()):
        layouts = [names[i % len(names)]] if quick else names
        for lname in layouts:
            L = gs.catalogue_layout(lname, random.Random(f'{i}:{lname}'))
            cases.append(mkcase(prog, gs.render(prog, L), L.wrap_rhs, 'small:' + lname, seed))
    for i, prog in enumerate(stress_programs()):
        for lname in names:
            L = gs.catalogue_layout(lname, random.Random(f's{i}:{lname}'))
            cases.append(mkcase(prog, gs.render(prog, L), L.wrap_rhs, 'stress:' + lname, seed))
    rng = ctx.sub_rng('sampled')
    n_big = (4000 if quick else 20000) * ctx.scale
    cfg = gs.GenConfig(max_equations=12, max_depth=4, max_lag=3, max_lead=2)
    cfg_deep = gs.GenConfig(max_equations=12, max_depth=3, max_lag=12, max_lead=10)
    cfg_lhs = gs.GenConfig(max_equations=6, max_depth=3, max_lag=3, max_lead=2, lhs_offsets=True)
    for i in range(n_big):
        prog = gs.gen_program(rng, cfg_lhs if i % 10 == 7 else cfg_deep if i % 5 == 0 else cfg)
        L = gs.catalogue_layout(names[i // 2 % len(names)], rng) if i % 2 == 0 else gs.random_layout(rng)
        cases.append(mkcase(prog, gs.render(prog, L), L.wrap_rhs, 'sampled', seed))
        if i % 4 == 1:      # the same program with inline verbatim fragments in every equation
            prog2 = ec.with_inline_verbatim(rng, prog)
            cases.append(mkcase(prog2, gs.render(prog2, L), L.wrap_rhs, 'verbatim', seed))
        if i % 4 == 2:      # ... / with identifiers of up to 64+ characters (shared 32/64-character prefixes), long dotted calls
            prog2 = ec.with_long_names(rng, prog)
            cases.append(mkcase(prog2, gs.render(prog2, L), L.wrap_rhs, 'longnames', seed))
        if i % 4 == 0:      # ... / with {parameters} and <errors> named like Python keywords
            prog2, used = ec.with_keyword_names(rng, prog)
            if used:
                cases.append(mkcase(prog2, gs.render(prog2, L), L.wrap_rhs, 'kwnames', seed))
        if i % 4 == 3:      # ... / with some series renamed to function-looking names the program does not call
            prog2, used = ec.with_function_names(rng, prog)
            if used:
                cases.append(mkcase(prog2, gs.render(prog2, L), L.wrap_rhs, 'fnames', seed))
    # scale: 50+ terms in one equation, 100+ equations
    for i in range((2 if quick else 25) * ctx.scale):
        for prog, kind in ((ec.many_terms_program(rng, rng.randint(50, 70)), 'many-terms'),
                           (ec.many_equations_program(rng, rng.randint(100, 130)), 'many-equations')):
            L = gs.random_layout(rng) if i % 2 else gs.PLAIN
            cases.append(mkcase(prog, gs.render(prog, L), L.wrap_rhs, 'big:' + kind, seed))
    return cases


# ---- oracle -----------------------------------------------------------------------------------------------------------

def isolated_model(b, name):
    """The built model reduced to the single equation of `name` (all series kept)."""
    import fsic
    syms = [s if (s.name == name or s.equation is None) else s._replace(equation=None, code=None) for s in b.symbols]
    with warnings.catch_warnings():
        warnings.simplefilter('ignore')
        return fsic.build_model(syms)


def observe_(case, rep):
    prog = ec.j2p(case['prog'])
    text = case['text']
    eqs = ec.equations(prog)
    rep.dist['stream:' + case['stream'].split(':')[0]] += 1

    def violate(key, what):
        rep.violate(key, what, case)

    b = ec.Built(text)
    if b.error:
        violate('rejected', f'program of the grammar rejected with {b.error}: {b.error_msg}')
        return None
    # the symbols in any collection form the tool accepts (list, tuple, one-shot iterables, ...): same graph
    form, coll = ec.symbol_collection(random.Random(case['data_seed'] + ':form'), b.symbols)
    rep.dist['symbols-form:' + form] += 1
    try:
        G = fsic.tools.symbols_to_graph(coll)
    except Exception as e:  # noqa: BLE001
        violate('graph-raised', f'symbols_to_graph({form} of symbols) raised {type(e).__name__}: {e}')
        return None
    if form != 'list':
        try:
            G0 = fsic.tools.symbols_to_graph(list(b.symbols))
            canon = lambda g: (sorted((str(a), str(d.get('equation'))) for a, d in g.nodes(data=True)),  # noqa: E731
                               sorted((str(a), str(c)) for a, c in g.edges))
            if canon(G) != canon(G0):
                violate('graph-depends-on-collection-form',
                        f'symbols_to_graph gives {G.number_of_nodes()} nodes / {G.number_of_edges()} edges for the symbols '
                        f'as {form} but {G0.number_of_nodes()} / {G0.number_of_edges()} for the same symbols as a list')
        except Exception as e:  # noqa: BLE001
            violate('graph-raised', f'symbols_to_graph(list of symbols) raised {type(e).__name__}: {e}')
    impl = {'nodes': sorted(str(n) for n in G.nodes),
            'attr': {str(n): ec.lex(d['equation']) for n, d in G.nodes(data=True) if 'equation' in d},
            'edges': sorted([str(a), str(c)] for a, c in G.edges)}
    # -- structure, restated from the property over the grammar AST --
    var_nodes = {n: parse_node(n) for n in G.nodes}
    var_nodes = {n: p for n, p in var_nodes.items() if p is not None}
    by_cell = {}
    for n, p in var_nodes.items():
        by_cell.setdefault(p, []).append(n)
    exp = gs.expected_classes(prog)
    lags, leads = exp['lags'], exp['leads']
    n = lags + leads + 3
    rng = random.Random(case['data_seed'])
    data0 = gs.random_data(rng, prog, n)
    t = rng.randrange(lags, n - leads)
    endo = b.endogenous()
    n_edges = 0
    m0 = b.Model(range(n))      # `self` of verbatim fragments such as len(self.span)
    shadowed = ec.shadowed_function_roots(prog)
    kwnamed = ec.keyword_named(prog)
    for nm in kwnamed:
        rep.dist['series-name:keyword:' + nm] += 1
    frags = [f for st in eqs for f in ec.verbs_of(st.rhs)]
    if frags:
        rep.dist['programs-with-inline-verbatim'] += 1
        for f in set(frags):
            rep.dist['fragment:' + f] += 1
    rep.dist['longest-name:' + ec.length_bucket(prog)] += 1
    rep.dist['terms-in-longest-equation:' + ('>=50' if max(len(gs.terms_of(st.rhs)) for st in eqs) >= 50 else '<50')] += 1
    for nm in sorted(set(data0) & set(ec.FUNCTION_LIKE)):
        rep.dist['series-name:' + nm] += 1
    for st in eqs:
        ycell = (st.lhs.name, st.lhs.offset)
        ynodes = by_cell.get(ycell, [])
        if len(ynodes) != 1:
            violate('lhs-node-missing', f'{len(ynodes)} nodes for the left-hand side {ycell}; nodes: {impl["nodes"]}')
            continue
        y = ynodes[0]
        # the node carries its normalised equation: present, and denoting the script's equation
        eqtext = G.nodes[y].get('equation')
        if eqtext is None:
            violate('equation-attribute-missing', f'node {y} carries no equation')
        else:
            ref = {k: v.copy() for k, v in data0.items()}
            _w, _r, exc_ref = ec.run_reference(gs.Program([st]), ref, t, env={'self': m0, 'len': len, 'float': float, 'np': np})
            env = {'exp': np.exp, 'log': np.log, 'max': max, 'min': min, 'abs': abs, 'np': np, 'self': m0, 'len': len,
                   'float': float}
            env.update({nm: ec.Ser(v.copy(), None) for nm, v in data0.items()})   # a series named `exp` is `exp[t]`
            env['t'] = ec.TPos(t)
            try:
                if kwnamed:         # `lambda[t]` is a node label, not Python
                    rep.dist['equation-text:skipped-keyword-named-series'] += 1
                    raise _Skip()
                if shadowed:        # e.g. series `np` next to np.log(...): the text is not plain Python
                    rep.dist['equation-text:skipped-series-shadows-called-function-root'] += 1
                    raise _Skip()
                with warnings.catch_warnings(), np.errstate(all='ignore'):
                    warnings.simplefilter('ignore')
                    exec(eqtext.replace('`', ' '), env)     # a verbatim fragment is pasted as it is
                d = ec.same_arrays(ref, {nm: env[nm].arr for nm in data0})
                if d:
                    violate('equation-attribute-wrong', f'equation on node {y} ({eqtext!r}) gives {d[0]} on random data')
            except _Skip:
                pass
            except Exception as e:  # noqa: BLE001
                if type(e).__name__ != exc_ref:     # (the script's own equation may raise, e.g. 7 / `len({})`)
                    violate('equation-attribute-wrong', f'equation on node {y} ({eqtext!r}) not evaluable: {type(e).__name__}')
        want = {(x.name, x.offset) for x in gs.terms_of(st.rhs)}
        got = {var_nodes[a] for a, c in G.in_edges(y) if a in var_nodes}
        n_edges += len(got)
        if want - got:
            violate('edge-missing', f'terms {sorted(want - got)} of the right-hand side of {y} have no edge into it')
        if got - want:
            violate('edge-spurious', f'edges {sorted(got - want)} into {y} are not terms of its right-hand side')
        # -- data flow: perturb every cell in the window; one isolated evaluation of y's equation --
        try:
            M1 = isolated_model(b, st.lhs.name)
        except Exception as e:  # noqa: BLE001
            violate('isolated-build-failed', f'{type(e).__name__}: {e}')
            continue
        m = M1(range(n))
        missing = [nm for nm in data0 if nm not in m.names]
        if missing:
            violate('series-missing', f'model has no series for {missing}')
            continue
        arrs = {nm: m.__dict__['_' + nm] for nm in data0}

        def evaluate(pert=None, log=None):
            for nm, a in arrs.items():
                a[:] = data0[nm]
            if pert is not None:
                arrs[pert[0]][pert[1]] += 0.37
            if log is not None:
                ec.install_recorders(m, log)
            exc = ec.run_evaluate(m, t)
            if log is not None:
                ec.remove_recorders(m)
                for nm in data0:
                    arrs[nm] = m.__dict__['_' + nm]
            return exc, float(arrs[st.lhs.name][t + st.lhs.offset])

        log = []
        exc0, y0 = evaluate(None, log)
        if exc0 is not None:
            rep.dist['skipped:evaluation-raised'] += 1
            continue
        reads = {(nm, ec.norm_pos(k, n) - t) for op, nm, k in log if op == 'r'}
        lazy = {}
        for term, lz in lazy_positions(st.rhs):
            c = (term.name, term.offset)
            lazy[c] = lazy.get(c, True) and lz
        for c in sorted(reads - got):
            violate('read-without-edge', f'evaluating {y} at t={t} reads {c[0]}[t{c[1]:+d}] but there is no such edge')
        for c in sorted(got - reads):
            key = 'lazy-branch-not-read' if lazy.get(c, False) else 'edge-not-read'
            violate(key, f'{c[0]}[t{c[1]:+d}] has an edge into {y} but is not read when {y} is evaluated at t={t} '
                         f'({"in a branch not taken / short-circuited operand" if key.startswith("lazy") else "strict position"})')
        cells = [(nm, k) for nm in sorted(data0) for k in range(-lags, leads + 1) if 0 <= t + k < n]
        if len(cells) > 80:     # large programs: every cell with an edge, plus a sample of the others
            others = [c for c in cells if c not in got]
            cells = [c for c in cells if c in got] + rng.sample(others, min(len(others), 30))
            rep.dist['perturbation:sampled-cells'] += 1
        for nm, k in cells:
            if True:
                exc1, y1 = evaluate((nm, t + k))
                changed = exc1 is not None or not ec.same_float(y0, y1)
                rep.dist['perturbation:' + ('edge' if (nm, k) in got else 'no-edge') + (':changed' if changed else ':same')] += 1
                if changed and (nm, k) not in got:
                    violate('no-edge-but-influences', f'perturbing {nm}[t{k:+d}] (no edge into {y}) changes {y}: {y0!r} -> {y1!r} (t={t})')
    rep.case(text, nontrivial=n_edges > 0,
             sample={'script': text, 'edges': impl['edges'][:8]} if rep.evaluations % 211 == 0 else None)
    rep.dist['equations:%d' % len(eqs)] += 1
    return impl


def observe(case, rep):
    if 'prog' not in case:
        return None
    try:
        return observe_(case, rep)
    except Exception as e:  # noqa: BLE001
        import traceback
        rep.violate('observation-failed',
                    'the real code could not be observed: ' + ''.join(traceback.format_exception_only(type(e), e)).strip()[:300]
                    + ' @ ' + traceback.format_tb(e.__traceback__)[-1].strip().replace('\n', ' ')[:200], case)
        return None


# ---- T ------------------------------------------------------------------------------------------------------------------

def compare(case, impl, forms, rep):
    nodes = sorted({lab for lab, _ in forms['nodes']})
    if nodes != impl['nodes']:
        rep.disagree('graph nodes: model != impl', case, nodes, impl['nodes'])
    attr = {}
    for lab, i in forms['nodes']:
        if i is not None:
            attr[lab] = ec.lex_all(forms['eq'][i])
    if attr != impl['attr']:
        rep.disagree('equation attributes: model != impl', case, attr, impl['attr'])
    edges = sorted([a, c] for a, c in {(a, c) for a, c in forms['edges']})
    if edges != impl['edges']:
        rep.disagree('graph edges: model != impl', case, edges, impl['edges'])


def run_cases(ctx, rep, cases):
    impls = ec.observe_all(observe, cases, rep, ctx.workers)
    if ctx.oracle_only:
        return
    todo = [(c, i) for c, i in zip(cases, impls) if i is not None]
    lines = [ec.line('expr_forms', {'stmts': [ec.stmt_toks(st, c['wrap']) for st in ec.equations(ec.j2p(c['prog']))]})
             for c, _ in todo]
    for (c, i), out in zip(todo, ctx.drive(lines)):
        if out.startswith('!'):
            rep.disagree('driver rejected the request', c, out, None)
        else:
            compare(c, i, json.loads(out), rep)


def run(ctx, rep):
    cases = all_cases(ctx)
    for lo in range(0, len(cases), 20000):
        run_cases(ctx, rep, cases[lo:lo + 20000])
    rep.notes.append(f'{len(cases)} programs')
    rep.exhaustive = False


def search(ctx, rep, disagreements):
    seen = set()
    for d in disagreements:
        c = d.get('case')
        if isinstance(c, dict) and 'text' in c and c['text'] not in seen:
            seen.add(c['text'])
            observe(c, rep)
    if any(v['key'] != 'lazy-branch-not-read' for v in rep.violations):
        return
    run(ctx, rep)


def replay(ctx, rep, case):
    impl = observe(case, rep)
    print('  script:', case['text'].replace('\n', ' ⏎ '))
    if impl:
        print('  edges :', impl['edges'])
