"""C15 — all ways of building a class from symbols yield the same model."""
import json, random, struct, typing, warnings

import numpy as np

import fsic
from fsic import parser as P

import gen_scripts as gs
import parser_common as pc
import solver_common as sc

ID = 'C15'
LEAN_MODULE = 'Proofs.C15'
THEOREMS = ['Fsic.C15.' + n for n in [
    'template_skeletons_equal', 'template_statements_equal', 'templates_parsed', 'expressions_selected',
    'selected_in_symbol_order', 'selected_append', 'selected_keeps_relative_order', 'converter_called_once_each', 'no_equation_no_code', 'no_equation_pass',
    'statement_defines_one', 'every_statement_contributes', 'body_equation_count',
    'indent_only_prefixes', 'converter_verbatim', 'lists_ignore_equations', 'empty_lists', 'empty_model_solves']]
RULE = ('two streams. (a) symbol LISTS that no single parse_model() call returns: permutations, concatenations of two '
        'models (with and without shared names), verbatim symbols before/between equations, repeated symbols, a verbatim '
        'block rescaling a variable that a later equation reads (order observable in the results, checked against running '
        'each symbol\'s code in list order). Every build is also solved on spans of length LAGS+LEADS+{0,1,2} with default and explicit start/end and compared with the hand-computable expectation (positions, statuses, values of one in-order pass; full trivial solve for models without endogenous variables), and rebuilt with the lags/leads/min_* settings given as NumPy integer scalars (int64, int32, intp, uint8, int16, array element, array max; bool and float left out because HEAD itself writes them verbatim): byte-identical text, executable in the plain-int namespace, LAGS/LEADS plain ints, all three routes. Lists also hold symbols whose equation/code are falsy but not None (empty / comment-only / whitespace fences from parse_model and hand-built; they carry an equation: converter called, output inserted) with a marking converter in place of the if-wrapping one, and exogenous-only / verbatim-only lists; every evaluation and boundary solve runs in a sampled numeric dtype (float64, float32, int) against the reference in that dtype, and every model without endogenous variables is solved in each dtype HEAD accepts (float64, float32, int, bool, str, object). (b) grammar programs (gen_scripts.gen_program with verbatim fragments and named periods) extended with fenced '
        'verbatim blocks (incl. blank lines and nested indentation), plus the empty script, verbatim-only scripts and '
        'symbol lists with the equation of one endogenous symbol removed; crossed with with_type_hints in {True,False} x '
        'lag/lead settings (default + rows of the C03 Latin design) x converter in {default, identity-on-code, wrapping '
        '(multi-line, blank and whitespace-only lines), empty}; every combination is built three ways (build_model, '
        'exec of build_model_definition text, exec of CODE) and evaluated on random data at every feasible period. '
        'distinct = distinct (script, symbols variant, options, converter); non-trivial = at least one code-carrying symbol')
TRUSTED = ['CPython exec/compile: the class text means what its ast shows',
           'textwrap.indent / str.splitlines / str.isspace as modelled in FsicModel/Parser.lean (compared on every case)']
ASSUMPTIONS = ['"a namespace that provides BaseModel" is read as BaseModel plus the names the generated text itself references '
               '(List, Optional, Any from typing for the typed template; np for the replaced functions exp/log)',
               'symbols come from parse_model (lags/leads are ints for indexed symbols)']

META = {
    "text": "Theorems: the reflected, annotation- and docstring-stripped AST skeletons of MODEL_TEMPLATE_TYPED and MODEL_TEMPLATE_UNTYPED are equal (re-proved against /repo on every run); the _evaluate body is the converter applied to exactly the symbols of type ENDOGENOUS/VERBATIM that carry both equation and code, once each, in symbol order; every accepted equation statement yields exactly one endogenous symbol carrying that statement's equation and code, every statement of an accepted script is carried by a selected symbol, and the number of code blocks = distinct assigned names + verbatim statements (no statement silently discarded, fix d65c5fa); the converter's text is inserted verbatim (textwrap.indent only prefixes non-blank lines, proved by erasing the prefixes); no code-carrying symbol => `pass`; class lists do not depend on equation/code; an empty symbol list gives empty lists and LAGS=LEADS=0; with no check variables solveT converges at k = max 1 min_iter for every max_iter >= k (corollary of C02.solveT_converges). The model is tied to build_model_definition by exact comparison of the body text and class attributes; the three build routes x two templates are executed and compared on the real code.",
    "design_ref": "DESIGN.md §5 M3, §6 C15",
    "note": "Trusted: Lean kernel; axioms propext/Classical.choice/Quot.sound; CPython exec; the correspondence harness. Reading enforced: the exec namespace provides BaseModel plus the names the template text itself references (typing.List/Optional/Any, np) — with BaseModel alone the typed text raises NameError at class-body evaluation, which is recorded in the evidence notes and not counted.",
    "technique": "Lean 4 proof (rfl over reflected AST skeletons, list lemmas, corollary of the C02 solver theorem) + differential correspondence check + three-way build/exec comparison on the real code"
}

VERB_BLOCKS = [('pass',), ('_aux = t + 1',), ('_a = 1', '', '_b = _a + 1'), ('if t >= 0:', '    _c = 2', '', '    _d = 3'),
               ('_x = (1 +', '      2)',), ('# only a comment', '_e = 0')]
OPTS_DEFAULT = dict(lags=None, leads=None, min_lags=None, min_leads=None)


def kwargs_of(o):
    kw = {'lags': o['lags'], 'leads': o['leads']}
    if o['min_lags'] is not None:
        kw['min_lags'] = o['min_lags']
    if o['min_leads'] is not None:
        kw['min_leads'] = o['min_leads']
    return kw


def gen_case(rng):
    n = 10
    labels = [str(2000 + i) for i in range(n)] if rng.random() < 0.5 else list(range(2000, 2000 + n))
    shape = rng.choice(['normal'] * 6 + ['empty', 'verbatim-only', 'verbatim-only', 'with-blocks', 'with-blocks', 'with-blocks'])
    cfg = gs.GenConfig(allow_named_periods=True, span_labels=labels, allow_verbatim=True, lhs_offsets=rng.random() < 0.2,
                       max_equations=rng.choice([1, 2, 3, 4]), max_lag=2, max_lead=2)
    if shape == 'empty':
        prog = gs.Program([])
    elif shape == 'verbatim-only':
        prog = gs.Program([gs.VerbatimBlock(rng.choice(VERB_BLOCKS)) for _ in range(rng.randint(1, 3))])
    else:
        prog = gs.gen_program(rng, cfg)
        if shape == 'with-blocks':
            st = list(prog.statements)
            for _ in range(rng.randint(1, 2)):
                st.insert(rng.randint(0, len(st)), gs.VerbatimBlock(rng.choice(VERB_BLOCKS)))
            prog = gs.Program(st)
    return {'prog': repr(prog), 'labels': labels, 'shape': shape, 'strip': rng.choice([False] * 5 + ['both', 'both', 'equation']),
            'strip_pick': rng.random(), 'data_seed': rng.randrange(1 << 30)}


def program_of(case):
    return eval(case['prog'], dict(vars(gs)))


def symbols_of(case, prog):
    text = gs.render(prog)
    symbols = pc.parse_model(text)
    if case['strip']:
        endo = [i for i, s in enumerate(symbols) if s.type == P.Type.ENDOGENOUS]
        if endo:
            i = endo[int(case['strip_pick'] * len(endo)) % len(endo)]
            # a symbol without an equation (with or without leftover code) contributes its variable but no code
            symbols[i] = symbols[i]._replace(equation=None, code=None if case['strip'] == 'both' else symbols[i].code)
    return text, symbols


LIST_OPS = ['perm', 'verb-first', 'interleave', 'concat', 'concat-interleave', 'dup', 'rescale-before', 'rescale-between',
            'concat-dupnames', 'falsy', 'falsy', 'no-endogenous']
DTYPES_ALL = {'float64': float, 'float32': np.float32, 'int': int, 'bool': bool, 'str': str, 'object': object}
DTYPES_NUMERIC = {'float64': None, 'float32': np.float32, 'int': int}   # those in which HEAD evaluates equations


def falsy_symbols():
    """Symbols whose equation / code are falsy but not None: they DO carry an equation (HEAD calls the converter for them
    and inserts its output) — from comment-only / empty fences via parse_model, and hand-built."""
    S, T = P.Symbol, P.Type
    out = list(pc.parse_model('```\n# TODO only\n```')) + list(pc.parse_model('```\n\n```')) + list(pc.parse_model('```\n   \n```'))
    out += [S(None, T.VERBATIM, None, None, '', ''), S(None, T.VERBATIM, None, None, '', 'pass'),
            S(None, T.VERBATIM, None, None, '```\npass\n```', ' ')]
    return out


def gen_list_case(rng):
    """A symbol LIST that is not the output of one parse_model() call: permuted, concatenated from two models, verbatim
    symbols before / between the equations, repeated symbols, a verbatim block that rescales a variable a later equation
    reads (so that the order of the code blocks is observable in the evaluation results)."""
    n = 10
    labels = [str(2000 + i) for i in range(n)] if rng.random() < 0.5 else list(range(2000, 2000 + n))
    op = rng.choice(LIST_OPS)
    pool = list(gs.VAR_POOL)
    rng.shuffle(pool)
    cfg1 = gs.GenConfig(allow_named_periods=True, span_labels=labels, allow_verbatim=True, max_equations=rng.choice([1, 2, 3]),
                        max_lag=2, max_lead=2, var_pool=pool[:12])
    dupnames = op == 'concat-dupnames'
    cfg2 = gs.GenConfig(allow_named_periods=True, span_labels=labels, allow_verbatim=True, max_equations=rng.choice([1, 2]),
                        max_lag=2, max_lead=2, var_pool=pool[:12] if dupnames else pool[12:],
                        allow_params=dupnames, allow_errors=dupnames)

    def with_blocks(prog):
        st = list(prog.statements)
        for _ in range(rng.randint(0, 2)):
            st.insert(rng.randint(0, len(st)), gs.VerbatimBlock(rng.choice(VERB_BLOCKS)))
        return gs.Program(st)
    return {'prog': repr(with_blocks(gs.gen_program(rng, cfg1))), 'prog2': repr(with_blocks(gs.gen_program(rng, cfg2))),
            'labels': labels, 'shape': 'list:' + op, 'listop': op, 'strip': False, 'strip_pick': 0.0,
            'data_seed': rng.randrange(1 << 30), 'list_seed': rng.randrange(1 << 30)}


def rescale_symbol(name):
    code = f'self._{name}[t] = self._{name}[t] * 2.0 + 1.0'
    return P.Symbol(name=None, type=P.Type.VERBATIM, lags=None, leads=None, equation=f'```\n{code}\n```', code=code)


def list_symbols(case):
    """The symbol list of a `gen_list_case` (deterministic in the case alone)."""
    rng = random.Random(case['list_seed'])
    op = case['listop']
    prog = program_of(case)
    prog2 = eval(case['prog2'], dict(vars(gs)))
    a = pc.parse_model(gs.render(prog))
    b = pc.parse_model(gs.render(prog2))
    progs = [prog]
    syms = list(a)
    if op.startswith('concat'):
        syms = list(a) + list(b)
        progs.append(prog2)
    verb = [s for s in syms if s.type == P.Type.VERBATIM]
    rest = [s for s in syms if s.type != P.Type.VERBATIM]
    if op == 'perm':
        rng.shuffle(syms)
    elif op == 'verb-first':
        syms = verb + rest
    elif op in ('interleave', 'concat-interleave'):
        syms = list(rest)
        for v in verb:
            syms.insert(rng.randint(0, len(syms)), v)
    elif op == 'dup':
        carrying = [s for s in syms if carries(s)]
        for _ in range(rng.randint(1, 2)):
            if carrying:
                syms.insert(rng.randint(0, len(syms)), rng.choice(carrying))
    elif op == 'falsy':
        pool = falsy_symbols()
        for _ in range(rng.randint(1, 3)):
            syms.insert(rng.randint(0, len(syms)), rng.choice(pool))
        endo = [i for i, s_ in enumerate(syms) if s_.type == P.Type.ENDOGENOUS and s_.code]
        if endo and rng.random() < 0.5:     # an equation whose text is '' (its code still runs) or whose code is ''
            i = rng.choice(endo)
            syms[i] = syms[i]._replace(equation='') if rng.random() < 0.5 else syms[i]._replace(code='')
    elif op == 'no-endogenous':
        # exogenous-only (plus verbatim) model: nothing to converge on
        syms = [s_ for s_ in syms if s_.type in (P.Type.EXOGENOUS, P.Type.PARAMETER, P.Type.ERROR, P.Type.VERBATIM)]
        if rng.random() < 0.5:
            syms = [s_ for s_ in syms if s_.type != P.Type.VERBATIM]
    elif op in ('rescale-before', 'rescale-between'):
        # a verbatim block that changes a variable which a later equation reads in the same period
        target = None
        for i, s_ in enumerate(syms):
            if s_.type == P.Type.ENDOGENOUS and s_.code:
                reads = [x.name for x in syms if x.type in (P.Type.EXOGENOUS, P.Type.ENDOGENOUS) and x.name != s_.name
                         and f'self._{x.name}[t]' in s_.code.split('=', 1)[1]]
                if reads:
                    target = (i, reads[0])
                    break
        if target is not None:
            i, name = target
            pos = i if op == 'rescale-before' else rng.randint(0, i)
            syms.insert(pos, rescale_symbol(name))
            syms.append(rescale_symbol(name))
        else:
            rng.shuffle(syms)
    return progs, syms


def materialise(case):
    """(text for the record, symbol list, programs whose offsets/names matter)."""
    prog = program_of(case)
    if case.get('listop'):
        progs, symbols = list_symbols(case)
        return ' || '.join(gs.render(p) for p in progs) + ' || op=' + case['listop'], symbols, progs
    text, symbols = symbols_of(case, prog)
    return text, symbols, [prog]


def reference_evaluate(symbols, labels, names_data, periods, kw, dtype=None):
    """Independent of build_model_definition's own code block: a class built from the same symbols WITHOUT any code,
    then every code-carrying symbol's `code` executed in symbol-list order.  Same output format as `evaluate`."""
    Bare = P.build_model([s_._replace(equation=None, code=None) for s_ in symbols], **kw)
    out = []
    for t in periods:
        exc = None
        vals = None
        try:
            m = Bare(list(labels), **({'dtype': dtype} if dtype is not None else {}))
            for name, arr in names_data.items():
                if name in m.names:
                    m[name] = arr.copy()
            env = {'self': m, 't': t, 'np': np, 'errors': 'raise', 'catch_first_error': True, 'iteration': None, 'kwargs': {}}
            with warnings.catch_warnings():
                warnings.simplefilter('ignore')
                try:
                    for s_ in symbols:
                        if carries(s_):
                            exec(s_.code, env)
                except Exception as e:  # noqa: BLE001
                    exc = pc.exc_name(e)
            vals = [[bits(v) for v in m[name]] for name in m.names]
        except Exception as e:  # noqa: BLE001
            exc = 'init:' + pc.exc_name(e)
        out.append((t, exc, vals))
    return out


def reference_solve(symbols, labels, names_data, positions, kw, dtype=None):
    """One evaluation pass at each of `positions`, in order, on ONE instance of the code-free class: what
    `solve(max_iter=1)` has to leave behind.  Returns (raised?, values as bit patterns)."""
    Bare = P.build_model([s_._replace(equation=None, code=None) for s_ in symbols], **kw)
    m = Bare(list(labels), **({'dtype': dtype} if dtype is not None else {}))
    for name, arr in names_data.items():
        if name in m.names:
            m[name] = arr[:len(labels)].copy()
    raised = False
    with warnings.catch_warnings():
        warnings.simplefilter('ignore')
        try:
            for t in positions:
                env = {'self': m, 't': t, 'np': np, 'errors': 'ignore', 'catch_first_error': True, 'iteration': 1, 'kwargs': {}}
                for s_ in symbols:
                    if carries(s_):
                        exec(s_.code, env)
        except Exception:  # noqa: BLE001
            raised = True
    return raised, [[bits(v) for v in m[name]] for name in m.names]


def boundary_oracle(rep, info, Model, symbols, kw, str_labels, names_data, has_endogenous, dtype=None):
    """Spans of length LAGS+LEADS+{0,1,2}: with default (and explicit) start/end exactly the periods LAGS .. n-1-LEADS are
    solved — one period when n = LAGS+LEADS+1 — and `solve(max_iter=1)` leaves the values of one in-order pass per period."""
    L, D = Model.LAGS, Model.LEADS
    if not (isinstance(L, int) and isinstance(D, int)) or L < 0 or D < 0:
        return
    for extra in (0, 1, 2):
        n = L + D + extra
        if n == 0:
            continue
        labels = [str(2000 + i) for i in range(n)] if str_labels else list(range(2000, 2000 + n))
        want = list(range(L, n - D))
        rep.dist[f'boundary:n=LAGS+LEADS+{extra}'] += 1
        binfo = info | {'boundary_n': n, 'LAGS': L, 'LEADS': D}
        # default range
        try:
            got = [int(i) for i, _ in Model(list(labels)).iter_periods()]
        except Exception as e:  # noqa: BLE001
            got = pc.exc_name(e)
        if want:
            if got != want:
                rep.violate('boundary-range', f'span of {n} = LAGS+LEADS+{extra}: default range {got}, expected {want}', binfo)
        elif not (isinstance(got, str) or got == []):
            rep.violate('boundary-range', f'span of {n} = LAGS+LEADS: default range {got}, expected nothing to solve', binfo)
        if not want:
            continue
        dkw = {'dtype': dtype} if dtype is not None else {}
        binfo = binfo | {'dtype': getattr(dtype, '__name__', str(dtype))}
        want_raised, want_vals = reference_solve(symbols, labels, names_data, want, kw, dtype)
        calls = [('default', {})]
        calls.append(('explicit', {'start': labels[want[0]], 'end': labels[want[-1]]}))
        for label, se in calls:
            m = Model(list(labels), **dkw)
            for name, arr in names_data.items():
                if name in m.names:
                    m[name] = arr[:n].copy()
            raised = False
            ret = None
            with warnings.catch_warnings():
                warnings.simplefilter('ignore')
                try:
                    ret = m.solve(max_iter=1, failures='ignore', errors='ignore', **se)
                except Exception:  # noqa: BLE001
                    raised = True
            vals = [[bits(v) for v in m[name]] for name in m.names]
            status = ''.join(str(x) for x in m.status)
            if raised != want_raised:
                rep.violate('boundary-solve', f'{label} solve on a span of {n} = LAGS+LEADS+{extra}: raised={raised}, in-order '
                            f'execution raised={want_raised}', binfo)
                continue
            if raised:
                continue
            if [int(i) for i in ret[1]] != want or list(ret[0]) != [labels[i] for i in want]:
                rep.violate('boundary-solve', f'{label} solve on a span of {n} = LAGS+LEADS+{extra} returned positions '
                            f'{list(ret[1])}, expected {want}', binfo)
            elif any((status[i] == '-') != (i not in want) for i in range(n)):
                rep.violate('boundary-solve', f'{label} solve on a span of {n}: status {status!r}, expected exactly positions '
                            f'{want} attempted', binfo)
            elif vals != want_vals:
                rep.violate('boundary-solve', f'{label} solve(max_iter=1) on a span of {n} = LAGS+LEADS+{extra}: values differ from '
                            f'one in-order pass at positions {want}', binfo)
        if not has_endogenous and not any(carries(s_) for s_ in symbols if s_.code and 'self._' in s_.code):
            # nothing to converge on: a full default solve() succeeds with status '.' on exactly those periods, whatever
            # the dtype of the instance (every dtype HEAD accepts)
            for dname, dt in DTYPES_ALL.items():
                try:
                    m = Model(list(labels), dtype=dt)
                    ret = m.solve()
                    status = ''.join(str(x) for x in m.status)
                    ok = (list(ret[1]) == want and all(ret[2]) and all((status[i] == '.') == (i in want) for i in range(n)))
                except Exception as e:  # noqa: BLE001
                    ok, status, ret = False, pc.exc_name(e) + ': ' + str(e)[:100], None
                rep.dist['trivial-dtype:' + dname] += 1
                if not ok:
                    rep.violate('boundary-trivial-solve', f'model without endogenous variables, dtype={dname}, on a span of {n}: '
                                f'solve() gave {ret} / {status!r}, expected positions {want} all solved', binfo | {'dtype': dname})


INT_FORMS = {
    'np.int64': lambda v: np.int64(v), 'np.int32': lambda v: np.int32(v), 'np.intp': lambda v: np.intp(v),
    'np.uint8': lambda v: np.uint8(v), 'np.int16': lambda v: np.int16(v),
    'arange-element': lambda v: np.arange(v + 1)[v], 'array-max': lambda v: np.array([0, v]).max(),
}
# left out: bool (HEAD itself writes `LAGS: int = True`), float (HEAD writes `LAGS: int = 2.0`) — not integer forms that
# HEAD handles, so the property's "lag/lead lengths" says nothing about them


def forms_oracle(rep, info, symbols, o, forms, typed):
    """The same lag/lead settings given as NumPy integer scalars instead of Python ints: the definition text is
    byte-identical, it executes in the namespace that suffices for the plain-int text, and LAGS/LEADS of the class are
    plain ints with the same value — for build_model, exec(text) and exec(CODE)."""
    if all(o[k] is None for k in ('lags', 'leads', 'min_lags', 'min_leads')):
        return
    plain_kw = dict(kwargs_of(o), with_type_hints=typed)
    plain = P.build_model_definition(symbols, **plain_kw)
    ns_plain = namespace_for(plain, typed)
    want = {}
    exec(plain, dict(ns_plain), want)
    wl, wd = want['Model'].LAGS, want['Model'].LEADS
    for form in forms:
        conv = INT_FORMS[form]
        fkw = {k: (conv(v) if isinstance(v, int) and not isinstance(v, bool) else v) for k, v in plain_kw.items()}
        finfo = info | {'int_form': form, 'with_type_hints': typed}
        rep.dist['int-form:' + form] += 1
        try:
            text = P.build_model_definition(symbols, **fkw)
            A = P.build_model(symbols, **fkw)
        except Exception as e:  # noqa: BLE001
            rep.violate('int-form', f'lags/leads given as {form}: building raised {pc.exc_name(e)}: {str(e)[:150]}', finfo)
            continue
        if text != plain:
            diff = next((a for a, b in zip(text.splitlines(), plain.splitlines()) if a != b), '<length differs>')
            rep.violate('int-form', f'lags/leads given as {form}: the definition text differs from the text for the equal '
                        f'Python ints (first differing line: {diff.strip()!r})', finfo)
        if A.CODE != plain:
            rep.violate('int-form', f'lags/leads given as {form}: CODE differs from the text for the equal Python ints', finfo)
        for route, make in (('build_model', lambda: A), ('exec(definition)', lambda: _exec_in(text, ns_plain)),
                            ('exec(CODE)', lambda: _exec_in(A.CODE, ns_plain))):
            try:
                M = make()
            except Exception as e:  # noqa: BLE001
                rep.violate('int-form', f'lags/leads given as {form}: {route} in the namespace that suffices for plain ints '
                            f'raised {pc.exc_name(e)}: {str(e)[:120]}', finfo)
                continue
            if type(M.LAGS) is not int or type(M.LEADS) is not int or (M.LAGS, M.LEADS) != (wl, wd):
                rep.violate('int-form', f'lags/leads given as {form}: {route} has LAGS={M.LAGS!r} ({type(M.LAGS).__name__}), '
                            f'LEADS={M.LEADS!r} ({type(M.LEADS).__name__}); plain ints give {wl}, {wd}', finfo)


def _exec_in(text, ns):
    env = dict(ns)
    exec(text, env)
    return env['Model']


def carries(s):
    return s.type in (P.Type.ENDOGENOUS, P.Type.VERBATIM) and s.equation is not None and s.code is not None


# ---- building and evaluating ------------------------------------------------------------------------------------

ATTRS = ('ENDOGENOUS', 'EXOGENOUS', 'PARAMETERS', 'ERRORS', 'NAMES', 'CHECK', 'LAGS', 'LEADS')


def class_attrs(Model):
    return {a: (list(getattr(Model, a)) if isinstance(getattr(Model, a), (list, tuple)) else getattr(Model, a))
            for a in ATTRS}


def namespace_for(text, typed):
    """The weaker reading: BaseModel plus what the text itself references; BaseModel alone when that suffices."""
    ns = {'BaseModel': fsic.BaseModel}
    if typed:
        ns.update(List=typing.List, Optional=typing.Optional, Any=typing.Any)
    if 'np.' in text:
        ns['np'] = np
    return ns


def exec_class(text, typed):
    ns = namespace_for(text, typed)
    exec(text, ns)
    return ns['Model']


def bits(x):
    return struct.unpack('<Q', struct.pack('<d', float(x)))[0]


def evaluate(Model, labels, names_data, periods, dtype=None):
    """`_evaluate` at each period on a fresh instance; (exception class or None, all values as bit patterns)."""
    out = []
    for t in periods:
        try:
            m = Model(list(labels), **({'dtype': dtype} if dtype is not None else {}))
            for name, arr in names_data.items():
                if name in m.names:
                    m[name] = arr.copy()
        except Exception as e:  # noqa: BLE001  (e.g. a symbol list with a repeated name)
            out.append((t, 'init:' + pc.exc_name(e), None))
            continue
        exc = None
        with warnings.catch_warnings():
            warnings.simplefilter('ignore')
            try:
                m._evaluate(t)
            except Exception as e:  # noqa: BLE001
                exc = pc.exc_name(e)
        out.append((t, exc, [[bits(v) for v in m[name]] for name in m.names]))
    return out


def body_of(symbols, kw, text):
    """The text substituted for `{equations}`: what follows the common prefix with the same build of the same
    symbols without any equation (which ends in `        pass`)."""
    bare = [s._replace(equation=None, code=None) for s in symbols]
    empty = P.build_model_definition(bare, **kw)
    tail = '        pass'
    if not empty.endswith(tail):
        return None
    prefix = empty[:-len(tail)]
    if not text.startswith(prefix):
        return None
    return text[len(prefix):]


def indent_ok(piece, body_piece):
    """`body_piece` is `piece` with 8 spaces in front of each non-blank line (a whitespace-only line may or may not
    carry the prefix)."""
    a, b = piece.splitlines(True), body_piece.splitlines(True)
    if len(a) != len(b):
        return False
    for x, y in zip(a, b):
        if x.strip():
            if y != '        ' + x:
                return False
        elif y not in (x, '        ' + x):
            return False
    return True


def run_case(ctx, rep, case, batch):
    text, symbols, progs = materialise(case)
    case['text'] = text
    rep.dist['shape:' + case['shape'] + ('+stripped-' + str(case['strip']) if case['strip'] and any(s.type == P.Type.ENDOGENOUS for s in symbols) else '')] += 1
    if case.get('listop'):
        carrying = [s for s in symbols if carries(s)]
        kinds = [s.type == P.Type.VERBATIM for s in carrying]
        rep.dist['list:rescaling-block'] += sum(1 for s in symbols if s.type == P.Type.VERBATIM and s.code and '* 2.0 + 1.0' in s.code) > 0
        rep.dist['list:verbatim-before-equation' if any(v and not all(kinds[i:]) for i, v in enumerate(kinds)) else 'list:verbatim-last'] += 1
    rng = random.Random(case['data_seed'])   # drawn from ctx.sub_rng by gen_case: replays need no seed
    import props.c03 as c03
    latin = c03.latin_options()
    opt_sets = [OPTS_DEFAULT] + rng.sample(latin, 2 if ctx.tier == 'quick' else 5)
    offs = [k for p_ in progs for k in pc.all_offsets(p_)] or [0]
    n = len(case['labels'])
    periods = [t for t in range(n) if all(0 <= t + k < n for k in offs)]
    if len(periods) > 3:
        periods = [periods[0], periods[len(periods) // 2], periods[-1]]
    drng = np.random.default_rng(case['data_seed'])
    data = {name: drng.uniform(0.5, 3.0, n) for p_ in progs for name in gs.all_names(p_)}
    all_names_ = [s.name for s in symbols if s.type in (P.Type.ENDOGENOUS, P.Type.EXOGENOUS, P.Type.PARAMETER, P.Type.ERROR)]
    dupfree = len(set(all_names_)) == len(all_names_)
    expected_log = [s for s in symbols if carries(s)]
    sym_j = pc.syms_json(symbols)

    falsy_case = any(carries(s) and (not s.code.strip() or not s.equation) for s in symbols)
    if falsy_case:
        rep.dist['list:falsy-code-or-equation'] += 1
    for o in opt_sets:
        kw = kwargs_of(o)
        dname = rng.choice(['float64', 'float64', 'float32', 'int'])
        dt = DTYPES_NUMERIC[dname]
        for cname, conv in pc.CONVERTERS.items():
            if cname == 'empty' and rng.random() < 0.7:
                continue
            if cname == ('wrap' if falsy_case else 'mark'):
                continue   # `wrap` puts the code under an `if`: not valid Python for an empty code; `mark` is its stand-in
            info = {k: v for k, v in case.items() if k != 'text'} | {'text': text, 'opts': o, 'converter': cname, 'dtype': dname}
            variants = {}
            logs = {}
            bodies = {}
            failed = False
            for typed in (True, False):
                log = []

                def logged(s, _conv=conv, _log=log):
                    _log.append(s)
                    return _conv(s)
                ckw = dict(kw, with_type_hints=typed)
                if conv is not None:
                    ckw['converter'] = logged
                try:
                    definition = P.build_model_definition(symbols, **ckw)
                    logs[(typed, 'definition')] = list(log)
                    del log[:]
                    A = P.build_model(symbols, **ckw)
                    logs[(typed, 'build_model')] = list(log)
                    B = exec_class(definition, typed)
                    C = exec_class(A.CODE, typed)
                except Exception as e:  # noqa: BLE001
                    rep.violate('build-failed', f'building (with_type_hints={typed}) raised {pc.exc_name(e)}: {str(e)[:200]}', info)
                    failed = True
                    break
                variants[(typed, 'build_model')] = A
                variants[(typed, 'exec(definition)')] = B
                variants[(typed, 'exec(CODE)')] = C
                bodies[typed] = body_of(symbols, dict(kw, with_type_hints=typed), definition)
            if failed:
                continue
            rep.case((text, case['strip'], json.dumps(o, sort_keys=True), cname), nontrivial=bool(expected_log),
                     sample={'text': text, 'opts': o, 'converter': cname, 'attrs': class_attrs(variants[(True, 'build_model')])}
                     if rep.evaluations % 499 == 0 else None)
            rep.dist['converter:' + cname] += 1

            # (1) same lists and lengths, (2) same evaluation results
            ref_key = (True, 'build_model')
            ref_attrs = class_attrs(variants[ref_key])
            rep.dist['dtype:' + dname] += 1
            ref_eval = evaluate(variants[ref_key], case['labels'], data, periods, dt)
            # the code blocks run in SYMBOL-LIST order: compare with executing each symbol's code in that order
            if dupfree and cname in ('default', 'code', 'wrap', 'mark'):
                want_eval = reference_evaluate(symbols, case['labels'], data, periods, kw, dt)
                rep.dist['order-oracle:evaluated'] += 1
                if want_eval != ref_eval:
                    bad = next(((x, y) for x, y in zip(ref_eval, want_eval) if x != y), None)
                    rep.violate('evaluation-order', 'the built class does not evaluate the code blocks in symbol-list order: at period '
                                f'{bad[0][0] if bad else None} the results differ from running each symbol\'s code in list order '
                                f'(exceptions: built {bad[0][1] if bad else None}, in-order {bad[1][1] if bad else None})', info)
            for key, M in variants.items():
                if key == ref_key:
                    continue
                a = class_attrs(M)
                if a != ref_attrs:
                    rep.violate('variants-attrs' + ('' if key[0] else '-untyped'),
                                f'{key} has {a}, {ref_key} has {ref_attrs}', info)
                ev = evaluate(M, case['labels'], data, periods, dt)
                if ev != ref_eval:
                    rep.violate('variants-evaluate' + ('' if key[0] else '-untyped'),
                                f'_evaluate differs between {key} and {ref_key} (first differing period: '
                                f'{next((x[0] for x, y in zip(ev, ref_eval) if x != y), None)})', info)
            # the same settings in other integer forms
            if cname == 'default':
                forms = rng.sample(list(INT_FORMS), 2 if ctx.tier == 'quick' else 4)
                try:
                    forms_oracle(rep, info, symbols, o, forms, rng.random() < 0.5)
                except Exception as e:  # noqa: BLE001
                    rep.violate('int-form', f'plain-int build failed in the forms oracle: {pc.exc_name(e)}', info)
            # boundary span sizes (one solvable period, none, three) against the hand-computable expectation
            if dupfree and cname == 'default':
                which = (True, 'build_model') if rng.random() < 0.5 else (False, 'exec(CODE)')
                bdata = {k: np.concatenate([v, v, v, v]) for k, v in data.items()}
                boundary_oracle(rep, info, variants[which], symbols, kw, isinstance(case['labels'][0], str), bdata,
                                any(s.type == P.Type.ENDOGENOUS for s in symbols), dt)
            # symbols without an equation contribute variables but no code: lists follow the symbol types
            by_type = {'ENDOGENOUS': P.Type.ENDOGENOUS, 'EXOGENOUS': P.Type.EXOGENOUS, 'PARAMETERS': P.Type.PARAMETER,
                       'ERRORS': P.Type.ERROR}
            for attr, ty in by_type.items():
                want = [s.name for s in symbols if s.type == ty]
                if ref_attrs[attr] != want:
                    rep.violate('lists-from-symbols', f'{attr} = {ref_attrs[attr]}, symbols of that type: {want}', info)
            # (3) converter called once per equation-carrying symbol, in symbol order
            if conv is not None:
                for key, lg in logs.items():
                    if lg != expected_log:
                        rep.violate('converter-calls', f'{key}: converter called on {[s.name for s in lg]}, expected once each, in '
                                    f'order, on {[s.name for s in expected_log]}', info)
            # (4) converter output inserted verbatim (modulo the 8-space indent), a blank line between two outputs
            for typed, body in bodies.items():
                if body is None:
                    rep.violate('body-not-found', 'the class text does not share its prefix with the equation-free build', info)
                    continue
                if conv is not None:
                    joined = '\n\n'.join(conv(s) for s in expected_log)
                    if joined and not indent_ok(joined, body):
                        rep.violate('converter-output', f'with_type_hints={typed}: body is not the converter output indented by 8 '
                                    f'spaces and joined by blank lines: {body[:300]!r}', info)
                if not ctx.oracle_only:
                    batch.append(('build_model_definition: renderBody(real symbols) != text substituted for {equations}',
                                  {k: info[k] for k in ('text', 'opts', 'converter', 'strip')},
                                  pc.line('p_render_body', {'symbols': sym_j, 'converter': cname}), {'ok': body}))
            if not ctx.oracle_only:
                batch.append(('build_model_definition: buildLists(real symbols) != class attributes',
                              {k: info[k] for k in ('text', 'opts', 'strip')},
                              pc.line('p_build_lists', {'symbols': sym_j, 'lags': o['lags'], 'leads': o['leads'],
                                                        'min_lags': o['min_lags'], 'min_leads': o['min_leads']}),
                              {'ok': ref_attrs}))
                if conv is not None:
                    batch.append(('build_model_definition: selected(real symbols) != converter call log',
                                  {k: info[k] for k in ('text', 'strip')},
                                  pc.line('p_selected', {'symbols': sym_j}), {'ok': pc.syms_json(logs[(True, 'definition')])}))
    # trivial solve of models without endogenous variables
    if not any(s.type == P.Type.ENDOGENOUS for s in symbols):
        trivial_solve(ctx, rep, case, symbols, batch)


def trivial_solve(ctx, rep, case, symbols, batch):
    info = {k: v for k, v in case.items()} | {'what': 'trivial-solve'}
    for typed in (True, False):
        for min_iter, max_iter in ((0, 100), (3, 5), (2, 2), (0, 1)):
            try:
                A = P.build_model(symbols, with_type_hints=typed)
                routes = {'build_model': A, 'exec(CODE)': exec_class(A.CODE, typed)}
                if (min_iter, max_iter) == (0, 100) and not any(s_.code and 'self._' in s_.code for s_ in symbols if carries(s_)):
                    # every dtype HEAD accepts: nothing to converge on, so the model solves whatever its values are
                    for route, M in routes.items():
                        for dname, dt in DTYPES_ALL.items():
                            try:
                                m = M(list(case['labels']), dtype=dt)
                                labels, indexes, solved = m.solve()
                                want_pos = list(range(M.LAGS, len(case['labels']) - M.LEADS))
                                ok = (all(solved) and list(indexes) == want_pos
                                      and all((str(x) == '.') == (i in want_pos) for i, x in enumerate(m.status)))
                                why = f'solved={solved}'
                            except Exception as e:  # noqa: BLE001
                                ok, why = False, f'{pc.exc_name(e)}: {str(e)[:120]}'
                            rep.dist['trivial-dtype:' + dname] += 1
                            if not ok:
                                rep.violate('empty-model-solve', f'{route} (with_type_hints={typed}), dtype={dname}: a model without '
                                            f'endogenous variables did not solve trivially: {why}', info | {'dtype': dname})
                for route, M in routes.items():
                    calls = []

                    class Rec(M):
                        def solve_t_before(self, t, **kw):
                            calls.append('b')
                            super().solve_t_before(t, **kw)

                        def solve_t_after(self, t, *, iteration=None, **kw):
                            calls.append(f'a{iteration}')
                            super().solve_t_after(t, iteration=iteration, **kw)

                        def _evaluate(self, t, *, iteration=None, **kw):
                            calls.append(f'e{iteration}')
                            super()._evaluate(t, iteration=iteration, **kw)
                    m = Rec(list(case['labels']))
                    labels, indexes, solved = m.solve(min_iter=min_iter, max_iter=max_iter)
                    n = len(case['labels'])
                    status = ''.join(str(x) for x in m.status)
                    want_pos = list(range(M.LAGS, n - M.LEADS))
                    if not (all(solved) and list(indexes) == want_pos
                            and all((status[i] == '.') == (i in want_pos) for i in range(n))):
                        rep.violate('empty-model-solve', f'{route} (with_type_hints={typed}): solve(min_iter={min_iter}, max_iter={max_iter}) '
                                    f'gave solved={solved}, status={status!r}', info)
                    rep.case(('trivial', case['text'], typed, route, min_iter, max_iter), nontrivial=False)
                    if not ctx.oracle_only and route == 'build_model':
                        # T: the M1 model with no check variables (the instance of `empty_model_solves`)
                        k = max(1, min_iter)
                        t = n // 2
                        m2 = Rec(list(case['labels']))
                        del calls[:]
                        r = m2.solve_t(t, min_iter=min_iter, max_iter=max_iter)
                        impl = f'{"ret:T" if r else "ret:F"}|{"".join(str(x) for x in m2.status)}|' \
                               f'{",".join(str(int(x)) for x in m2.iterations)}|{",".join(calls)}|'
                        req = {'n': n, 'nE': 0, 'check': [], 'tol': sc.bits(1e-10), 'script': [[] for _ in range(n)],
                               'before': [], 'after': [], 'vals': [], 'status': '-' * n, 'iters': [-1] * n, 't': t,
                               'opts': {'min_iter': min_iter, 'max_iter': max_iter, 'offset': 0, 'failures': 'raise',
                                        'errors': 'raise', 'catch_first_error': True}}
                        batch.append(('empty model: M1 solveT with no check variables != real solve_t',
                                      {'text': case['text'], 'min_iter': min_iter, 'max_iter': max_iter, 'expected_k': k},
                                      sc.line('solve_t', req), impl))
            except Exception as e:  # noqa: BLE001
                rep.violate('empty-model-solve', f'with_type_hints={typed}: {pc.exc_name(e)}: {str(e)[:200]}', info)


def flush(ctx, rep, batch):
    if ctx.oracle_only or not batch:
        batch.clear()
        return
    outs = ctx.drive([b[2] for b in batch])
    for (what, case, _, want), got in zip(batch, outs):
        if isinstance(want, str):
            g = got
        else:
            g = json.loads(got) if not got.startswith('!') else got
        if g != want:
            rep.disagree(what, case, g, want)
    batch.clear()


def text_level_correspondence(ctx, rep):
    """textwrap.indent / str.splitlines on strings with every kind of line break and blank line."""
    if ctx.oracle_only:
        return
    import textwrap
    rng = ctx.sub_rng('indent')
    alphabet = ['a', 'b', ' ', '  ', '\t', '\n', '\n', '\r', '\r\n', '\x0b', '\x0c', '\x1c', '\x1d', '\x1e', '\x1f', '\x85',
                '\xa0', ' ', ' ', '　', '#', 'x = 1', '    ']
    batch = []
    texts = ['', '\n', 'a', 'a\n', '\n\n', ' \n a\n', 'a\r\nb', 'a\n\r\nb', '\r', ' ', 'a\x0cb']
    texts += [''.join(rng.choice(alphabet) for _ in range(rng.randint(0, 8))) for _ in range(1500 * ctx.scale)]
    for t in texts:
        batch.append(('textwrap.indent: model != impl', {'text': t}, pc.line('p_indent', {'text': t}),
                      {'ok': textwrap.indent(t, '        ')}))
        batch.append(('str.splitlines: model != impl', {'text': t}, pc.line('p_splitlines', {'text': t}),
                      {'ok': t.splitlines()}))
    rep.case(n=len(batch), nontrivial=False)
    flush(ctx, rep, batch)


def namespace_note(rep):
    try:
        exec(P.build_model_definition([]), {'BaseModel': fsic.BaseModel})
        rep.notes.append('typed template executes in a namespace holding BaseModel alone')
    except NameError as e:
        rep.notes.append(f'reading enforced: exec namespace = BaseModel + names the text references; with BaseModel alone the typed '
                         f'text raises NameError ({e}) at class-body evaluation — not counted (the untyped text is executed with '
                         'BaseModel alone whenever it does not call np.*)')
    except Exception as e:  # noqa: BLE001
        rep.notes.append(f'typed template with BaseModel alone: {pc.exc_name(e)}')


def run(ctx, rep):
    n_cases = (200 if ctx.tier == 'quick' else 1700) * ctx.scale
    text_level_correspondence(ctx, rep)
    namespace_note(rep)
    batch = []
    fixed = [{'prog': repr(gs.Program([])), 'labels': list(range(2000, 2010)), 'shape': 'empty', 'strip': False,
              'strip_pick': 0.0, 'data_seed': 1},
             {'prog': repr(gs.Program([gs.VerbatimBlock(b) for b in VERB_BLOCKS[:3]])), 'labels': [str(2000 + i) for i in range(10)],
              'shape': 'verbatim-only', 'strip': False, 'strip_pick': 0.0, 'data_seed': 2}]
    for case in fixed:
        run_case(ctx, rep, case, batch)
    for i in range(n_cases):
        case = gen_case(ctx.sub_rng('prog', i))
        run_case(ctx, rep, case, batch)
        if len(batch) > 20000:
            flush(ctx, rep, batch)
    n_lists = (220 if ctx.tier == 'quick' else 1700) * ctx.scale
    for i in range(n_lists):
        case = gen_list_case(ctx.sub_rng('symlist', i))
        run_case(ctx, rep, case, batch)
        if len(batch) > 20000:
            flush(ctx, rep, batch)
    for case in fixed_list_cases():
        run_case(ctx, rep, case, batch)
    flush(ctx, rep, batch)
    rep.notes.append(f'{n_lists} hand-assembled symbol lists (permuted / concatenated / verbatim interleaved / repeated symbols / '
                     'rescaling verbatim block before an equation), same build routes, converters and option sets')
    rep.notes.append(f'{n_cases + len(fixed)} programs; each x {{typed, untyped}} x 3 build routes x option sets x converters')


def fixed_list_cases():
    """Seed-independent: `X` is rescaled by a verbatim block BEFORE the equation that reads it (and once more after)."""
    out = []
    for i, op in enumerate(['rescale-before', 'rescale-between', 'verb-first', 'interleave']):
        prog = gs.Program([gs.Equation(gs.Term('var', 'Y', None), gs.Bin('+', gs.Term('var', 'X', None), gs.Term('var', 'Z', -1))),
                           gs.VerbatimBlock(('_a = 1',)),
                           gs.Equation(gs.Term('var', 'Z', None), gs.Bin('*', gs.Term('var', 'Y', None), gs.Num('0.5')))])
        prog2 = gs.Program([gs.Equation(gs.Term('var', 'W', None), gs.Term('var', 'G', 1)), gs.VerbatimBlock(('pass',))])
        out.append({'prog': repr(prog), 'prog2': repr(prog2), 'labels': list(range(2000, 2010)), 'shape': 'list:' + op,
                    'listop': op, 'strip': False, 'strip_pick': 0.0, 'data_seed': 11 + i, 'list_seed': 5 + i})
    return out


def replay(ctx, rep, case):
    if 'prog' not in case:
        print('  (correspondence-only case; nothing to replay against the property)')
        return
    import copy
    ctx = copy.copy(ctx)   # the framework replays the corpus with the run's own ctx: do not switch T off for the run
    ctx.oracle_only = True
    c = {k: case[k] for k in ('prog', 'labels', 'shape', 'strip', 'strip_pick', 'data_seed', 'prog2', 'listop', 'list_seed')
         if k in case}
    run_case(ctx, rep, c, [])
    print('  text:', json.dumps(c['text']))


def search(ctx, rep, disagreements):
    """Extended failing-input search after a broken proof obligation / correspondence (oracle only, 2x budget)."""
    ctx.scale = 2
    run(ctx, rep)
