"""C09 — container series keep their length and dtype under every assignment history."""
import itertools, json, re

import numpy as np

import fsic
import container_common as cc
from container_common import enc_operand, enc_label

ID = 'C09'
LEAN_MODULE = 'Proofs.C09'
THEOREMS = ['Fsic.C09.' + n for n in [
    'step_ext', 'inv_init', 'inv_step_false_at_witness', 'inv_step_partial', 'inv_history_partial', 'inv_step',
    'inv_history', 'dtype_step', 'dtype_history', 'index_step_prefix', 'failed_assign_unchanged',
    'failed_add_variable_unchanged', 'add_variable_refuses_taken_key', 'no_clash_init', 'no_clash_step',
    'no_clash_history', 'conversion_failure_may_write', 'values_is_stack', 'size_eq',
    'size_counts_values', 'strict_no_new_attribute', 'strict_existing_names_work', 'strict_add_variable_works',
    'strict_reports_closest', 'strict_values_setter_works', 'strict_values_setter_blocked_at_witness']]
RULE = ('histories of public operations {add_variable, add_attribute, attribute set, name-key set, positional set, '
        '(name,label) set, (name,label-slice) set, replace_values, values setter (array/scalar/list), toggle strict, '
        'attribute names include members of the class (methods, class constants: copy, eval, NAMES, ...), '
        'malformed key} with operands {scalar, list, tuple, range, nested list (1xn, nx1, nxm, ragged, empty rows), '
        'ndarray rank 0/1/2 of right/wrong length, length-1 array} x kinds {float,int,bool,str} on VectorContainer, '
        'BaseModel (hand-written and parser-built) and BaseLinker (with and without submodels), span length 0..5: '
        'every history of length <= 2 over a reduced alphabet (exhaustive core, seed-independent) + random histories '
        'of length <= 30. After EVERY operation both sides are compared on outcome class, index, attribute list, '
        'strict, size, nbytes, shape+dtype of `values`, and shape, dtype and every element (IEEE bits / text) of '
        'every series. distinct = distinct (flavour, span, history); non-trivial = at least one operation succeeded '
        'and at least one raised, or the history has >= 3 successful assignments')
TRUSTED = ['NumPy element conversion / broadcasting rules are re-implemented in lean/FsicModel/Container.lean for the '
           'operand alphabet only (floats that are multiples of 1/4 below 1e16, plain decimal strings, |int| < 2^53, '
           'no NaN/inf into int series) and validated against NumPy on every generated operand',
           "difflib.get_close_matches defines 'closest variable' (its result is an input of the model)",
           'the initial store of BaseModel/BaseLinker instances is read from the freshly constructed object',
           'three behaviour switches of the model (Cfg.current) are probed on the imported fsic by '
           'harness/reflect_container.py on every run; the theorems hold for every configuration']
ASSUMPTIONS = ['operands stay inside the alphabet above', 'variable and attribute names come from a pool that avoids '
               "the container's own attribute names ('span', 'index', 'names', 'dtype', ...)",
               "'cannot fit' is read weakly: an operand whose element count is neither 1 nor len(span), or a ragged "
               'nested list, or an unknown / duplicate name; conversion failures (e.g. the string "a" into a float '
               'series) are outside the atomicity claim (NumPy may already have stored a prefix)',
               'BaseLinker.size counts the submodels too (its documented meaning); the property\'s "size is the '
               'element count of values" is applied to the linker\'s own part']

META = {
    "text": "Theorems over the container model M6 for every store, operation, operand and every configuration of the three reflected behaviour switches (Cfg: whole-shape test in __setattr__, names exempt from the strict guard, add_variable checking the attribute list, add_variable checking the storage key '_' + name and add_attribute / new-attribute assignment checking the name against the instance dict — whose key set is part of the model state; with both checks no key is ever claimed twice: no_clash_step / no_clash_history — probed on the code on every run, harness/reflect_container.py): every operation other than a whole-series assignment of a rectangular nested list whose outer length equals the span keeps every series one-dimensional with one element per period (inv_step_partial, hence every history: inv_history_partial, induction on the operation list), and with the whole-shape test every operation does, with no guard (inv_step, inv_history — in force exactly when the reflected switch says the code has that test); the dtype tag of an existing series never changes under any operation or history, without exception (dtype_step, dtype_history); failed single-variable assignments other than element-conversion failures leave the store unchanged; values is the names-by-periods stack in declaration order and size its element count; under strict no assignment extends the attribute list, existing names and add_variable behave as without strict, and a unique closest name is reported. The full invariant is FALSE on the code as it stands: obj.A = [[1,2],[3,4],[5,6]] on a 3-period span makes A two-dimensional (negation proved at that witness, reproduced on the real code, listed as an open known finding). The model is tied to VectorContainer/BaseModel/BaseLinker by comparing outcome class, index, attributes, size, nbytes, values shape/dtype and every element of every series after every operation of exhaustive short and random long histories.",
    "design_ref": "DESIGN.md §5 M6, §6 C09, §7 row 6",
    "note": "Trusted: Lean kernel; axioms propext/Classical.choice/Quot.sound; the correspondence harness; NumPy's conversion/broadcast behaviour is modelled only for the operand alphabet and validated on generated operands, difflib's notion of closest name and the initial state of model/linker instances are inputs. The invariant is claimed only outside the known finding (nested list with outer length = span length assigned to a whole series).",
    "technique": "Lean 4 proof (invariant + induction over histories) + differential correspondence check after every operation"
}

FLOATS = [0.0, 1.0, 2.5, -1.75, 3.25, 100.0, -0.5, 1000000.0]
INTS = [0, 1, 2, -3, 7, 12, 1000]
BOOLS = [True, False]
STRS = ['a', 'bcd', '', '12', '1.5', '-3', 'xyzuvw']
POOL = {'f': FLOATS, 'i': INTS, 'b': BOOLS, 'U': STRS}
KINDS = ['f', 'i', 'b', 'U']
STR_NUM = ['12', '7', '-3', '0']
STR_TXT = ['a', 'bcd', '', 'xyzuvw']
NEW_NAMES = ['A', 'B', 'C', 'a', 'Ab', 'P']
ATTR_NAMES = ['P', 'Q', 'note', 'Aa', 'b', 'Yy', 'H2']
# names that are members of the CLASS (methods, class constants) on some or all flavours; for the container they are
# names like any other: without strict `obj.copy = 5` adds an instance attribute (shadowing the method), with strict
# it must raise.  Chosen so that shadowing them does not disturb the operations the histories use; read-only
# properties (size, nbytes, a linker's LAGS / LEADS / sizes) are left out: assigning to them fails in `object`.
REBINDABLE = ['name', '_LAGS', '_LEADS', 'aliases', 'preferred_names']
# attributes the model / linker constructors register themselves (plain new names on a bare container)
BUILTIN_ATTRS = ['engine', 'lags', 'leads', 'check', 'endogenous']
CLASS_MEMBERS = ['copy', 'eval', 'exec', 'reindex', 'to_dataframe', '_ipython_key_completions_', 'NAMES', 'ENDOGENOUS',
                 'CHECK', 'CODE', 'solve', 'iter_periods', '_evaluate']


def rand_scalar(rng, kind=None):
    kind = kind or rng.choice(KINDS)
    return rng.choice(POOL[kind])


def rand_flat(rng, length, kind=None):
    mode = rng.random()
    if kind is None:
        kind = rng.choice(KINDS)
    if mode < 0.7:
        return [rng.choice(POOL[kind]) for _ in range(length)]
    if mode < 0.9:   # mixed numeric
        return [rng.choice(POOL[rng.choice('fib')]) for _ in range(length)]
    return [rng.choice(POOL[rng.choice(KINDS)]) for _ in range(length)]


def rand_ndarray(rng, shape, kind=None):
    kind = kind or rng.choice(KINDS)
    count = int(np.prod(shape)) if shape else 1
    vals = [rng.choice(POOL[kind]) for _ in range(count)]
    dt = cc.NP_DTYPE.get(kind)
    if kind == 'U':   # str arrays are all-numeric or all-non-numeric: NumPy's cast loop may or may not have stored a
        vals = [rng.choice(grp) for grp in [rng.choice([STR_NUM, STR_TXT])] for _ in range(count)]   # prefix otherwise
    a = np.array(vals, dtype=dt) if dt else np.array(vals, dtype=f'<U{rng.choice([2, 3, 6])}')
    return a.reshape(shape)


def rand_operand(rng, n, kind=None):
    """One operand of the property's alphabet for a span of length n."""
    r = rng.random()
    wrong = rng.choice([max(n - 1, 0), n + 1, 1, 0, 2 * n])
    if r < 0.22:
        return rand_scalar(rng, kind)
    if r < 0.42:
        xs = rand_flat(rng, n if rng.random() < 0.7 else wrong, kind)
        return tuple(xs) if rng.random() < 0.25 else xs
    if r < 0.48:
        start = rng.choice([0, 1, -2])
        return range(start, start + (n if rng.random() < 0.7 else wrong))
    if r < 0.66:
        m = rng.choice([1, 2, n, 0])
        shape = rng.choice([(1, n), (n, 1), (n, 2), (2, n), (n, m), (1, 1), (n, 0), (wrong, 2)])
        rows = [rand_flat(rng, shape[1], kind or rng.choice(KINDS)) for _ in range(shape[0])]
        if rows and rng.random() < 0.15:
            rows[-1] = rows[-1] + [rand_scalar(rng, kind)]     # ragged
        if not rows:
            return []
        return rows
    shape = rng.choice([(), (n,), (1,), (wrong,), (1, n), (n, 1), (n, 2), (2, n), (1, 1)])
    return rand_ndarray(rng, shape, kind)


def values_operand(rng, obj_names, n):
    r = rng.random()
    k = len(obj_names)
    if r < 0.45:
        shape = (k, n)
    elif r < 0.75:
        shape = rng.choice([(k, n + 1), (k + 1, n), (n, k), (k,), (n,), (k, n, 1), (1, n), ()])
    else:
        return rand_operand(rng, n, rng.choice(['f', 'i', 'b']))
    if len(shape) > 2:
        shape = shape[:2]
    return rand_ndarray(rng, shape, rng.choice(['f', 'f', 'i', 'b', 'U']))


def span_spec(rng, n):
    r = rng.random()
    if r < 0.5:
        start = rng.choice([0, 1, 2000, -2])
        return {'type': 'range', 'args': [start, start + n]}
    if r < 0.75:
        return {'type': 'list', 'labels': [enc_label(x) for x in ['p', 'q', 'r', 's', 't', 'u'][:n]]}
    if r < 0.9:
        return {'type': 'numpy', 'labels': [enc_label(x) for x in range(10, 10 + n)]}
    return {'type': 'period', 'start': '2000', 'n': n, 'freq': 'Y'} if n else {'type': 'list', 'labels': []}


def span_labels(spec):
    return [enc_label(x) for x in cc.make_span(spec)]


def rand_label(rng, labels):
    if labels and rng.random() < 0.85:
        return rng.choice(labels)
    return enc_label(rng.choice(['zz', 99, -7]))


def rand_item(rng, names, n, labels):
    """`names`: variable names believed to exist (may be stale: unknown names are part of the alphabet)."""
    known = list(names) or ['A']
    def nm():
        r0 = rng.random()
        return (rng.choice(known) if r0 < 0.8 else rng.choice(NEW_NAMES + ['Zz']) if r0 < 0.92
                else rng.choice(cc.INTERNAL_NAMES))
    r = rng.random()
    if r < 0.14:
        r0 = rng.random()
        name = (rng.choice(NEW_NAMES) if r0 < 0.78 else rng.choice(known) if r0 < 0.96
                else rng.choice(cc.INTERNAL_NAMES))
        kind = rng.choice(KINDS + [None, None])
        return {'op': 'addVariable', 'name': name, 'v': enc_operand(rand_operand(rng, n, rng.choice(KINDS + [None]))),
                'dtype': kind}
    if r < 0.18:
        an = rng.choice(ATTR_NAMES + known[:1] + CLASS_MEMBERS[:4] + ['attributes', 'span', 'index', '_attributes', '_strict'])
        # (add_attribute('strict' | 'values', value) would run the property setter with the harness's dummy value)
        return {'op': 'addAttribute', 'name': 'attributes' if an in ('strict', 'values') else an}
    if r < 0.38:
        r2 = rng.random()
        name = nm() if r2 < 0.7 else rng.choice(ATTR_NAMES) if r2 < 0.85 else rng.choice(CLASS_MEMBERS)
        if rng.random() < 0.05:
            # keys fsic itself keeps in `__dict__` WITHOUT listing them in `_attributes` (a linker's `name`, `_LAGS`,
            # `_LEADS`; a mixin's `aliases`, `preferred_names`): assigning rebinds the entry and registers the name
            rb = rng.choice(REBINDABLE)     # (a linker's `name` is used as a keyword: it has to stay a string)
            return {'op': 'setAttr', 'name': rb, 'v': enc_operand('core' if rb == 'name' else rand_scalar(rng, 'i'))}
        if rng.random() < 0.05:
            return {'op': 'setAttr', 'name': rng.choice(BUILTIN_ATTRS), 'v': enc_operand(rand_scalar(rng, 'i'))}
        if rng.random() < 0.04:     # spelled like a variable's storage key (mostly of a variable that does not exist yet)
            name = '_' + rng.choice(NEW_NAMES + NEW_NAMES + known)
        if name in cc.INTERNAL_NAMES:
            # `obj.span = …`, `obj.index = …`, `obj._attributes = …`, `obj._strict = …` REPLACE the container's own state
            # (they are existing attributes) — not part of the alphabet; `obj.strict = …` is the op `setStrict`
            name = 'attributes'
        return {'op': 'setAttr', 'name': name, 'v': enc_operand(rand_operand(rng, n))}
    if r < 0.48:
        return {'op': 'setItem', 'name': nm(), 'v': enc_operand(rand_operand(rng, n))}
    if r < 0.55:
        return {'op': 'setPos', 'name': nm(), 'i': rng.randrange(-n - 1, n + 2),
                'v': enc_operand(rand_operand(rng, 1) if rng.random() < 0.3 else rand_scalar(rng))}
    if r < 0.61:
        a, b = (rng.choice([None, None] + list(range(-n - 1, n + 2))) for _ in range(2))
        return {'op': 'setPosSlice', 'name': nm(), 'a': a, 'b': b, 'step': rng.choice([None, None, 1, 2, 3, -1, 0]),
                'v': enc_operand(rand_operand(rng, rng.choice([1, 2, n])))}
    if r < 0.70:
        return {'op': 'setLabel', 'name': nm(), 'label': rand_label(rng, labels),
                'v': enc_operand(rand_scalar(rng) if rng.random() < 0.7 else rand_operand(rng, 1))}
    if r < 0.80:
        a, b = (rng.choice([None, rand_label(rng, labels), rand_label(rng, labels)]) for _ in range(2))
        return {'op': 'setLabelSlice', 'name': nm(), 'a': a, 'b': b, 'step': rng.choice([None, None, 1, 2, 3]),
                'v': enc_operand(rand_operand(rng, rng.choice([1, 2, n])))}
    if r < 0.86:
        pool = list(dict.fromkeys(known + ['Zz'] + rng.sample(cc.INTERNAL_NAMES, 2)))   # kwargs: keys are unique
        ks = rng.sample(pool, k=min(len(pool), rng.choice([1, 2, 2, 3])))
        return {'op': 'replaceValues', 'kvs': [[k, enc_operand(rand_operand(rng, n))] for k in ks]}
    if r < 0.94:
        return {'op': 'setValues', 'v': enc_operand(values_operand(rng, known, n))}
    if r < 0.99:
        return {'op': 'setStrict', 'b': rng.random() < 0.5}
    return {'op': 'badKey', 'tuple': rng.random() < 0.5}


FLAVOURS = ['container'] * 5 + ['model', 'model', 'built', 'linker', 'linker', 'linker0']
INITIAL = {'container': [], 'model': ['Y', 'C'], 'built': ['Y', 'C', 'G'], 'linker': ['H'], 'linker0': ['H']}


def random_case(rng):
    fl = rng.choice(FLAVOURS)
    n = rng.choice([1, 2, 3, 3, 3, 4, 5, 0])
    spec = span_spec(rng, n) if fl != 'linker0' else {'type': 'list', 'labels': []}
    if fl == 'linker0':
        n = 0
    labels = span_labels(spec)
    names = list(INITIAL[fl])
    L = rng.choice([1, 2, 3, 5, 8, 12, 20, 30])
    ops = []
    if rng.random() < 0.8:      # start from a few well-formed variables of assorted dtypes, declared out of order
        for name in rng.sample(['B', 'A', 'a', 'C'], k=rng.choice([1, 2, 2, 3])):
            kind = rng.choice(KINDS)
            v = rand_scalar(rng, kind) if rng.random() < 0.5 else [rng.choice(POOL[kind]) for _ in range(n)]
            ops.append({'op': 'addVariable', 'name': name, 'v': enc_operand(v), 'dtype': rng.choice([None, None, kind])})
            names.append(name)
    for _ in range(L):
        it = rand_item(rng, names + (['status', 'iterations'] if fl != 'container' and rng.random() < 0.1 else []), n,
                       labels)
        if it['op'] == 'addVariable' and it['name'] not in names:
            names.append(it['name'])     # optimistic: may have failed, then the name is simply unknown later
        ops.append(it)
    return {'flavour': fl, 'strict': rng.random() < 0.2, 'span': spec, 'ops': ops}


# ---- exhaustive core -----------------------------------------------------------------------------------------------

CORE_SPAN = {'type': 'range', 'args': [2000, 2003]}
CORE_SETUP = [
    {'op': 'addVariable', 'name': 'A', 'v': enc_operand(1.0), 'dtype': None},
    {'op': 'addVariable', 'name': 'B', 'v': enc_operand([1, 2, 3]), 'dtype': None},
    {'op': 'addAttribute', 'name': 'R'},
]


def core_alphabet():
    L = enc_label
    E = enc_operand
    return [
        {'op': 'addVariable', 'name': 'C', 'v': E(2.5), 'dtype': 'i'},
        {'op': 'addVariable', 'name': 'A', 'v': E(1), 'dtype': None},
        {'op': 'addVariable', 'name': 'C', 'v': E([1, 2]), 'dtype': None},
        {'op': 'addVariable', 'name': 'S', 'v': E('ab'), 'dtype': None},
        {'op': 'addVariable', 'name': 'C', 'v': E([[1, 2], [3, 4], [5, 6]]), 'dtype': None},
        {'op': 'setAttr', 'name': 'A', 'v': E(2.5)},
        {'op': 'setAttr', 'name': 'A', 'v': E([4, 5, 6])},
        {'op': 'setAttr', 'name': 'A', 'v': E([4, 5])},
        {'op': 'setAttr', 'name': 'A', 'v': E([[1, 2], [3, 4], [5, 6]])},
        {'op': 'setAttr', 'name': 'A', 'v': E([[7, 8, 9]])},
        {'op': 'setAttr', 'name': 'A', 'v': E(np.array([7, 8, 9]))},
        {'op': 'setAttr', 'name': 'A', 'v': E(np.array([7, 8]))},
        {'op': 'setAttr', 'name': 'B', 'v': E([0.5, 2.5, -1.75])},
        {'op': 'setAttr', 'name': 'B', 'v': E(np.array([1.0]))},
        {'op': 'setAttr', 'name': 'Q', 'v': E(1)},
        {'op': 'setAttr', 'name': 'R', 'v': E(2)},
        {'op': 'setAttr', 'name': 'A', 'v': E([[7], [8], [9]])},
        {'op': 'setAttr', 'name': 'Ab', 'v': E(1)},
        {'op': 'setAttr', 'name': 'copy', 'v': E(1)},
        {'op': 'setAttr', 'name': 'exec', 'v': E([1, 2, 3])},
        {'op': 'setItem', 'name': 'A', 'v': E((1, 2, 3))},
        {'op': 'setItem', 'name': 'Z', 'v': E(1)},
        {'op': 'setItem', 'name': 'B', 'v': E(['12', 'a', '7'])},
        {'op': 'setPos', 'name': 'A', 'i': -1, 'v': E(9)},
        {'op': 'setPos', 'name': 'A', 'i': 5, 'v': E(9)},
        {'op': 'setPosSlice', 'name': 'B', 'a': 1, 'b': None, 'step': None, 'v': E([8, 9])},
        {'op': 'setLabel', 'name': 'A', 'label': L(2001), 'v': E(True)},
        {'op': 'setLabel', 'name': 'A', 'label': L(1999), 'v': E(1)},
        {'op': 'setLabel', 'name': 'attributes', 'label': L(2000), 'v': E(1)},
        {'op': 'setLabelSlice', 'name': 'strict', 'a': L(2000), 'b': L(2001), 'step': None, 'v': E(9)},
        {'op': 'addVariable', 'name': 'index', 'v': E(1.0), 'dtype': None},
        {'op': 'addVariable', 'name': 'attributes', 'v': E(1.0), 'dtype': None},
        {'op': 'setAttr', 'name': '_K', 'v': E(1)},
        {'op': 'addVariable', 'name': 'K', 'v': E([1.0, 2.0, 3.0]), 'dtype': None},
        {'op': 'setLabelSlice', 'name': 'A', 'a': L(2000), 'b': L(2001), 'step': None, 'v': E([7, 8])},
        {'op': 'setLabelSlice', 'name': 'B', 'a': L(2000), 'b': None, 'step': 2, 'v': E(2.5)},
        {'op': 'setLabelSlice', 'name': 'B', 'a': L(2000), 'b': None, 'step': None, 'v': E([1, 2])},
        {'op': 'replaceValues', 'kvs': [['A', E(1)], ['B', E([4, 5, 6])]]},
        {'op': 'replaceValues', 'kvs': [['A', E([1, 2])], ['B', E(0)]]},
        {'op': 'setValues', 'v': E(0)},
        {'op': 'setValues', 'v': E(np.array([[1.5, 2.5, 3.5], [4.0, 5.0, 6.0]]))},
        {'op': 'setValues', 'v': E(np.array([[1, 2, 3], [4, 5, 6], [7, 8, 9]]))},
        {'op': 'setValues', 'v': E(np.array([1.0, 2.0, 3.0]))},
        {'op': 'setStrict', 'b': True},
        {'op': 'setStrict', 'b': False},
        {'op': 'addAttribute', 'name': 'P'},
        {'op': 'addAttribute', 'name': 'A'},
    ]


def core_cases(max_len):
    alpha = core_alphabet()
    for strict in (False, True):
        for L in range(1, max_len + 1):
            for seq in itertools.product(alpha, repeat=L):
                yield {'flavour': 'container', 'strict': strict, 'span': CORE_SPAN, 'ops': CORE_SETUP + list(seq)}


# ---- oracle: the property restated against the real code ------------------------------------------------------------

WHOLE = ('setAttr', 'setItem')
NUMERIC = ('f', 'i', 'b')


def is_rect_outer(j, n):
    return j['t'] == 'nested' and len({len(r) for r in j['rows']}) <= 1 and len(j['rows']) == n


def scalar_kind(j):
    return j['v'][0] if j['t'] == 'scalar' else None


def misfit(item, n, existing):
    """Reason why the property requires this single-variable assignment to raise (None if it does not)."""
    op = item['op']
    name = item.get('name')
    if op == 'addVariable':
        if name in existing:
            return 'duplicate-name'
        c = cc.operand_count(item['v'])
        if c is None or c not in (1, n):
            return 'wrong-size'
        return None
    if op in ('setItem', 'setPos', 'setPosSlice', 'setLabel', 'setLabelSlice') and name not in existing:
        return 'unknown-name'
    if op in WHOLE and name in existing:
        if item['v']['t'] == 'nested':
            # a list of lists is two-dimensional whatever its element count (1 x n, n x 1, 2 x n/2, ...): the wrong shape
            # for a one-dimensional series that already exists (only `add_variable` flattens what it is given)
            return 'wrong-shape'
        c = cc.operand_count(item['v'])
        if c is None or c not in (1, n):
            return 'wrong-size'
    if op in ('setPos', 'setLabel') and name in existing:
        c = cc.operand_count(item['v'])
        if c is None or c != 1:
            return 'wrong-size'
    return None


def mentions(message, word):
    """`word` occurs in `message` as a whole identifier (quote style and wording are not the property's business)."""
    return re.search(r'(?<![A-Za-z0-9_])' + re.escape(word) + r'(?![A-Za-z0-9_])', message) is not None


class Oracle:
    """C09 restated against the object, step by step.  Independent of the Lean model."""

    def __init__(self, rep, case, extra_size=0):
        self.rep, self.case = rep, case
        self.created = {}
        self.broken = False
        self.prev_attrs = None
        self.prev_strict = None
        self.prev_keys = None
        self.n_ok = self.n_raised = 0
        self.extra_size = 0
        self.prev_internal = None

    def violate_obs(self, key, what):
        self.violate(key, what, getattr(self, 'k', -1))

    def violate(self, key, what, k):
        self.rep.violate(key, what, {'case': {**self.case, 'ops': self.case['ops'][:k + 1]}, 'at': k})

    def __call__(self, obj, item, before, out, exc, decl):
        try:
            self.observe(obj, item, before, out, exc, decl)
        except Exception as e:  # noqa: BLE001  (reading the public state raised: that is itself reportable)
            self.broken = True
            self.violate_obs(f'observation-raised:{type(e).__name__}', f'observing the object after {item and item["op"]} raised {e!r}')

    def observe(self, obj, item, before, out, exc, decl):
        n = len(obj.span)
        k = -1 if item is None else self.k + 1
        if item is None:
            self.k = -1
            self.extra = self.extra_size
        else:
            self.k += 1
            if out == 'ok':
                self.n_ok += 1
            else:
                self.n_raised += 1
        if self.broken:
            return
        op = item['op'] if item else None
        if item is not None and self.prev_internal is not None and cc.clobbers(
                item, out, set(self.prev_internal['keys']), list(before)):
            self.broken = True
            if op == 'addVariable':
                self.violate('add-variable-internal-name',
                             f"add_variable({item['name']!r}, ...) succeeded although __dict__['_{item['name']}'] was "
                             f"taken; it now holds a {type(obj.__dict__.get('_' + item['name'])).__name__}", k)
            else:
                self.violate('attribute-set-storage-key',
                             f"{op} {item['name']!r} succeeded and replaced the storage of variable {item['name'][1:]!r} "
                             f"by a {type(obj.__dict__.get(item['name'])).__name__}", k)
            return
        # 1. every series: one-dimensional, one element per period, dtype as created
        for name in obj.index:
            a = np.asarray(obj[name])
            if name not in self.created:
                self.created[name] = a.dtype
                want = item.get('dtype') if item and op == 'addVariable' else None
                if want is None and item and op == 'addVariable' and self.case['flavour'] != 'container':
                    want = 'f'     # ModelInterface.add_variable: dtype=None means the model's dtype (float here)
                if want is not None and a.dtype.kind != want:
                    self.violate('created-dtype-mismatch', f'{name} created with dtype={want} has dtype {a.dtype}', k)
            if a.ndim != 1 or a.shape[0] != n:
                self.broken = True
                nested = item is not None and (
                    (op in WHOLE and is_rect_outer(item['v'], n)) or
                    (op == 'replaceValues' and any(is_rect_outer(v, n) for _, v in item['kvs'])))
                key = 'nested-list-outer-len-eq-span' if nested else f'series-not-1d:{op}'
                self.violate(key, f'after {op}: {name}.shape == {a.shape} on a {n}-period span', k)
                return
            if a.dtype != self.created[name]:
                self.broken = True
                self.violate(f'dtype-changed:{op}', f'after {op}: {name} was created {self.created[name]}, is {a.dtype}', k)
                return
        # 2. values is the stack in declaration order, size its element count
        try:
            v = obj.values
        except Exception as e:  # noqa: BLE001
            self.violate('values-raises', f'obj.values raised {type(e).__name__}', k)
            return
        want_shape = (len(decl), n) if decl else (0,)
        if v.shape != want_shape:
            self.violate('values-not-stack', f'values.shape {v.shape}, expected {want_shape} for {decl}', k)
        else:
            for r, name in enumerate(decl):
                if name not in obj.index or v[r].tobytes() != np.asarray(obj[name]).astype(v.dtype).tobytes():
                    self.violate('values-not-stack', f'row {r} of values is not the series {name}', k)
                    break
        if obj.size != v.size + self.extra:
            self.violate('size-mismatch', f'size {obj.size}, values has {v.size} elements (+{self.extra} in submodels)', k)
        if item is None:
            self.prev_attrs, self.prev_strict = list(obj._attributes), bool(obj.strict)
            self.prev_keys = set(obj.__dict__)
            self.prev_internal = cc.internal_state(obj)
            return
        # 3. an assignment that cannot fit raises and leaves every series — and the container's own bookkeeping — unchanged
        why = misfit(item, n, before)
        if why is None and op == 'addVariable' and '_' + item['name'] in self.prev_internal['keys']:
            why = 'storage-key-taken'       # must raise and leave everything unchanged
        if (why is None and op in ('addAttribute', 'setAttr') and item['name'].startswith('_')
                and item['name'][1:] in before):
            why = 'storage-key-taken'       # the name is the storage key of a variable
        internal = cc.internal_state(obj)
        # a (name, label) / (name, slice) assignment whose name is not a variable but happens to be one of the
        # container's own `__dict__` entries (without the underscore)
        internal_name = (op in ('setLabel', 'setLabelSlice') and item['name'] not in before
                         and '_' + item['name'] in self.prev_internal['keys'])
        if why is not None and out != 'ok' and internal != self.prev_internal:
            self.violate('tuple-set-internal-name' if internal_name else f'failed-assign-changed-state:{op}',
                         f'{op} {item.get("name")!r} raised {out} ({why}) but the container\'s own state changed: ' +
                         ', '.join(f'{x}: {self.prev_internal[x]} -> {internal[x]}' for x in internal
                                   if internal[x] != self.prev_internal[x]), k)
        if why is not None:
            if out == 'ok':
                key = f'accepted-misfit:{why}:{op}'
                if internal_name:
                    key = 'tuple-set-internal-name'

                if (op in ('setPos', 'setLabel') and why == 'wrong-size'
                        and before[item['name']].dtype.kind == 'b'):
                    key = 'bool-element-accepts-sequence'    # NumPy stores bool(list) / bool(ndarray)
                self.violate(key, f'{op} {item.get("name")} should not fit ({why}) but succeeded', k)
            else:
                after = cc.snapshot(obj)
                if list(after) != list(before) or any(not cc.same_array(after[x], before[x]) for x in before):
                    self.violate(f'failed-assign-changed-state:{op}', f'{op} raised {out} ({why}) but series changed', k)
        # 4. strict
        attrs = list(obj._attributes)
        if self.prev_strict:
            name = item.get('name')
            # `strict` / `values` are class properties: their first use is recorded in `_attributes` (bookkeeping, not a
            # new instance attribute — `__dict__` is checked separately below)
            allowed = ({name} if op == 'addAttribute' else {'strict'} if op == 'setStrict'
                       else {'values'} if op == 'setValues' else set())
            new = [a for a in attrs if a not in self.prev_attrs and a not in allowed]
            newkeys = {x for x in set(obj.__dict__) - self.prev_keys
                       if not (op == 'addVariable' and x == '_' + name) and not (op == 'addAttribute' and x == name)}
            if new or newkeys:
                self.violate(f'strict-new-attribute:{op}', f'strict=True but {op} created attribute(s) {new or sorted(newkeys)}', k)
            if op == 'setAttr' and name not in before and name not in self.prev_attrs and name != 'strict':
                if out == 'ok':
                    self.violate('strict-bypassed', f'strict=True: obj.{name} = ... did not raise', k)
                elif out == 'AttributeError':
                    alts = cc.closest(name, [d for d in decl if d in before or d in obj.index])
                    if len(alts) == 1 and not mentions(str(exc).replace(name, '', 1), alts[0]):
                        self.violate('strict-no-suggestion', f'closest variable to {name!r} is {alts[0]!r}; message: {exc}', k)
            if op == 'setAttr' and name in before and scalar_kind(item['v']) in NUMERIC and out != 'ok':
                self.violate('strict-blocks-existing', f'strict=True: update of existing variable {name} raised {out}', k)
            if (op == 'setAttr' and name not in before and name in self.prev_attrs and name not in ('strict', 'values')
                    and out != 'ok'):
                # an attribute that already exists (made by add_attribute, by plain assignment before strict was
                # switched on, or by the class's own __init__) is an "existing name": updating it keeps working
                self.violate('strict-blocks-existing-attribute',
                             f'strict=True: update of existing attribute {name} raised {out}', k)
            if (op == 'addVariable' and name not in before and name not in self.prev_attrs
                    and '_' + name not in self.prev_internal['keys'] and scalar_kind(item['v']) in NUMERIC
                    and item.get('dtype') in (None, 'f', 'i', 'b') and out != 'ok'):
                self.violate('strict-blocks-add-variable', f'strict=True: add_variable({name!r}, scalar) raised {out}', k)
            if op == 'setValues' and scalar_kind(item['v']) in NUMERIC and out in ('AttributeError', 'NotImplementedError'):
                self.violate('strict-blocks-values-setter', f'strict=True: obj.values = <scalar> raised {out}', k)
        self.prev_attrs, self.prev_strict, self.prev_keys = attrs, bool(obj.strict), set(obj.__dict__)
        self.prev_internal = internal


def scenario_cases():
    """Fixed short histories on every flavour: existing attributes (three ways of coming into existence) updated under
    strict; two-dimensional lists of every arrangement assigned to an existing series."""
    spans = {4: {'type': 'range', 'args': [2000, 2004]}, 1: {'type': 'list', 'labels': [enc_label('p')]}}
    E = enc_operand
    for fl in ('container', 'model', 'built', 'linker'):
        for strict0 in (False, True):
            ops = [] if strict0 else [{'op': 'setAttr', 'name': 'P', 'v': E(1)}]       # plain assignment, strict off
            ops += [{'op': 'addAttribute', 'name': 'Q'}, {'op': 'addVariable', 'name': 'A', 'v': E(1.0), 'dtype': 'f'},
                    {'op': 'setStrict', 'b': True}]
            ops += [{'op': 'setAttr', 'name': nm, 'v': E(v)} for nm, v in
                    (('P', 2), ('Q', [1, 2]), ('Q', 'text'), ('engine', 5), ('lags', 3), ('A', 2.5), ('Qq', 1), ('P', 3))]
            yield {'flavour': fl, 'strict': strict0, 'span': spans[4], 'ops': ops}
        for n, nested in ((4, [[1, 2], [3, 4]]), (4, [[1, 2, 3, 4]]), (4, [[1], [2], [3], [4]]), (4, [[1, 2, 3], [4]]),
                          (1, [[5]]), (4, [[5]]), (4, ((1, 2), (3, 4)))):
            ops = [{'op': 'addVariable', 'name': 'A', 'v': E(1.0), 'dtype': 'f'},
                   {'op': 'addVariable', 'name': 'B', 'v': E(list(range(n))), 'dtype': 'i'}]
            for op in ('setAttr', 'setItem'):
                ops += [{'op': op, 'name': 'A', 'v': E(nested)}, {'op': op, 'name': 'B', 'v': E(nested)}]
            ops.append({'op': 'replaceValues', 'kvs': [['A', E(nested)]]})
            yield {'flavour': fl, 'strict': False, 'span': spans[n], 'ops': ops}


def check_cases(ctx, rep, cases, label):
    lines, impls, kept = [], [], []
    for case in cases:
        orc = Oracle(rep, case)
        try:
            line, impl_out, obj = cc.run_case(case, observer=orc)
        except Exception as e:  # noqa: BLE001  (e.g. the constructor itself fails on the tree under test)
            rep.violate(f'case-could-not-run:{type(e).__name__}', f'running the history raised outside any operation: {e!r}',
                        {'case': case, 'at': -1})
            continue
        key = json.dumps(case, sort_keys=True)
        nontrivial = (orc.n_ok >= 1 and orc.n_raised >= 1) or orc.n_ok >= 3
        rep.case(key, nontrivial=nontrivial,
                 sample={'flavour': case['flavour'], 'span': case['span'], 'strict': case['strict'],
                         'ops': [o['op'] for o in case['ops']][:12], 'last': impl_out[-1][:160]}
                 if rep.evaluations % 499 == 0 else None)
        rep.dist[f'{label}:flavour:{case["flavour"]}'] += 1
        rep.dist[f'{label}:len:{min(len(case["ops"]), 30) // 5 * 5}+'] += 1
        for it, o in zip(case['ops'], impl_out):
            rep.dist[f'op:{it["op"]}:{o.split("|")[0]}'] += 1
        if line is None:
            rep.dist['outside-model'] += 1
            continue
        lines.append(line)
        impls.append(impl_out)
        kept.append(case)
    if not ctx.oracle_only and lines:
        for case, line, impl_out, reply in zip(kept, lines, impls, ctx.drive(lines)):
            cc.compare(rep, 'container history: model != impl', case, line, impl_out, reply)


def run(ctx, rep):
    quick = ctx.tier == 'quick'
    check_cases(ctx, rep, list(scenario_cases()), 'scenario')
    core = list(core_cases(2 if quick else 2))
    check_cases(ctx, rep, core, 'core')
    n_random = (7500 if quick else 100000) * ctx.scale
    rng = ctx.sub_rng('random')
    for chunk in range(0, n_random, 2500):
        check_cases(ctx, rep, [random_case(rng) for _ in range(min(2500, n_random - chunk))], 'random')
    if not quick and ctx.scale == 1:
        alpha = core_alphabet()
        n3 = 0
        batch = []
        for seq in itertools.product(alpha, repeat=3):     # every history of length 3 (non-strict start)
            batch.append({'flavour': 'container', 'strict': False, 'span': CORE_SPAN, 'ops': CORE_SETUP + list(seq)})
            n3 += 1
            if len(batch) == 2500:
                check_cases(ctx, rep, batch, 'core3')
                batch = []
        check_cases(ctx, rep, batch, 'core3')
        rep.notes.append(f'exhaustive length-3 histories over the reduced alphabet: {n3}')
    rep.exhaustive = False
    rep.notes.append(f'exhaustive core: {len(core)} histories (setup + every sequence of length <= 2 over '
                     f'{len(core_alphabet())} operations, strict and non-strict); random histories: {n_random}')


def replay(ctx, rep, case):
    c = case['case'] if 'case' in case and 'ops' not in case else case
    orc = Oracle(rep, c)
    line, impl_out, obj = cc.run_case(c, observer=orc)
    for it, o in zip(c['ops'], impl_out):
        print('  ', json.dumps(it)[:150], '->', o[:200])
    if line is not None:
        try:
            reply = ctx.drive([line])[0].split('\t')
            for k, (a, b) in enumerate(zip(reply, impl_out)):
                if a != b:
                    print(f'  model differs at item {k}:\n    model: {a[:300]}\n    impl : {b[:300]}')
                    break
            else:
                print('  model agrees with the implementation on every item')
        except Exception as e:  # noqa: BLE001
            print('  model: <driver unavailable>', e)
