"""C09 — container series keep their length and dtype under every assignment history."""
import itertools, json

import numpy as np

import fsic
import container_common as cc
from container_common import enc_operand, enc_label

ID = 'C09'
LEAN_MODULE = 'Proofs.C09'
THEOREMS = ['Fsic.C09.' + n for n in [
    'inv_init', 'inv_step_false_at_witness', 'inv_step_partial', 'inv_history_partial', 'dtype_step', 'dtype_history',
    'index_step_prefix', 'failed_assign_unchanged', 'conversion_failure_may_write', 'values_is_stack', 'size_eq',
    'size_counts_values', 'strict_no_new_attribute', 'strict_existing_names_work', 'strict_add_variable_works',
    'strict_reports_closest']]
RULE = ('histories of public operations {add_variable, add_attribute, attribute set, name-key set, positional set, '
        '(name,label) set, (name,label-slice) set, replace_values, values setter (array/scalar/list), toggle strict, '
        'malformed key} with operands {scalar, list, tuple, range, nested list (1xn, nx1, nxm, ragged, empty rows), '
        'ndarray rank 0/1/2 of right/wrong length, length-1 array} x kinds {float,int,bool,str} on VectorContainer, '
        'BaseModel (hand-written and parser-built) and BaseLinker (with and without submodels), span length 0..5: '
        'every history of length <= 2 over a reduced alphabet (exhaustive core, seed-independent) + random histories '
        'of length <= 30. After EVERY operation both sides are compared on outcome class, index, attribute list, '
        'strict, size, nbytes, shape+dtype of `values`, and shape, dtype and every element (IEEE bits / text) of '
        'every series. distinct = distinct (flavour, span, history); non-trivial = at least one operation succeeded '
        'and at least one raised, or the history has >= 3 successful assignments')
TRUSTED = ['NumPy element conversion / broadcasting rules are re-implemented in lean/FsicModel/Container.lean for the '
           'operand alphabet only (floats that are multiples of 1/4 below 1e16, plain decimal strings, |int| < 2^53, '
           'no NaN/inf into int series) and validated against NumPy on every generated operand',
           "difflib.get_close_matches defines 'closest variable' (its result is an input of the model)",
           'the initial store of BaseModel/BaseLinker instances is read from the freshly constructed object']
ASSUMPTIONS = ['operands stay inside the alphabet above', 'variable and attribute names come from a pool that avoids '
               "the container's own attribute names ('span', 'index', 'names', 'dtype', ...)",
               "'cannot fit' is read weakly: an operand whose element count is neither 1 nor len(span), or a ragged "
               'nested list, or an unknown / duplicate name; conversion failures (e.g. the string "a" into a float '
               'series) are outside the atomicity claim (NumPy may already have stored a prefix)',
               'BaseLinker.size counts the submodels too (its documented meaning); the property\'s "size is the '
               'element count of values" is applied to the linker\'s own part']

META = {
    "text": "Theorems over the container model M6 for every store, operation and operand: every operation other than a whole-series assignment of a rectangular nested list whose outer length equals the span keeps every series one-dimensional with one element per period (inv_step_partial, hence every history: inv_history_partial, induction on the operation list); the dtype tag of an existing series never changes under any operation or history, without exception (dtype_step, dtype_history); failed single-variable assignments other than element-conversion failures leave the store unchanged; values is the names-by-periods stack in declaration order and size its element count; under strict no assignment extends the attribute list, existing names and add_variable behave as without strict, and a unique closest name is reported. The full invariant is FALSE on the code as it stands: obj.A = [[1,2],[3,4],[5,6]] on a 3-period span makes A two-dimensional (negation proved at that witness, reproduced on the real code, listed as an open known finding). The model is tied to VectorContainer/BaseModel/BaseLinker by comparing outcome class, index, attributes, size, nbytes, values shape/dtype and every element of every series after every operation of exhaustive short and random long histories.",
    "design_ref": "DESIGN.md §5 M6, §6 C09, §7 row 6",
    "note": "Trusted: Lean kernel; axioms propext/Classical.choice/Quot.sound; the correspondence harness; NumPy's conversion/broadcast behaviour is modelled only for the operand alphabet and validated on generated operands, difflib's notion of closest name and the initial state of model/linker instances are inputs. The invariant is claimed only outside the known finding (nested list with outer length = span length assigned to a whole series).",
    "technique": "Lean 4 proof (invariant + induction over histories) + differential correspondence check after every operation"
}

FLOATS = [0.0, 1.0, 2.5, -1.75, 3.25, 100.0, -0.5, 1000000.0]
INTS = [0, 1, 2, -3, 7, 12, 1000]
BOOLS = [True, False]
STRS = ['a', 'bcd', '', '12', '1.5', '-3', 'xyzuvw']
POOL = {'f': FLOATS, 'i': INTS, 'b': BOOLS, 'U': STRS}
KINDS = ['f', 'i', 'b', 'U']
STR_NUM = ['12', '7', '-3', '0']
STR_TXT = ['a', 'bcd', '', 'xyzuvw']
NEW_NAMES = ['A', 'B', 'C', 'a', 'Ab', 'P']
ATTR_NAMES = ['P', 'Q', 'note', 'Aa', 'b', 'Yy', 'H2']


def rand_scalar(rng, kind=None):
    kind = kind or rng.choice(KINDS)
    return rng.choice(POOL[kind])


def rand_flat(rng, length, kind=None):
    mode = rng.random()
    if kind is None:
        kind = rng.choice(KINDS)
    if mode < 0.7:
        return [rng.choice(POOL[kind]) for _ in range(length)]
    if mode < 0.9:   # mixed numeric
        return [rng.choice(POOL[rng.choice('fib')]) for _ in range(length)]
    return [rng.choice(POOL[rng.choice(KINDS)]) for _ in range(length)]


def rand_ndarray(rng, shape, kind=None):
    kind = kind or rng.choice(KINDS)
    count = int(np.prod(shape)) if shape else 1
    vals = [rng.choice(POOL[kind]) for _ in range(count)]
    dt = cc.NP_DTYPE.get(kind)
    if kind == 'U':   # str arrays are all-numeric or all-non-numeric: NumPy's cast loop may or may not have stored a
        vals = [rng.choice(grp) for grp in [rng.choice([STR_NUM, STR_TXT])] for _ in range(count)]   # prefix otherwise
    a = np.array(vals, dtype=dt) if dt else np.array(vals, dtype=f'<U{rng.choice([2, 3, 6])}')
    return a.reshape(shape)


def rand_operand(rng, n, kind=None):
    """One operand of the property's alphabet for a span of length n."""
    r = rng.random()
    wrong = rng.choice([max(n - 1, 0), n + 1, 1, 0, 2 * n])
    if r < 0.22:
        return rand_scalar(rng, kind)
    if r < 0.42:
        xs = rand_flat(rng, n if rng.random() < 0.7 else wrong, kind)
        return tuple(xs) if rng.random() < 0.25 else xs
    if r < 0.48:
        start = rng.choice([0, 1, -2])
        return range(start, start + (n if rng.random() < 0.7 else wrong))
    if r < 0.66:
        m = rng.choice([1, 2, n, 0])
        shape = rng.choice([(1, n), (n, 1), (n, 2), (2, n), (n, m), (1, 1), (n, 0), (wrong, 2)])
        rows = [rand_flat(rng, shape[1], kind or rng.choice(KINDS)) for _ in range(shape[0])]
        if rows and rng.random() < 0.15:
            rows[-1] = rows[-1] + [rand_scalar(rng, kind)]     # ragged
        if not rows:
            return []
        return rows
    shape = rng.choice([(), (n,), (1,), (wrong,), (1, n), (n, 1), (n, 2), (2, n), (1, 1)])
    return rand_ndarray(rng, shape, kind)


def values_operand(rng, obj_names, n):
    r = rng.random()
    k = len(obj_names)
    if r < 0.45:
        shape = (k, n)
    elif r < 0.75:
        shape = rng.choice([(k, n + 1), (k + 1, n), (n, k), (k,), (n,), (k, n, 1), (1, n), ()])
    else:
        return rand_operand(rng, n, rng.choice(['f', 'i', 'b']))
    if len(shape) > 2:
        shape = shape[:2]
    return rand_ndarray(rng, shape, rng.choice(['f', 'f', 'i', 'b', 'U']))


def span_spec(rng, n):
    r = rng.random()
    if r < 0.5:
        start = rng.choice([0, 1, 2000, -2])
        return {'type': 'range', 'args': [start, start + n]}
    if r < 0.75:
        return {'type': 'list', 'labels': [enc_label(x) for x in ['p', 'q', 'r', 's', 't', 'u'][:n]]}
    if r < 0.9:
        return {'type': 'numpy', 'labels': [enc_label(x) for x in range(10, 10 + n)]}
    return {'type': 'period', 'start': '2000', 'n': n, 'freq': 'Y'} if n else {'type': 'list', 'labels': []}


def span_labels(spec):
    return [enc_label(x) for x in cc.make_span(spec)]


def rand_label(rng, labels):
    if labels and rng.random() < 0.85:
        return rng.choice(labels)
    return enc_label(rng.choice(['zz', 99, -7]))


def rand_item(rng, names, n, labels):
    """`names`: variable names believed to exist (may be stale: unknown names are part of the alphabet)."""
    known = list(names) or ['A']
    def nm():
        return rng.choice(known) if rng.random() < 0.85 else rng.choice(NEW_NAMES + ['Zz'])
    r = rng.random()
    if r < 0.14:
        name = rng.choice(NEW_NAMES) if rng.random() < 0.8 else rng.choice(known)
        kind = rng.choice(KINDS + [None, None])
        return {'op': 'addVariable', 'name': name, 'v': enc_operand(rand_operand(rng, n, rng.choice(KINDS + [None]))),
                'dtype': kind}
    if r < 0.18:
        return {'op': 'addAttribute', 'name': rng.choice(ATTR_NAMES + known[:1])}
    if r < 0.38:
        name = nm() if rng.random() < 0.8 else rng.choice(ATTR_NAMES)
        return {'op': 'setAttr', 'name': name, 'v': enc_operand(rand_operand(rng, n))}
    if r < 0.48:
        return {'op': 'setItem', 'name': nm(), 'v': enc_operand(rand_operand(rng, n))}
    if r < 0.55:
        return {'op': 'setPos', 'name': nm(), 'i': rng.randrange(-n - 1, n + 2),
                'v': enc_operand(rand_operand(rng, 1) if rng.random() < 0.3 else rand_scalar(rng))}
    if r < 0.61:
        a, b = (rng.choice([None, None] + list(range(-n - 1, n + 2))) for _ in range(2))
        return {'op': 'setPosSlice', 'name': nm(), 'a': a, 'b': b, 'step': rng.choice([None, None, 1, 2, 3, -1, 0]),
                'v': enc_operand(rand_operand(rng, rng.choice([1, 2, n])))}
    if r < 0.70:
        return {'op': 'setLabel', 'name': nm(), 'label': rand_label(rng, labels),
                'v': enc_operand(rand_scalar(rng) if rng.random() < 0.7 else rand_operand(rng, 1))}
    if r < 0.80:
        a, b = (rng.choice([None, rand_label(rng, labels), rand_label(rng, labels)]) for _ in range(2))
        return {'op': 'setLabelSlice', 'name': nm(), 'a': a, 'b': b, 'step': rng.choice([None, None, 1, 2, 3]),
                'v': enc_operand(rand_operand(rng, rng.choice([1, 2, n])))}
    if r < 0.86:
        ks = rng.sample(known + ['Zz'], k=min(len(known) + 1, rng.choice([1, 2, 2, 3])))
        return {'op': 'replaceValues', 'kvs': [[k, enc_operand(rand_operand(rng, n))] for k in ks]}
    if r < 0.94:
        return {'op': 'setValues', 'v': enc_operand(values_operand(rng, known, n))}
    if r < 0.99:
        return {'op': 'setStrict', 'b': rng.random() < 0.5}
    return {'op': 'badKey', 'tuple': rng.random() < 0.5}


FLAVOURS = ['container'] * 5 + ['model', 'model', 'built', 'linker', 'linker', 'linker0']
INITIAL = {'container': [], 'model': ['Y', 'C'], 'built': ['Y', 'C', 'G'], 'linker': ['H'], 'linker0': ['H']}


def random_case(rng):
    fl = rng.choice(FLAVOURS)
    n = rng.choice([1, 2, 3, 3, 3, 4, 5, 0])
    spec = span_spec(rng, n) if fl != 'linker0' else {'type': 'list', 'labels': []}
    if fl == 'linker0':
        n = 0
    labels = span_labels(spec)
    names = list(INITIAL[fl])
    L = rng.choice([1, 2, 3, 5, 8, 12, 20, 30])
    ops = []
    for _ in range(L):
        it = rand_item(rng, names + (['status', 'iterations'] if fl != 'container' and rng.random() < 0.1 else []), n,
                       labels)
        if it['op'] == 'addVariable' and it['name'] not in names:
            names.append(it['name'])     # optimistic: may have failed, then the name is simply unknown later
        ops.append(it)
    return {'flavour': fl, 'strict': rng.random() < 0.2, 'span': spec, 'ops': ops}
