"""C05 — solve() equals the ordered sequence of single-period solves; failures contained."""
import json, warnings

import numpy as np
import pandas as pd

import fsic
import solver_common as sc
from solver_common import bits, unbits
from props.c02 import mkopts, ERRORS

ID = 'C05'
LEAN_MODULE = 'Proofs.C05'
THEOREMS = ['Fsic.C05.' + n for n in [
    'mem_periodRange', 'periodRange_eq', 'periodRange_reversed', 'solveList_nil', 'solveList_step',
    'solveList_eq_seq', 'solve_failure_containment', 'later_periods_untouched', 'solve_min_gt_max',
    'solve_bad_label', 'solve_empty_span', 'solve_explicit', 'solve_default_range', 'solvePeriod_spec',
    'defaults_agree', 'solveList_history_irrelevant', 'solve_history_irrelevant']] + ['Fsic.solveList_append', 'Fsic.solveT_series_frame', 'Fsic.solveT_lengths']
RULE = ('scripted multi-period models (span length 0..5, lags/leads 0..2) with a per-period script; every (start, end) '
        'pair over labels + an absent label + None incl. reversed and boundary pairs; span types range (origin 2000 and 0), mixed hashables incl. falsy labels, '
        'list of str, NumPy int/str arrays, pandas Index, annual and quarterly PeriodIndex, DatetimeIndex; option sets of '
        'C02/C06; a fault (exception, non-finite value, non-convergence) injected at every period position in turn. '
        'distinct = distinct (span type, script, options, start, end); non-trivial = at least two periods visited or a '
        'fault reached')
TRUSTED = ['label -> position is delegated to the real _locate_period_in_span (pandas get_loc / list.index / NumPy fallback): '
           'its result (plain int / other / KeyError) is an INPUT of the model (Loc); label lookup itself is property C10',
           'the scripted-model harness (solver_common.py)']
ASSUMPTIONS = ['labels in a span are unique', 'iter_periods is not overridden']
META = {
    'text': "Theorems for every interpretation and option set: the periods visited are exactly start..end inclusive in span "
            "order (none if reversed); solve() is the period loop of solve_t calls with the same options — if no period raises, "
            "world and (positions, flags) equal those of the sequential single-period solves; if period p raises after a "
            "completed prefix, the world is the prefix's world plus p's own effect and later periods are never solved (and "
            "their status/iterations entries are untouched, by the per-period series frame); min_iter>max_iter, unknown or "
            "non-integer start/end (KeyError before anything is solved), empty span (SolutionError); solve_period == solve_t "
            "at the label's position; reflected keyword defaults of all solve methods coincide. Tied to SolverMixin.solve by "
            "exact comparison over span types, (start, end) pairs and per-period fault injection.",
    'design_ref': 'DESIGN.md §5 M1 (solve, solveList), §6 C05',
    'note': 'Trusted: Lean kernel; axioms propext/Classical.choice/Quot.sound; correspondence harness; label location is an input '
            '(Loc) obtained from the real locator.',
    'technique': 'Lean 4 proof (induction over the period list, append lemma, series frame) + differential correspondence check',
}

SPAN_KINDS = ['range', 'range0', 'mixed', 'strs', 'np_dup', 'np_int', 'np_str', 'pd_index', 'period_A', 'period_Q', 'datetime',
              'np_float', 'np_float_dates', 'np_float_stamps', 'tuple_int']


def make_span(kind, n):
    if kind == 'range':
        return range(2000, 2000 + n), list(range(2000, 2000 + n)), 1990
    if kind == 'range0':      # origin 0: the first label is falsy
        return range(0, n), list(range(0, n)), -7
    if kind == 'mixed':       # arbitrary hashables, incl. falsy ones ('' and 0)
        labs = ['', 0, 'b', 2.5, (1, 2)][:n]
        return list(labs), labs, 'zz'
    if kind == 'strs':
        labs = [f'p{i}' for i in range(n)]
        return list(labs), labs, 'zz'
    if kind == 'np_dup':      # NumPy span with one repeated label: that label does not resolve to a single position
        labs = [2000 + i for i in range(n)]
        if n >= 4:
            labs[2] = labs[1]
        return np.array(labs), labs, 1990
    if kind == 'np_int':
        labs = list(range(2000, 2000 + n))
        return np.array(labs), labs, 1990
    if kind == 'np_str':
        labs = [f'p{i}' for i in range(n)]
        return np.array(labs), labs, 'zz'
    if kind == 'np_float':            # float labels are labels like any other: exact match, no tolerance
        labs = [2000.0 + 0.25 * i for i in range(n)]
        return np.array(labs), labs, 1999.75
    if kind == 'np_float_dates':      # yyyymmdd written as floats: neighbours differ by 5e-8 relative
        labs = [20200101.0 + i for i in range(n)]
        return np.array(labs), labs, 20200100.0
    if kind == 'np_float_stamps':     # POSIX seconds at hourly steps; the absent label is a near miss of a present one
        labs = [1.6e9 + 3600.0 * i for i in range(n)]
        return np.array(labs), labs, 1.6e9 + 0.5
    if kind == 'tuple_int':
        labs = [7 * i - 3 for i in range(n)]
        return tuple(labs), labs, 1000
    if kind == 'pd_index':
        labs = [10 * i + 5 for i in range(n)]
        return pd.Index(labs), labs, 3
    if kind == 'period_A':
        idx = pd.period_range(start='2000', periods=n, freq='Y')
        return idx, [str(p) for p in idx], '1990'
    if kind == 'period_Q':
        idx = pd.period_range(start='2000Q1', periods=n, freq='Q')
        return idx, [str(p) for p in idx], '1990Q1'
    if kind == 'datetime':
        idx = pd.date_range(start='2000-01-01', periods=n, freq='D')
        return idx, [str(p.date()) for p in idx], '1990-01-01'
    raise AssertionError(kind)


def loc_of(m, label):
    """What the real locator gives for a label: the model's Loc input."""
    if label is None:
        return None
    try:
        r = m._locate_period_in_span(label)
    except KeyError:
        return 'missing'
    if isinstance(r, int) and not isinstance(r, bool):
        return int(r)
    return 'other'


def period_outcomes(rng, n, lags, leads):
    """Per-period outcome sequences; optionally one injected fault."""
    seqs = {}
    for p in range(n):
        k = rng.randint(0, 3)
        seqs[p] = [rng.choice(['far', 'close', 'same']) for _ in range(k)] + ['same']
    fault_at = None
    if n and rng.random() < 0.6:
        fault_at = rng.randrange(n)
        kind = rng.choice(['raise', 'nan', 'diverge', 'warn'])
        if kind == 'diverge':
            seqs[fault_at] = ['far'] * 8
        else:
            seqs[fault_at] = [rng.choice(['far', 'close'])] * rng.randint(0, 2) + [kind, 'same']
    return seqs, fault_at


def gen_case(rng):
    kind = rng.choice(SPAN_KINDS)
    n = rng.choice([0, 1, 2, 3, 4, 5, 4, 5])
    nE = 2
    lags, leads = rng.choice([0, 0, 1, 2]), rng.choice([0, 0, 1])
    if kind == 'np_dup':      # keep the defaults (span[lags], span[-1-leads]) away from the repeated label
        n, lags, leads = max(n, 4), 0, 0
    seqs, fault_at = period_outcomes(rng, n, lags, leads)
    vals = [[float(i + 1 + 10 * p) for p in range(n)] for i in range(nE)]
    regime = rng.choice(['plain'] * 7 + ['float32', 'f32tiny', 'object', 'deftol', 'deftol'])
    if regime == 'f32tiny':
        # reduced-precision model, magnitudes well below 1, tolerance 1e-10: moves of 2**-26 are representable, are
        # >= tol, and must therefore count as movement in solve() exactly as in solve_t()
        vals = [[2.0 ** -7 * (1 + i + p) for p in range(n)] for i in range(nE)]
        seqs = {p: [rng.choice(['tiny', 'tiny', 'same']) for _ in range(rng.randint(0, 4))] + ['same'] for p in range(n)}
        fault_at = None
    if regime == 'deftol':
        # every keyword at its documented default is left out of the call, on both sides of the comparison; the moves
        # (2**-30) are above the default tolerance 1e-10
        vals = [[2.0 ** -7 * (1 + i + p) for p in range(n)] for i in range(nE)]
        seqs = {p: [rng.choice(['tiny2', 'tiny2', 'same']) for _ in range(rng.randint(0, 4))] + ['same'] for p in range(n)}
        fault_at = None
    script = [sc.make_script(seqs.get(p, []), [vals[i][p] for i in range(nE)], nE) for p in range(n)]
    M = rng.choice([0, 1, 3, 5, 6])
    o = mkopts(rng.choice([0, 0, 1, 2, M]) if M else 0, M, rng.choice([0, 0, 0, -1, 1]),
               rng.choice(['raise', 'ignore']), rng.choice(ERRORS), rng.choice([True, False]))
    o['min_iter'] = min(o['min_iter'], M)
    if rng.random() < 0.04:
        o['min_iter'] = o['max_iter'] + 1
    case = {'n': n, 'nE': nE, 'check': [0, 1], 'tol': bits(1e-10 if regime in ('f32tiny', 'deftol') else sc.TOL), 'script': script, 'before': [], 'after': [],
            'vals': [[bits(x) for x in row] for row in vals],
            'status': ''.join(rng.choice('-.F') for _ in range(n)) if rng.random() < 0.3 else '-' * n,
            'iters': [-1] * n, 'opts': o, 'lags': lags, 'leads': leads, 't': 0,
            'prov': rng.choice(sc.PROVENANCES), 'write': rng.choice(['inplace', 'inplace', 'rebind']),
            'argform': rng.choice(['plain', 'plain', 'numpy']), 'mix': rng.choice(sc.MIXES),
            'check_edit': rng.random() < 0.3, 'strict': rng.random() < 0.3}
    if regime == 'deftol':
        case['argform'] = 'omit'
        case['opts'].update(min_iter=0, offset=0, errors='raise', catch_first_error=True, max_iter=rng.choice([100, 100, 6]))
    elif regime != 'plain':
        case['dtype'] = 'float32' if regime in ('float32', 'f32tiny') else 'object'
    for acts in case['script']:
        for a in acts:
            if a.get('k') == 'raise':
                a['exc'] = rng.choice(sc.EXCEPTION_KINDS)
            elif a.get('k') == 'warn':
                a['cat'] = rng.choice(list(sc.WARNING_CATEGORIES))
    span, labels, absent = make_span(kind, n)

    def pick():
        r = rng.random()
        if r < 0.3 or not labels:
            return None if r < 0.25 or not labels else absent
        if r < 0.36:
            return absent
        if r < 0.40 and kind == 'period_Q':
            return '2000'      # a year against a quarterly index: resolves to a slice, not a single position
        return rng.choice(labels)
    return case, kind, span, labels, pick(), pick(), fault_at


def state_of(m, nE):
    return sc.world_str(m, nE)


def oracle(case, kind, span, labels, start, end, rep, impl_tag, impl_m, impl_ret):
    """The property restated: solve() == the same single-period solves in turn on a twin."""
    n, nE, o = case['n'], case['nE'], case['opts']
    info = {'case': case, 'kind': kind, 'start': start, 'end': end}
    twin = sc.build_instance(case, span=span)
    twin.__dict__['lags'], twin.__dict__['leads'] = case['lags'], case['leads']
    kw = sc.opts_kwargs(o, case['tol'], case.get('argform', 'plain'))
    unchanged = state_of(impl_m, nE) == state_of(twin, nE)

    def pos(label):
        # independent of fsic: position of a label in the span as listed
        return labels.index(label) if labels.count(label) == 1 else None
    if o['min_iter'] > o['max_iter']:
        if impl_tag != 'err:ValueError' or not unchanged:
            rep.violate('solve-minmax-not-rejected', f'min_iter > max_iter: {impl_tag}, unchanged={unchanged}', info)
        return 'rejected'
    for lab in (start, end):
        if lab is not None and pos(lab) is None:
            # unknown label, or one that does not name a single listed period
            if impl_tag != 'err:KeyError' or not unchanged:
                rep.violate('bad-label-not-keyerror', f'label {lab!r} not a single period of the span: {impl_tag}, unchanged={unchanged}', info)
            return 'keyerror'
    if n == 0:
        if not impl_tag.startswith('err:SolutionError') or not unchanged:
            rep.violate('empty-span', f'empty span: {impl_tag}', info)
        return 'empty'
    if (start is None and case['lags'] >= n) or (end is None and case['leads'] >= n):
        return 'silent'   # defaults point outside the span: the property does not say
    s = pos(start) if start is not None else case['lags']
    e = pos(end) if end is not None else n - 1 - case['leads']
    positions = list(range(s, e + 1))
    flags, exc = [], None
    with warnings.catch_warnings():
        warnings.simplefilter('ignore')
        for p in positions:
            try:
                flags.append(bool(twin.solve_t(p, **kw)))
            except Exception as ex:  # noqa: BLE001
                exc = ex
                break
    if exc is None:
        want = 'ok:' + ','.join(map(str, positions)) + ':' + ''.join('T' if f else 'F' for f in flags)
        ok = impl_tag == want and state_of(impl_m, nE) == state_of(twin, nE)
        if ok and isinstance(impl_ret, tuple):
            got_labels = [str(x) if kind in ('period_A', 'period_Q') else (str(x.date()) if kind == 'datetime' else x)
                          for x in impl_ret[0]]
            ok = [str(x) for x in got_labels] == [str(labels[p]) for p in positions]
        if not ok:
            rep.violate('solve-not-sequence', f'solve(start={start!r}, end={end!r}) gave {impl_tag}; sequential solve_t gives {want}; '
                        f'states equal: {state_of(impl_m, nE) == state_of(twin, nE)}', info)
        return 'ok'
    want = 'err:' + sc.exc_name(exc)
    if impl_tag != want or state_of(impl_m, nE) != state_of(twin, nE):
        rep.violate('failure-not-contained', f'solve(start={start!r}, end={end!r}) gave {impl_tag}; sequential solve_t stops with {want} '
                    f'at position {positions[len(flags)]}; states equal: {state_of(impl_m, nE) == state_of(twin, nE)}', info)
    return 'raised'


def oracle_solve_period(case, kind, span, labels, label, rep):
    nE = case['nE']
    kw = sc.opts_kwargs(case['opts'], case['tol'], case.get('argform', 'plain'))
    a = sc.build_instance(case, span=span)
    b = sc.build_instance(case, span=span)
    for inst in (a, b):
        inst.__dict__['lags'], inst.__dict__['leads'] = case['lags'], case['leads']
    info = {'case': case, 'kind': kind, 'label': label}
    with warnings.catch_warnings():
        warnings.simplefilter('ignore')
        try:
            ra = 'ret:' + ('T' if a.solve_period(label, **kw) else 'F')
        except Exception as ex:  # noqa: BLE001
            ra = sc.exc_name(ex)
        if labels.count(label) == 1:
            try:
                rb = 'ret:' + ('T' if b.solve_t(labels.index(label), **kw) else 'F')
            except Exception as ex:  # noqa: BLE001
                rb = sc.exc_name(ex)
            if ra != rb or state_of(a, nE) != state_of(b, nE):
                rep.violate('solve-period-differs', f'solve_period({label!r}) -> {ra}; solve_t({labels.index(label)}) -> {rb}', info)
        else:
            if ra != 'KeyError' or state_of(a, nE) != state_of(b, nE):
                rep.violate('solve-period-bad-label', f'solve_period({label!r}) with a label that is not a single period -> {ra}', info)
    return ra, a


def natural_stream(ctx, rep, count):
    """Parser-built models (lags, leads, named periods, indexed left-hand sides): the default range of solve() is
    'the first period with enough lags through the last with enough leads', where enough is what the SCRIPT reads —
    taken from the generator's syntax tree, not from the class's LAGS / LEADS."""
    import gen_scripts as g
    import fsic
    rng = ctx.sub_rng('natural-range')
    for i in range(count):
        n = rng.choice([6, 7, 8, 9])
        labels = list(range(2000, 2000 + n))
        cfg = g.GenConfig(allow_named_periods=True, span_labels=labels, max_equations=3, max_depth=2,
                          lhs_offsets=rng.random() < 0.3)
        prog = g.gen_program(rng, cfg)
        exp = g.expected_classes(prog)
        txt = g.render(prog, g.random_layout(rng) if rng.random() < 0.3 else g.PLAIN)
        if exp['conflict'] or exp['lags'] + exp['leads'] >= n:
            continue
        try:
            Model = fsic.build_model(fsic.parse_model(txt))
        except Exception:  # noqa: BLE001   (scripts the parser rejects are C01/C13's business)
            rep.dist['natural-range:not-built'] += 1
            continue
        m = sc.with_provenance(Model, range(2000, 2000 + n), rng.choice(sc.PROVENANCES))
        for k, v in g.random_data(rng, prog, n).items():
            m[k] = v
        m.status[:] = '-'           # (a used instance carries the record of its warm-up)
        m.iterations[:] = -1
        with warnings.catch_warnings():
            warnings.simplefilter('ignore')
            try:
                labs, idx, flags = m.solve(max_iter=1, failures='ignore', errors='ignore')
            except Exception as e:  # noqa: BLE001
                rep.dist['natural-range:raised:' + type(e).__name__] += 1
                continue
        want = list(range(exp['lags'], n - exp['leads']))
        ok = [int(x) for x in idx] == want and list(labs) == [labels[p] for p in want] and \
            [j for j in range(n) if str(m.status[j]) != '-'] == want
        rep.dist['natural-range:' + ('ok' if ok else 'WRONG')] += 1
        rep.case(('natural-range', txt, n), nontrivial=exp['lags'] + exp['leads'] > 0)
        if not ok:
            rep.violate('default-range-natural',
                        f'script reads lags {exp["lags"]} / leads {exp["leads"]} on {n} periods: solve() visited {list(idx)} '
                        f'(status {"".join(map(str, m.status))}), expected {want}', {'natural': txt, 'n': n})


def _work(ctx, rep):
    natural_stream(ctx, rep, (400 if ctx.tier == 'quick' else 40000) * ctx.scale // ctx.parts)
    rng = ctx.sub_rng('solve')
    N = (5000 if ctx.tier == 'quick' else 500000) * ctx.scale // ctx.parts
    lines, expect = [], []
    for i in range(N):
        case, kind, span, labels, start, end, fault_at = gen_case(rng)
        tag, m, ret = sc.run_impl_solve(case, span=span, start=start, end=end)
        r = oracle(case, kind, span, labels, start, end, rep, tag, m, ret)
        rep.dist[f'{kind}:{r}'] += 1
        visited = len({p for (p, *_r) in m.passes})
        rep.case(json.dumps([case, kind, str(start), str(end)], sort_keys=True), nontrivial=visited >= 2 or tag.startswith('err'),
                 sample={'span': kind, 'n': case['n'], 'start': str(start), 'end': str(end), 'opts': case['opts'], 'impl': tag,
                         'status': ''.join(map(str, m.status))} if i % 997 == 0 else None)
        req = dict(case)
        req['start'], req['end'] = loc_of(m, start), loc_of(m, end)
        lines.append(sc.line('solve', req))
        expect.append(({'case': case, 'kind': kind, 'start': start, 'end': end}, tag + '|' + sc.world_str(m, case['nE'])))
        if i % 4 == 0 and case['n']:
            label = rng.choice(labels + [make_span(kind, case['n'])[2]] + (['2000'] if kind == 'period_Q' else []))
            ra, a = oracle_solve_period(case, kind, span, labels, label, rep)
            req = dict(case)
            req['loc'] = loc_of(a, label)
            lines.append(sc.line('solve_period', req))
            expect.append(({'case': case, 'kind': kind, 'label': label}, ra + '|' + sc.world_str(a, case['nE'])))
            rep.case(json.dumps([case, kind, 'solve_period', str(label)], sort_keys=True), nontrivial=True)
    if not ctx.oracle_only:
        outs = ctx.drive(lines)
        for (info, b), a in zip(expect, outs):
            if a != b:
                rep.disagree('solve / solve_period: model != impl', info, a, b)


def run(ctx, rep):
    import framework
    framework.parallel(_work, ctx, rep, parts=(1 if ctx.tier == 'quick' else ctx.workers))


def replay(ctx, rep, info):
    case, kind = info['case'], info['kind']
    span, labels, absent = make_span(kind, case['n'])
    if 'label' in info:
        print('  ', oracle_solve_period(case, kind, span, labels, info['label'], rep)[0])
        return
    tag, m, ret = sc.run_impl_solve(case, span=span, start=info['start'], end=info['end'])
    oracle(case, kind, span, labels, info['start'], info['end'], rep, tag, m, ret)
    print('  impl :', tag, sc.world_str(m, case['nE']))
