"""C03 — variable classification, ordering and lag/lead lengths match the script."""
import itertools, json, random

import fsic
from fsic import parser as P

import gen_scripts as gs
import parser_common as pc
import solver_common as sc

ID = 'C03'
LEAN_MODULE = 'Proofs.C03'
THEOREMS = ['Fsic.C03.' + n for n in [
    'type_order', 'promote_spec', 'lhs_variable_endogenous', 'classify_spec', 'accepted_no_function_clash',
    'function_clash_rejected', 'stepTerm_function_after_variable', 'stepTerm_variable_after_function',
    'classify_rejects', 'rejection_class', 'accepted_iff', 'rejects_symbolError', 'rejects_parserError',
    'identical_duplicates_accepted', 'combine_error_class', 'symbol_order', 'names_partition', 'lags_leads_spec',
    'explicit_replace', 'min_only_raise', 'default_range_feasible', 'default_range_enumerated',
    'default_range_single', 'default_range_is_solve_range', 'default_range_is_accepted_periods']]
RULE = ('SIZE programs (11 / 25 / 120 names in each of the four classes; up to 250 in the thorough tier; many equations, many terms, long names; the definition text of both templates is executed and its lists compared with the build_model class) and grammar programs (gen_scripts.gen_program, multi-equation, named periods mixed with integer offsets, LHS '
        'offsets) plus AST mutations {duplicate equation, second different equation for one name, name used with two '
        'kinds, variable first read with a lead and later assigned / read with a lag}, rendered under plain and '
        'spacing layouts, crossed with instance histories for the default range (fresh / copy of a used instance / used wider instance reindexed down / reindexed to a longer and to a shifted span / lags and leads changed between calls, over range, list, tuple, NumPy int/str, str-list and PeriodIndex spans, span lengths LAGS+LEADS+{0,1,2,3}) and with lags/leads in {None,0,1,3} x min_lags/min_leads in {default,0,1,3} (full '
        '256-grid on a subset, a 16-row Latin design otherwise) and span lengths around LAGS+LEADS; plus the exhaustive '
        'Symbol.combine lattice over 9x9 types x 5x5 lags x 3x3 equations and hand-written statements with '
        'function/keyword/verbatim terms. distinct = distinct (script text, option set); non-trivial = >= 2 '
        'equations or a repeated name')
TRUSTED = ['terms are taken from the real parse_equation_terms (the regular-expression level is C13/C14)',
           'harness/parser_common.py encodes fsic Symbols/Terms as JSON for the driver']
ASSUMPTIONS = ['term indexes are as parse_terms produces them (int or str for indexed kinds, None for functions/keywords)']

META = {
    "text": "Theorems over ALL term-level scripts (a statement = the (name, Type, index) terms returned by parse_equation_terms plus the opaque equation/code strings; no lexing), all option sets and span lengths: an accepted script's named symbols are the term names, each once, in first-appearance order (Python-dict insertion semantics as an association list), every symbol summarising all occurrences of its name (type = max over the reflected enum, lags/leads = min/max with the implicit 0, one equation); hence endogenous iff some LHS-variable term, parameter iff brace term, error iff angle term, exogenous otherwise; NAMES = endo++exo++params++errors without duplicates, each class a subsequence of the first-appearance list; LAGS = max(0 :: -offsets), LEADS = max(0 :: offsets) (string indexes contribute 0), explicit lags=/leads= replace, min_ only raise; [LAGS, n-1-LEADS] is exactly the set of positions at which every offset stays inside the span, and M1's solve() iterates periodRange over it in increasing order. Acceptance is characterised exactly: accepted iff no kind conflict, no double definition and every equation statement assigns exactly one variable; a kind conflict alone gives SymbolError, a double definition / a function-variable clash inside a statement / a statement without exactly one assigned variable gives ParserError, no other exception class is reachable; in every accepted script no name is both a called function and a variable (the code rejects the clash since fix 3f601b8, so the former guard is now a theorem); repeating an identical equation statement leaves the symbol list unchanged. VARIABLE < EXOGENOUS < ENDOGENOUS is re-proved from the reflected Type table on every run. The model is tied to Symbol.combine / parse_equation_terms / parse_equation / parse_model / build_model_definition by exact comparison on the real intermediate values, and the property is restated over the generator's AST against the real classes and iter_periods().",
    "design_ref": "DESIGN.md §5 M3, §6 C03",
    "note": "Trusted: Lean kernel; axioms propext/Classical.choice/Quot.sound; the correspondence harness, which validates the hand-written model on generated cases only; terms are taken from the real regex scanner (the text level is C13/C14). Theorems carry one guard on what the scanner hands over: indexes shaped as parse_terms makes them (None exactly for functions/keywords).",
    "technique": "Lean 4 proof (per-key decomposition of the two dict folds, a membership-based summary invariant composed over both levels, failing-step analysis for the error classes, omega for the range) + differential correspondence check + AST-level oracle"
}

SPAN_KINDS = ['range', 'list', 'tuple', 'nparray', 'npshift', 'npstr', 'strlist', 'period']
OPT_VALUES = [None, 0, 1, 3]
LAYOUTS = ['plain', 'plain', 'plain', 'tight', 'wide', 'brace_spaces', 'index_spaces', 'explicit_zero', 'plus_sign']


# ---- case generation --------------------------------------------------------------------------------------------

def names_in(prog):
    out = {'var': [], 'param': [], 'error': []}
    for st in pc.equations(prog):
        for t in [st.lhs] + gs.terms_of(st.rhs):
            if t.name not in out[t.kind]:
                out[t.kind].append(t.name)
    return out


def mutate(rng, prog, cfg, how):
    """Returns (program, tag).  All mutations stay inside the grammar of the property's quantifier."""
    eqs = list(prog.statements)
    names = names_in(prog)
    if how == 'dup':
        st = rng.choice(eqs)
        eqs.insert(rng.randint(eqs.index(st) + 1, len(eqs)), st)
    elif how == 'redef':
        st = rng.choice(eqs)
        for _ in range(20):
            new = gs.Equation(gs.Term('var', st.lhs.name, rng.choice([st.lhs.index, None, 0])),
                              gs.gen_expr(rng, cfg, names, rng.randint(0, 2)))
            if pc.canon(new) != pc.canon(st):
                eqs.insert(rng.randint(0, len(eqs)), new)
                break
    elif how == 'kind':
        pool = [(k, n) for k in names for n in names[k]]
        k, n = rng.choice(pool)
        k2 = rng.choice([x for x in ('var', 'param', 'error') if x != k])
        i = rng.randrange(len(eqs))
        extra = gs.Term(k2, n, rng.choice([None, None, -1, 1]))
        eqs[i] = gs.Equation(eqs[i].lhs, gs.Bin(rng.choice(['+', '*']), eqs[i].rhs, extra)
                             if rng.random() < 0.5 else gs.Bin('+', extra, eqs[i].rhs))
    elif how == 'leadlag':
        # a variable read with a lead in a NEW first equation, assigned (or read with a lag) later
        target = rng.choice(eqs).lhs.name
        fresh = next(v for v in gs.VAR_POOL if v not in names['var'])
        k = rng.randint(1, 3)
        eqs.insert(0, gs.Equation(gs.Term('var', fresh, None), gs.Bin('+', gs.Term('var', target, k), gs.Num('1'))))
        j = rng.randrange(1, len(eqs))
        eqs[j] = gs.Equation(eqs[j].lhs, gs.Bin('-', eqs[j].rhs, gs.Term('var', target, -rng.randint(1, 4))))
    elif how == 'named':
        # a variable that ONLY ever appears with a named-period index, next to integer offsets of others
        fresh = next(v for v in gs.VAR_POOL if v not in names['var'])
        lab = rng.choice(cfg.span_labels)
        ix = repr(str(lab)) if isinstance(lab, str) else f'`{lab}`'
        i = rng.randrange(len(eqs))
        eqs[i] = gs.Equation(eqs[i].lhs, gs.Bin('+', eqs[i].rhs, gs.Term('var', fresh, ix)))
    return gs.Program(eqs), how


def gen_case(rng):
    n = rng.choice([3, 4, 6, 8, 12])
    labels = [str(2000 + i) for i in range(n)] if rng.random() < 0.5 else list(range(2000, 2000 + n))
    cfg = gs.GenConfig(allow_named_periods=True, span_labels=labels, lhs_offsets=rng.random() < 0.35,
                       max_equations=rng.choice([2, 3, 4, 5]), max_lag=rng.choice([1, 3, 4]), max_lead=rng.choice([1, 2, 3]))
    prog = gs.gen_program(rng, cfg)
    how = rng.choice(['none'] * 4 + ['dup', 'redef', 'kind', 'kind', 'leadlag', 'leadlag', 'named'])
    prog, tag = mutate(rng, prog, cfg, how)
    if rng.random() < 0.1:  # a second mutation on top (both defects at once, etc.)
        prog, tag2 = mutate(rng, prog, cfg, rng.choice(['dup', 'redef', 'kind']))
        tag += '+' + tag2
    return {'prog': repr(prog), 'layout': rng.choice(LAYOUTS), 'labels': labels, 'tag': tag}


def program_of(case):
    return eval(case['prog'], dict(vars(gs)))  # the generator's own dataclass repr


def latin_options():
    """16 rows covering every (lags, min_lags) pair and every (leads, min_leads) pair."""
    pairs = list(itertools.product(OPT_VALUES, OPT_VALUES))
    return [dict(lags=a, min_lags=b, leads=pairs[(i * 5 + 3) % 16][0], min_leads=pairs[(i * 5 + 3) % 16][1])
            for i, (a, b) in enumerate(pairs)]


def full_options():
    return [dict(lags=a, min_lags=b, leads=c, min_leads=d) for a, b, c, d in itertools.product(OPT_VALUES, repeat=4)]


def kwargs_of(o):
    kw = {'lags': o['lags'], 'leads': o['leads']}
    if o['min_lags'] is not None:
        kw['min_lags'] = o['min_lags']
    if o['min_leads'] is not None:
        kw['min_leads'] = o['min_leads']
    return kw


# ---- the real code ------------------------------------------------------------------------------------------------

ATTRS = ('ENDOGENOUS', 'EXOGENOUS', 'PARAMETERS', 'ERRORS', 'NAMES', 'CHECK', 'LAGS', 'LEADS')


def class_attrs(Model):
    return {a: (list(getattr(Model, a)) if isinstance(getattr(Model, a), (list, tuple)) else getattr(Model, a))
            for a in ATTRS}


def default_periods(Model, labels):
    """Positions of the default solution range of an instance over `labels`."""
    try:
        m = Model(list(labels))
        return {'ok': [int(i) for i, _ in m.iter_periods()]}
    except Exception as e:  # noqa: BLE001
        return {'err': pc.exc_name(e)}


HISTORIES = ['copy', 'reindexed', 'reindex-longer', 'reindex-shifted', 'lags-changed', 'called-twice']


def span_for(kind, n):
    if kind == 'strlist':
        return [str(2000 + i) for i in range(n)]
    if kind == 'period':
        import pandas as pd
        return pd.period_range(start='2000', periods=n, freq='Y')
    return sc.span_of(kind, n)


def history_periods(Model, kind, n, how, names):
    """The default range of an instance with a HISTORY (the property speaks of the model and its span, not of how the
    instance came about).  Returns (observation, target span as a list, (dlags, dleads) added to the instance)."""
    span = span_for(kind, n)
    extra = (0, 0)
    try:
        if how in ('copy', 'reindexed'):
            m = sc.with_provenance(Model, span, how, names)
            target = span
        elif how in ('reindex-longer', 'reindex-shifted'):
            m0 = Model(span)
            sc.warm(m0, names)
            w = sc.wider(span)
            if w is None:
                return None
            w = list(w)
            target = w if how == 'reindex-longer' else w[1:1 + n]      # longer by 3 / same length, moved by one label
            m = m0.copy().reindex(target)
        elif how == 'lags-changed':
            m = Model(span)
            list(m.iter_periods())
            m.lags = m.lags + 1
            m.leads = m.leads + 1
            extra = (1, 1)
            target = span
        else:   # called-twice
            m = Model(span)
            list(m.iter_periods())
            target = span
        pairs = list(m.iter_periods())
        return ({'ok': [int(i) for i, _ in pairs], 'labels': [repr(x) for _, x in pairs]}, [repr(x) for x in list(target)], extra)
    except Exception as e:  # noqa: BLE001
        return ({'err': pc.exc_name(e)}, [repr(x) for x in list(span)], extra)


def oracle_history(case, o, kind, n, how, obs, rep, want_lags, want_leads):
    got, target, (dl, dd) = obs
    info = info_of(case, opts=o, n=n, span_kind=kind, history=how)
    L, D, N = want_lags + dl, want_leads + dd, len(target)
    want = list(range(L, N - D))
    if 'err' in got:
        if want and not (L >= N or D >= N):
            rep.violate('default-range-history', f'{how}: iter_periods() raised {got["err"]}, expected positions {want}', info)
        return
    if got['ok'] != want or got['labels'] != [target[i] for i in want]:
        rep.violate('default-range-history', f'{how} ({kind} span of {N}): default range positions {got["ok"]} labels {got["labels"]}, '
                    f'expected positions {want} labels {[target[i] for i in want]}', info)


# ---- oracle: the property text restated over the generator's AST -------------------------------------------------

def info_of(case, **extra):
    return {k: case[k] for k in ('prog', 'layout', 'tag', 'labels', 'text')} | extra


def oracle_parse(case, prog, real, rep):
    """Acceptance / rejection.  Returns True when the script is (correctly) accepted."""
    exp = gs.expected_classes(prog)
    dd = pc.double_defined(prog)
    info = info_of(case)
    if case.get('may_reject') and 'err' in real:
        # a variable named like a function called in the same statement: the property's grammar does not contain it;
        # rejecting is fine, but IF the script is accepted the classification must hold (checked below)
        return False
    if exp['conflict'] or dd:
        want = set()
        if exp['conflict']:
            want.add('SymbolError')
        if dd:
            want.add('ParserError')
        if 'ok' in real:
            rep.violate('conflict-accepted' if exp['conflict'] else 'double-definition-accepted',
                        f'script must be rejected with {sorted(want)} but was accepted', info)
        elif real['err'] not in want:
            rep.violate('wrong-rejection-class', f'script must be rejected with {sorted(want)}, got {real["err"]}', info)
        return False
    if 'err' in real:
        rep.violate('valid-script-rejected', f'well-formed script rejected with {real["err"]}', info)
        return False
    return True


def oracle_class(case, prog, o, attrs, rep):
    exp = gs.expected_classes(prog)
    info = info_of(case, opts=o)
    for attr, key in (('ENDOGENOUS', 'endogenous'), ('EXOGENOUS', 'exogenous'), ('PARAMETERS', 'parameters'),
                      ('ERRORS', 'errors')):
        if attrs[attr] != exp[key]:
            rep.violate('class-' + key, f'{attr} = {attrs[attr]} but the script says {exp[key]} (first-appearance order)', info)
    want_names = exp['endogenous'] + exp['exogenous'] + exp['parameters'] + exp['errors']
    if attrs['NAMES'] != want_names:
        rep.violate('names-partition', f'NAMES = {attrs["NAMES"]}, expected {want_names}', info)
    if len(set(attrs['NAMES'])) != len(attrs['NAMES']):
        rep.violate('names-duplicate', f'NAMES has a duplicate: {attrs["NAMES"]}', info)
    want_lags = o['lags'] if o['lags'] is not None else max(exp['lags'], o['min_lags'] or 0)
    want_leads = o['leads'] if o['leads'] is not None else max(exp['leads'], o['min_leads'] or 0)
    if attrs['LAGS'] != want_lags or type(attrs['LAGS']) is not int:
        rep.violate('lags' + ('-explicit' if o['lags'] is not None else '-min' if (o['min_lags'] or 0) > exp['lags'] else ''),
                    f'LAGS = {attrs["LAGS"]!r}, expected {want_lags} (deepest lag {exp["lags"]}, lags={o["lags"]}, min_lags={o["min_lags"]})', info)
    if attrs['LEADS'] != want_leads or type(attrs['LEADS']) is not int:
        rep.violate('leads' + ('-explicit' if o['leads'] is not None else '-min' if (o['min_leads'] or 0) > exp['leads'] else ''),
                    f'LEADS = {attrs["LEADS"]!r}, expected {want_leads} (furthest lead {exp["leads"]}, leads={o["leads"]}, min_leads={o["min_leads"]})', info)
    return want_lags, want_leads


def oracle_range(case, prog, o, n, got, want_lags, want_leads, rep):
    """Default range = periods at which every equation reads inside the span (for derived LAGS/LEADS);
    = [LAGS, n-1-LEADS] in every case."""
    info = info_of(case, opts=o, n=n)
    offs = pc.all_offsets(prog)
    derived = o['lags'] is None and o['leads'] is None and not o['min_lags'] and not o['min_leads']
    if derived:
        want = [t for t in range(n) if all(0 <= t + k < n for k in offs)]
    else:
        want = list(range(want_lags, n - want_leads))
    if 'err' in got:
        # an empty feasible set reported as IndexError (span[lags] outside the span): the property says nothing
        # about how an empty range is reported — weaker reading, not counted
        if want and not (want_lags >= n or want_leads >= n):
            rep.violate('default-range', f'iter_periods() raised {got["err"]}, expected positions {want}', info)
        return
    if got['ok'] != want:
        rep.violate('default-range', f'default range {got["ok"]} != {"feasible set" if derived else "[LAGS, n-1-LEADS]"} {want}', info)


# ---- one program: real code, oracle, model --------------------------------------------------------------------

def run_program(ctx, rep, case, options, batch):
    prog = program_of(case)
    layout = gs.catalogue_layout(case['layout'])
    text = gs.render(prog, layout)
    case['text'] = text
    real = pc.impl(pc.parse_model, text)
    real_j = {'ok': pc.syms_json(real['ok'])} if 'ok' in real else real
    rep.dist['mutation:' + case['tag']] += 1
    rep.dist['parse:' + ('accepted' if 'ok' in real else real['err'])] += 1
    accepted = oracle_parse(case, prog, real, rep)

    # T: statement level and model level
    if not ctx.oracle_only:
        try:
            stmts = P.split_equations(text)
        except Exception:  # noqa: BLE001  (text level: not this check's business)
            stmts = None
        if stmts is not None:
            scs = [pc.statement_case(st) for st in stmts]
            for sc in scs:
                if sc['terms'] is not None:
                    batch.append(('parse_equation: symbolsOfTerms(real terms) != real symbols',
                                  {'statement': sc['statement']},
                                  pc.line('p_symbols_of_terms', {'terms': sc['terms'], 'equation': sc['equation'], 'code': sc['code']}),
                                  sc['impl']))
            if all('ok' in sc['impl'] for sc in scs):
                batch.append(('parse_model: mergeModel(real per-statement symbols) != real symbol list', {'text': text},
                              pc.line('p_merge', {'groups': [sc['impl']['ok'] for sc in scs]}), real_j))
            if pc.payload_ok(scs):
                batch.append(('parse_model: parseModel(real terms) != real symbol list', {'text': text},
                              pc.line('p_parse_model', {'stmts': [pc.stmt_payload(sc) for sc in scs]}), real_j))

    neq = len(pc.equations(prog))
    if 'ok' not in real:
        rep.case((text,), nontrivial=True, sample={'text': text, 'result': real['err']} if rep.evaluations % 211 == 0 else None)
        return
    symbols = real['ok']
    for oi, o in enumerate(options):
        built = pc.impl(fsic.build_model, symbols, **kwargs_of(o))
        if 'err' in built:
            if accepted:
                rep.violate('build-failed', f'build_model raised {built["err"]}',
                            info_of(case, opts=o))
            continue
        Model = built['ok']
        attrs = class_attrs(Model)
        rep.case((text, json.dumps(o, sort_keys=True)), nontrivial=neq >= 2,
                 sample={'text': text, 'opts': o, 'attrs': attrs} if rep.evaluations % 1999 == 0 else None)
        if accepted:
            wl, wd = oracle_class(case, prog, o, attrs, rep)
            sizes = sorted({len(case['labels']), max(1, wl + wd), wl + wd + 1, wl + wd + 2})
            for n in sizes:
                labels = [str(2000 + i) for i in range(n)] if isinstance(case['labels'][0], str) else list(range(2000, 2000 + n))
                got = default_periods(Model, labels)
                oracle_range(case, prog, o, n, got, wl, wd, rep)
                rep.dist['range:' + ('empty' if not got.get('ok') else 'one-period' if len(got['ok']) == 1 else 'nonempty')] += 1
            # executing the definition text (both templates) gives the lists the build_model class carries
            if oi % 10 == 0:
                import typing
                for typed in (True, False):
                    try:
                        ns = {'BaseModel': fsic.BaseModel, 'np': __import__('numpy')}
                        if typed:
                            ns.update(List=typing.List, Optional=typing.Optional, Any=typing.Any)
                        exec(P.build_model_definition(symbols, with_type_hints=typed, **kwargs_of(o)), ns)
                        eattrs = class_attrs(ns['Model'])
                    except Exception as e:  # noqa: BLE001
                        eattrs = {'err': pc.exc_name(e)}
                    if eattrs != attrs:
                        bad = [k for k in attrs if eattrs.get(k) != attrs[k]]
                        rep.violate('definition-exec-lists', f'exec(build_model_definition(with_type_hints={typed})) differs from the '
                                    f'build_model class in {bad}: {[(k, eattrs.get(k)) for k in bad][:2]!s:.300}', info_of(case, opts=o))
            # the same settings as NumPy integer scalars (forms HEAD accepts; bool/float are left out: HEAD itself writes
            # `LAGS = True` / `2.0` for them): same lists, LAGS/LEADS plain ints of the same value
            if oi % 5 == 0 and any(v is not None for v in o.values()):
                import numpy as np
                frng = random.Random(f"form:{case['prog']}:{oi}")
                fname, conv = frng.choice([('np.int64', np.int64), ('np.int32', np.int32), ('np.intp', np.intp), ('np.uint8', np.uint8),
                                           ('arange-element', lambda v: np.arange(v + 1)[v])])
                fkw = {k: (conv(v) if isinstance(v, int) else v) for k, v in kwargs_of(o).items()}
                fb = pc.impl(fsic.build_model, symbols, **fkw)
                rep.dist['int-form:' + fname] += 1
                fattrs = class_attrs(fb['ok']) if 'ok' in fb else fb
                if fattrs != attrs or ('ok' in fb and (type(fb['ok'].LAGS) is not int or type(fb['ok'].LEADS) is not int)):
                    rep.violate('int-form', f'lags/leads/min_* given as {fname}: class attributes {fattrs} '
                                f'(LAGS {type(fb["ok"].LAGS).__name__ if "ok" in fb else "-"}) differ from those for the equal Python ints {attrs}',
                                info_of(case, opts=o, int_form=fname))
            # instances with a history, every span type (a sample of option sets per program: the first and every 5th)
            if oi % 5 == 0:
                hrng = random.Random(f"{case['prog']}:{oi}")
                for how in HISTORIES:
                    kind = hrng.choice(SPAN_KINDS)
                    n = hrng.choice(sizes[1:] + [wl + wd + 3])
                    obs = history_periods(Model, kind, n, how, attrs['NAMES'][:2])
                    if obs is not None:
                        oracle_history(case, o, kind, n, how, obs, rep, wl, wd)
                        rep.dist['history:' + how] += 1
                        rep.dist['span-kind:' + kind] += 1
        if not ctx.oracle_only:
            batch.append(('build_model_definition: buildLists(real symbols) != class attributes', {'text': text, 'opts': o},
                          pc.line('p_build_lists', {'symbols': real_j['ok'], 'lags': o['lags'], 'leads': o['leads'],
                                                    'min_lags': o['min_lags'], 'min_leads': o['min_leads']}),
                          {'ok': attrs}))


def flush(ctx, rep, batch):
    if ctx.oracle_only or not batch:
        batch.clear()
        return
    outs = ctx.drive([b[2] for b in batch])
    for (what, case, _, want), got in zip(batch, outs):
        g = json.loads(got) if not got.startswith('!') else got
        if g != want:
            rep.disagree(what, case, g, want)
    batch.clear()


# ---- direct correspondence of Symbol.combine, parse_equation_terms and hand-written statements ---------------

def combine_lattice():
    lags = [None, -2, 0, 1, "'a'"]
    eqs = [None, 'e1', 'e2']
    for ta, tb in itertools.product(P.Type, repeat=2):
        for la, lb in itertools.product(lags, repeat=2):
            for ea, eb in itertools.product(eqs, repeat=2):
                a = P.Symbol('N', ta, la, lb, ea, None if ea is None else 'c' + ea)
                b = P.Symbol('N', tb, lb, la, eb, None if eb is None else 'c' + (eb if (la, lb) != (0, 0) else 'x'))
                yield a, b
    yield P.Symbol('A', P.Type.EXOGENOUS, 0, 0, None, None), P.Symbol('B', P.Type.EXOGENOUS, 0, 0, None, None)
    yield P.Symbol(None, P.Type.VERBATIM, None, None, 'e', 'c'), P.Symbol(None, P.Type.VERBATIM, None, None, 'e', 'c')


HAND_STATEMENTS = [
    "Y = log + log(X)", "Y = log(X) + log", "log = log(X)", "Y = log(X) + log(Z[-1])", "Y = np.log(X) + np.log(X)",
    "Y = X if X > 0 else Z[-1]", "Y = X if X else X if Z else X", "if[0] = X", "Y = `foo` + X[1]", "Y = `foo`",
    "{a} = X", "<e> = X + {a}", "Y = {a} + <a>", "Y = a + {a}", "Y = <a> * a[-1]", "Y = X['a'] + X[`2`] + X[-1] + X[2]",
    "Y = X['a']", "Y = X[-3] + X['a']", "Y = X['a'] + X[-3]", "Y[1] = Y[-1] + Y", "Y = Y", "Y = max(X, Z) + min(X[1], max(Z))",
    "Y = f(X) + f + f(Z)", "Y = f + f(X) + f", "Y = 1", "Y = X + X + X[-1] + X[1] + {p}[-2] + <e>[3]",
]
HAND_SCRIPTS = [
    "Y = log + log(X)", "1 = X\nY = X", "Y = X\n{a} = X", "Y = X\n<e> = Y", "`a` = X", "Y = log(X)\nZ = log + Y",
    "Y = log(X)\nZ = log", "Y = X\nY = X", "Y = X\nY = Z", "Y = {a}\nZ = a", "Y = X[1]\nX = Y[-2]",
    "Z = Y[2]\nY = Z[-1]\nW = Y + Z", "```\nfoo = 1\n```\nY = X", "```\nfoo = 1\n```", "", "Y = X\n```\nbar()\n```\nZ = Y[-1]\n```\nbaz()\n```",
    "Y = log(X)\nZ = log(Y)", "Y = X if X else Z\nZ = Y if X else W", "Y = <e>\nZ = {e}", "Y = X\nZ = Y\nY = X",
]


def direct_correspondence(ctx, rep):
    if ctx.oracle_only:
        return
    batch = []
    for a, b in combine_lattice():
        r = pc.impl(a.combine, b)
        batch.append(('Symbol.combine: model != impl', {'a': repr(a), 'b': repr(b)},
                      pc.line('p_combine', {'a': pc.sym_json(a), 'b': pc.sym_json(b)}),
                      {'ok': pc.sym_json(r['ok'])} if 'ok' in r else r))
        rep.dist['combine:' + ('ok' if 'ok' in r else r['err'])] += 1
    for st in HAND_STATEMENTS + no_variable_statements(ctx.sub_rng('novar')):
        sc = pc.statement_case(st)
        rep.dist['statement:' + ('ok' if 'ok' in sc['impl'] else sc['impl']['err'])] += 1
        if sc['terms'] is not None:
            batch.append(('parse_equation: symbolsOfTerms(real terms) != real symbols', {'statement': st},
                          pc.line('p_symbols_of_terms', {'terms': sc['terms'], 'equation': sc['equation'], 'code': sc['code']}),
                          sc['impl']))
        left, right = st.split('=', maxsplit=1)
        lt, rt = pc.impl(P.parse_terms, left), pc.impl(P.parse_terms, right)
        if 'ok' in lt and 'ok' in rt:
            r = pc.impl(P.parse_equation_terms, st)
            batch.append(('parse_equation_terms: equationTerms(parse_terms(lhs), parse_terms(rhs)) != impl', {'statement': st},
                          pc.line('p_eq_terms', {'lhs': [pc.term_json(t) for t in lt['ok']], 'rhs': [pc.term_json(t) for t in rt['ok']]}),
                          {'ok': [pc.term_json(t) for t in r['ok']]} if 'ok' in r else r))
        # the statement inside a small script: parse_model must agree as well
        text = 'W = X[-1]\n' + st + '\nV = W'
        try:
            scs = [pc.statement_case(x) for x in P.split_equations(text)]
        except Exception:  # noqa: BLE001  (text level)
            scs = None
        if scs is not None and pc.payload_ok(scs):
            real = pc.impl(pc.parse_model, text)
            batch.append(('parse_model: parseModel(real terms) != real symbol list', {'text': text},
                          pc.line('p_parse_model', {'stmts': [pc.stmt_payload(x) for x in scs]}),
                          {'ok': pc.syms_json(real['ok'])} if 'ok' in real else real))
    for st in ["Y = X + if[0]", "if = X", "Y = X if Z else W", "not = X", "Y = lambda[1]"]:
        left, right = st.split('=', maxsplit=1)
        lt, rt = pc.impl(P.parse_terms, left), pc.impl(P.parse_terms, right)
        if 'ok' in lt and 'ok' in rt:
            r = pc.impl(P.parse_equation_terms, st)
            batch.append(('parse_equation_terms: equationTerms(parse_terms(lhs), parse_terms(rhs)) != impl', {'statement': st},
                          pc.line('p_eq_terms', {'lhs': [pc.term_json(t) for t in lt['ok']], 'rhs': [pc.term_json(t) for t in rt['ok']]}),
                          {'ok': [pc.term_json(t) for t in r['ok']]} if 'ok' in r else r))
    for text in HAND_SCRIPTS:
        real = pc.impl(pc.parse_model, text)
        real_j = {'ok': pc.syms_json(real['ok'])} if 'ok' in real else real
        scs = [pc.statement_case(st) for st in P.split_equations(text)]
        if pc.payload_ok(scs):
            batch.append(('parse_model: parseModel(real terms) != real symbol list', {'text': text},
                          pc.line('p_parse_model', {'stmts': [pc.stmt_payload(sc) for sc in scs]}), real_j))
        if 'ok' in real:
            for o in latin_options()[::3]:
                built = pc.impl(fsic.build_model, real['ok'], **kwargs_of(o))
                if 'ok' in built:
                    batch.append(('build_model_definition: buildLists(real symbols) != class attributes', {'text': text, 'opts': o},
                                  pc.line('p_build_lists', {'symbols': real_j['ok'], 'lags': o['lags'], 'leads': o['leads'],
                                                            'min_lags': o['min_lags'], 'min_leads': o['min_leads']}),
                                  {'ok': class_attrs(built['ok'])}))
    # hand-built symbol lists that no script produces (str / None lags reach abs(min(...)): TypeError)
    S, T = P.Symbol, P.Type
    for syms in ([S('X', T.EXOGENOUS, "'a'", "'a'", None, None)],
                 [S('X', T.EXOGENOUS, -1, 1, None, None), S('Z', T.EXOGENOUS, "'a'", 0, None, None)],
                 [S('X', T.EXOGENOUS, None, None, None, None)],
                 [S('X', T.EXOGENOUS, 2, -3, None, None), S('f', T.FUNCTION, None, None, None, None)],
                 [S('X', T.INVALID, -2, 0, None, None), S('k', T.KEYWORD, None, None, None, None)],
                 [S('X', T.VARIABLE, -2, 4, None, None)]):
        for o in (dict(lags=None, leads=None, min_lags=None, min_leads=None), dict(lags=2, leads=None, min_lags=1, min_leads=5),
                  dict(lags=None, leads=0, min_lags=3, min_leads=None), dict(lags=1, leads=1, min_lags=None, min_leads=None)):
            built = pc.impl(fsic.build_model, syms, **kwargs_of(o))
            batch.append(('build_model_definition: buildLists(hand-built symbols) != class attributes', {'symbols': repr(syms), 'opts': o},
                          pc.line('p_build_lists', {'symbols': pc.syms_json(syms), 'lags': o['lags'], 'leads': o['leads'],
                                                    'min_lags': o['min_lags'], 'min_leads': o['min_leads']}),
                          {'ok': class_attrs(built['ok'])} if 'ok' in built else built))
    rep.case(n=len(batch), nontrivial=False)
    flush(ctx, rep, batch)


def clash_cases(rng):
    """Programs in which a variable shares its name with a function called in the same statement (both orders)."""
    out = []
    for f in gs.REPLACED + ['abs']:
        for order in (0, 1):
            var = gs.Term('var', f, rng.choice([None, -1, 2]))
            call = gs.Call(f, (gs.Term('var', 'X', None), gs.Num('2')) if f in ('max', 'min') else (gs.Term('var', 'X', -1),))
            rhs = gs.Bin('+', var, call) if order == 0 else gs.Bin('*', call, var)
            prog = gs.Program([gs.Equation(gs.Term('var', 'Y', None), rhs),
                               gs.Equation(gs.Term('var', 'Z', None), gs.Term('var', 'Y', -1))])
            out.append({'prog': repr(prog), 'layout': 'plain', 'labels': list(range(2000, 2006)), 'tag': f'fclash{order}',
                        'may_reject': True})
    return out


def size_cases(rng, sizes):
    """SIZE as a dimension: N names in EACH of the four classes, many equations, many terms per equation, long names."""
    out = []
    for N in sizes:
        long_ = N % 2 == 1
        nm = (lambda k, i: f'{k}_long_descriptive_name_number_{i}') if long_ else (lambda k, i: f'{k}{i}')
        eqs = []
        for i in range(N):
            terms = [gs.Term('var', nm('x', i), rng.choice([None, -1, 1])), gs.Term('param', nm('p', i), None),
                     gs.Term('error', nm('e', i), None), gs.Term('var', nm('y', (i + 1) % N), -rng.randint(1, 3)),
                     gs.Term('var', nm('x', (i * 7) % N), rng.choice([None, 2])), gs.Term('param', nm('p', (i * 3 + 1) % N), None)]
            if i % 5 == 0:
                terms += [gs.Term('var', nm('y', (i * 11 + 2) % N), None), gs.Term('error', nm('e', (i + 4) % N), None),
                          gs.Term('var', nm('x', (i + 9) % N), -2)] * 2
            rhs = terms[0]
            for j, t in enumerate(terms[1:]):
                rhs = gs.Bin('*' if j == 0 else rng.choice(['+', '-', '+']), rhs, t)
            eqs.append(gs.Equation(gs.Term('var', nm('y', i), None), rhs))
        rng.shuffle(eqs)
        out.append({'prog': repr(gs.Program(eqs)), 'layout': rng.choice(['plain', 'tight', 'wide']),
                    'labels': list(range(2000, 2012)), 'tag': f'size{N}'})
    return out


def no_variable_statements(rng):
    """Statements whose left-hand side is not one plain variable (fix d65c5fa: ParserError) and function/variable
    clashes in both orders (fix 3f601b8) — compared exactly, error class included."""
    rhs = ['X', 'X + {b}', 'log(X) * Z[-1]', 'max(X, W[1]) + <u>', 'X if X > 0 else Z', '2']
    lhs = ['1', '{a}', '<e>', '`a`', '{a}[1]', '<e>[-1]', 'f(X)', 'True', '0.5', '-Y', 'Y + Z', 'Y, Z']
    out = [f'{l} = {r}' for l in lhs for r in rhs]
    for f in ['log', 'exp', 'max', 'f', 'np.sqrt']:
        v = f.split('.')[-1]
        out += [f'Y = {v} + {f}(X)', f'Y = {f}(X) + {v}', f'Y = {v}[-1] * {f}(X) + {v}[2]', f'Y = {f}(X) + {f}(Z) - {v}',
                f'{v} = {f}(X)', f'Y = {{{v}}} + {f}(X)', f'Y = {f}(X) / <{v}>', f'Y = {f}(X) + {f}(Z)']
    return out


def run(ctx, rep):
    quick = ctx.tier == 'quick'
    n_full = (24 if quick else 300) * ctx.scale
    n_latin = (700 if quick else 12000) * ctx.scale
    direct_correspondence(ctx, rep)
    batch = []
    for case in size_cases(ctx.sub_rng('size'), [11, 25, 120] if quick else [10, 11, 20, 21, 25, 31, 60, 120, 250]):
        case['seed'], case['index'] = ctx.seed, -2
        run_program(ctx, rep, case, latin_options()[::5], batch)
    for case in clash_cases(ctx.sub_rng('clash')):
        case['seed'], case['index'] = ctx.seed, -1
        run_program(ctx, rep, case, latin_options()[::4], batch)
    full, latin = full_options(), latin_options()
    for i in range(n_full + n_latin):
        rng = ctx.sub_rng('prog', i)
        case = gen_case(rng)
        case['seed'], case['index'] = ctx.seed, i
        run_program(ctx, rep, case, full if i < n_full else latin, batch)
        if len(batch) > 20000:
            flush(ctx, rep, batch)
    flush(ctx, rep, batch)
    rep.notes.append(f'{n_full} programs x 256 option sets, {n_latin} programs x 16 (Latin design); combine lattice '
                     f'{sum(v for k, v in rep.dist.items() if k.startswith("combine:"))} pairs')
    rep.notes.append('weaker readings: an empty default range may be reported as IndexError; a script with both a kind '
                     'conflict and a double definition may raise either error')


def replay(ctx, rep, case):
    if 'prog' not in case:
        print('  (correspondence-only case; nothing to replay against the property)')
        return
    c = {k: case[k] for k in ('prog', 'layout', 'tag')}
    c['labels'] = case.get('labels') or [str(2000 + i) for i in range(6)]
    import copy
    ctx = copy.copy(ctx)   # the framework replays the corpus with the run's own ctx: do not switch T off for the run
    ctx.oracle_only = True
    opts = [case['opts']] if 'opts' in case else latin_options()
    run_program(ctx, rep, c, opts, [])
    print('  text  :', json.dumps(c['text']))
    r = pc.impl(pc.parse_model, c['text'])
    print('  result:', [(s.name, P.Type(s.type).name, s.lags, s.leads) for s in r['ok']] if 'ok' in r else r['err'])


def search(ctx, rep, disagreements):
    """Extended failing-input search after a broken proof obligation / correspondence: the same oracle, twice the budget
    (the quick budget already covers every mutation class; 4x would exceed the time limit together with the rebuild)."""
    ctx.scale = 2
    run(ctx, rep)
