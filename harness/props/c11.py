"""C11 — copies and sibling instances share no mutable state."""
import contextlib, copy, json, warnings

import numpy as np

import fsic
import heap_common as hc
from fsic.core.containers import VectorContainer
from fsic.core.interfaces import ModelInterface
from fsic.core.linkers import BaseLinker
from fsic.core.models import BaseModel
from fsic.extensions import AliasMixin, TracerMixin

ID = 'C11'
LEAN_MODULE = 'Proofs.C11'
THEOREMS = ['Fsic.C11.' + n for n in [
    'copy_fresh', 'copy_observationally_equal', 'copy_same_class', 'disjoint_frame', 'disjoint_frame_ops',
    'copy_independent', 'siblings_disjoint', 'instance_class_disjoint', 'sibling_history_invisible',
    'class_invisible_to_instance_history', 'ops_local', 'trace_t_local', 'interleaved_disjoint',
    'interleaved_independent', 'interleaved_independent_ops', 'copy_resync_independent',
    'assignFrom_inplace_copies_values', 'failed_copy_is_identity', 'deepcopy_uncopyable', 'worldOK_after_copy',
    'successive_copies_disjoint', 'fresh_check_is_not_endogenous', 'copy_entry_aliasing_preserved',
    'copy_entries_separate_linker', 'copy_succeeds', 'ranked_acyclic']]
RULE = ('programs over real fsic objects: a class (VectorContainer; parser-built / hand-written / default-inheriting '
        'BaseModel subclasses; BaseLinker subclasses with two nested submodels; with and without AliasMixin / '
        'TracerMixin, TRACE_VARIABLES None or a class-level list), two sibling instances over range / list spans, a '
        'random history of mutating operations (element writes, rebinding, add_variable, add_attribute, strict / lags, '
        'appends and pops on check/endogenous/_attributes/preferred_names/user lists, aliases dict, add_attribute with '
        'NESTED values (list, dict, nested list, tuple of lists, namedtuple holding a dict, tuple of ndarrays, dict of '
        'lists) and in-place edits of their inner lists / dicts / arrays, linkers built with DEFAULT arguments '
        '(`Linker()`, submodels stored by the caller afterwards), reads through names (failed look-ups included) and '
        'run-time edits of the INSTANCE aliases dict (re-point / add / remove), COPIES THAT RAISE (an attribute deepcopy '
        'cannot copy — generator, dict.keys() view, lock — directly / inside a list / inside a tuple / in a submodel: '
        'every route must raise and leave no trace, then the attribute is replaced and copying goes on), variables named like class members '
        '(size, copy, eval, nbytes, LAGS, CODE, …) and underscore twins (`Y` and `_Y`), '
        'trace_t, class-level list mutations, the same through submodels, and RE-SYNCHRONISATION: a whole variable '
        'assigned from ANOTHER object of the class (copy / sibling / submodel) as attribute, string key, replace_values, '
        '`values`, view, astype, list, tolist) with copies by all three routes at random '
        'points. T: sharing graph (paths grouped by object identity, views of one buffer = one object) and list '
        'contents of real objects == model, after every copy and at the end. S: twin runs — every mutable object '
        'reachable from one side is mutated generically (list append, dict insert, array element write, attribute '
        'rebinding) plus API-level mutations (values, add_variable, add_attribute, lags, solve, trace), each followed by '
        'a comparison of the full observable state of the other side; observational equality of a copy is also checked '
        'as BEHAVIOUR (the same answers to every read through every name / alias / undefined name, and the same state '
        'after the same writes through every name, `values` / `size` / `nbytes` incl. dtype), the INTERNAL sharing '
        'structure of original and copy must be the same (partition of paths by object identity), and the same '
        'in-place mutation of every mutable object by path on BOTH sides (list append / delete, dict set / delete, '
        'array cell write) followed by the same solve must leave equal states; instances are constructed with every '
        'dtype (float, int, bool, float32, str) and get variables of other dtypes, cells 2**53+1; plainly and after '
        'names were used and the instance aliases then edited; the same twin runs again AFTER re-synchronising the two sides '
        '(every variable assigned as a whole from the other side, either direction, 9 spellings; then element / '
        'period / slice assignment, solve, solve_t, generic array writes); pairs = (original, copy) for each route, '
        '(instance, sibling), (instance, class), both directions; plus sibling pairs / instance-vs-class for EVERY '
        'combination of given / omitted constructor arguments (containers, models, linkers with submodels omitted / '
        'None / {} / dict; exhaustive in the thorough tier, sampled in quick). distinct = distinct (class spec, program); '
        'non-trivial = program with at least one copy and one structural mutation')
TRUSTED = ['CPython object identity (id) and NumPy buffer ownership (ndarray.base) as the notion of "same object"',
           'pandas index objects and NumPy scalars/dtypes are treated as immutable values',
           "copy.deepcopy's memo semantics are modelled (FsicModel/Heap.lean deepcopy), validated only by T"]
ASSUMPTIONS = ['constructor arguments (span list, submodels dict) are owned by the caller: siblings are built with '
               'separate span objects (weaker reading)',
               'observational equality of a copy = equality of the full observable state up to object identity '
               '(bisimilarity); intra-object aliasing is not required to be preserved by copy() (weaker reading): '
               'each __dict__ entry is deep-copied with its own memo (two entries holding the same list get separate '
               'copies)',
               'class-level NAMES is not mutated between the creation of an instance and its copy (copy() re-runs '
               '__init__ and would add the new variable to the copy only); theorem hypothesis WorldOK2.ctor',
               'heap is acyclic (copyRoot returns none otherwise)']

META = {
    "text": "Theorems over a reference/heap model of the constructors and of copy()/copy.copy/copy.deepcopy (one function): a copy shares no mutable object with its original and leaves the old heap untouched (copy_fresh), is bisimilar to it and of the same class (copy_observationally_equal, copy_same_class); for roots with disjoint mutable reach every history of in-place mutations through one leaves every observation, the reach and the sharing graph of the other unchanged (disjoint_frame, by induction over the history; copy_independent in both directions); disjointness is an invariant of every INTERLEAVED history of the two sides including whole-variable assignment from the other side, which stores element values, never the passed array (interleaved_disjoint, interleaved_independent_ops, copy_resync_independent). Two sibling instances, and an instance and its class, share no mutable object (siblings_disjoint, instance_class_disjoint: the constructors store copies of the class-level lists), so any history through one is invisible through the other; trace_t is a local step for every source of the trace names (trace_t_local, ops_local). The model is tied to the code by comparing the sharing graph of real objects after random histories and all three copy routes.",
    "design_ref": "DESIGN.md §5 M7, §6 C11, §7 row 7",
    "note": "Trusted: Lean kernel; standard axioms; the harness' extraction of the sharing graph from real objects (id(), ndarray.base); the model of copy.deepcopy's memo. Theorem hypotheses (no dangling references, class-level lists hold only immutable entries, __dict__ keys unique and containing the constructor's keys) are evaluated by the driver on every correspondence program. Fixed findings (b2c7af0, cba9d09): instance endogenous/check were the class-level lists; Trace.names was the class-level TRACE_VARIABLES list — the oracle keys remain, a regression is a violation.",
    "technique": "Lean 4 proof (heap invariants, induction on deepcopy fuel and on histories, bisimulation) + differential correspondence check on sharing graphs + twin-run oracle"
}

STYLES = ['parser', 'parser', 'explicit', 'inherit']


# ---- classes from specs ------------------------------------------------------------------------------------------------

def build_class(spec, name):
    import random
    rng = random.Random(spec.get('script', 0))
    if spec['kind'] == 'linker':
        return hc.make_linker_class(rng, spec['style'], alias=spec.get('alias', False), name=name)
    scripts = hc.SCRIPTS

    class _R:
        def choice(self, xs):
            return scripts[spec.get('script', 0) % len(scripts)]
    return hc.make_model_class(_R(), spec['style'], alias=spec.get('alias', False), tracer=spec.get('tracer', False),
                               trace_vars=spec.get('trace_vars'), aliases=spec.get('aliases'),
                               preferred=spec.get('preferred'), name=name)


GLOBAL_LISTS = [(BaseModel, k) for k in hc.CLASS_ATTRS] + [(BaseLinker, k) for k in hc.CLASS_ATTRS] + \
    [(AliasMixin, 'ALIASES'), (AliasMixin, 'PREFERRED_NAMES'), (ModelInterface, 'NAMES')]


@contextlib.contextmanager
def pristine_globals():
    """The known finding lets a check mutate BaseModel.ENDOGENOUS etc. for the whole process: put them back."""
    saved = []
    for cls, k in GLOBAL_LISTS:
        v = cls.__dict__.get(k, None)
        if isinstance(v, (list, dict)):
            saved.append((v, copy.deepcopy(v)))
    try:
        yield
    finally:
        for v, old in saved:
            if isinstance(v, list):
                v[:] = old
            else:
                v.clear()
                v.update(old)


# ---- program generation -------------------------------------------------------------------------------------------------

def gen_case(rng):
    kind = rng.choice(['container', 'model', 'model', 'model', 'linker'])
    classes = {}
    if kind == 'container':
        classes['V'] = {'kind': 'container', 'style': 'container', 'alias': rng.random() < 0.4,
                        'aliases': {'AA': 'A0'}, 'preferred': ['AA']}
        main = 'V'
    else:
        tracer = rng.random() < 0.5
        tv = None
        mspec = {'kind': 'model', 'style': rng.choice(STYLES), 'script': rng.randrange(len(hc.SCRIPTS)),
                 'alias': rng.random() < 0.4, 'tracer': tracer}
        classes['M'] = mspec
        main = 'M'
    prog = []
    nested = set()   # roots that are submodels of another root: mutated through, but not snapshot roots of their own
    sh = {}       # shadow bookkeeping per root
    counter = [0]

    def fresh_name(prefix):
        counter[0] += 1
        return f'{prefix}{counter[0]}'

    def names_of(spec):
        cls = build_class(spec, 'tmp')
        return list(getattr(cls, 'NAMES', []))

    n = rng.choice([2, 3, 4])

    def new_span():
        return {'range': n} if rng.random() < 0.5 else {'list': [f'p{i}' for i in range(n)]}

    if kind != 'container':
        base_names = names_of(classes['M'])
        if classes['M']['tracer']:
            style = rng.choice(['own', 'own', 'class', 'user'])
            if style == 'class':
                classes['M']['trace_vars'] = base_names[:rng.choice([1, 2])]
            classes['M']['trace_style'] = style
        if classes['M']['alias']:
            classes['M']['aliases'] = {'AL1': base_names[0], 'AL2': base_names[-1]}
            classes['M']['preferred'] = ['AL1']
    else:
        base_names = []

    dtype = rng.choice(hc.DTYPE_POOL)   # the dtype the instances of this program are constructed with

    def new_inst(r, cname):
        sp = new_span()
        prog.append({'c': 'new', 'r': r, 'cls': cname, 'span': sp, 'dtype': dtype})
        spec = classes[cname]
        sh[r] = {'cls': cname, 'kind': spec['kind'], 'vars': list(base_names) if spec['kind'] == 'model' else [],
                 'lists': [],
                 'traced': {}, 'span_list': 'list' in sp,
                 'attrs': 0}
        s = sh[r]
        s['lists'] += [['_attributes']]
        if spec['kind'] != 'container':
            s['lists'] += [['check'], ['endogenous']]
        if spec.get('alias'):
            s['lists'].append(['preferred_names'])
            s['akeys'] = list(spec.get('aliases') or {})
        s['vdtype'] = {v: dtype for v in s['vars']}
        s['dtype0'] = dtype

    new_inst('a', main)
    new_inst('b', main)
    roots = ['a', 'b']
    if kind == 'linker':
        classes['L'] = {'kind': 'linker', 'style': rng.choice(['explicit', 'inherit']), 'alias': rng.random() < 0.3}
        # both submodels share one span *value* (the linker requires equal spans): use ranges
        for cmd in prog:
            cmd['span'] = {'range': n}
        for r in roots:
            sh[r]['span_list'] = False
            sh[r]['lists'] = [l for l in sh[r]['lists'] if l != ['span']]
        llists = [['_attributes'], ['check'], ['endogenous']] + ([['preferred_names']] if classes['L']['alias'] else [])
        if rng.random() < 0.4:
            # linkers built with DEFAULT arguments (`Linker()`): each gets its own new `submodels` dict and `span` list;
            # the caller then stores the submodels itself
            for r in ('l', 'l2'):
                prog.append({'c': 'new', 'r': r, 'cls': 'L', 'span': {'list': []}})
                sh[r] = {'cls': 'L', 'kind': 'linker', 'vars': [], 'lists': [list(x) for x in llists], 'traced': {},
                         'span_list': False, 'attrs': 0, 'subs': {}, 'n': 0}
            prog.append({'c': 'snap', 'roots': ['l', 'l2', 'a', 'b'] + sorted(classes)})
            prog.append({'c': 'subadd', 'r': 'l', 'key': 'A', 'of': 'a'})
            prog.append({'c': 'subadd', 'r': 'l', 'key': 'B', 'of': 'b'})
            sh['l']['subs'] = {'A': 'a', 'B': 'b'}
            roots += ['l', 'l2']
            classes['L']['default_args'] = True
        else:
            prog.append({'c': 'dict', 'r': 'd', 'entries': [['A', 'a'], ['B', 'b']]})
            prog.append({'c': 'new', 'r': 'l', 'cls': 'L', 'span': {'range': n}, 'sub': 'd', 'dtype': dtype})
            lnames = ['T', 'W'] if classes['L']['style'] == 'explicit' else []
            sh['l'] = {'cls': 'L', 'kind': 'linker', 'vars': lnames, 'lists': llists,
                       'traced': {}, 'span_list': False, 'attrs': 0, 'subs': {'A': 'a', 'B': 'b'}}
            roots.append('l')
        nested.update(['a', 'b'])
    all_roots = lambda: [r for r in roots if r not in nested] + sorted(classes)   # noqa: E731
    prog.append({'c': 'snap', 'roots': all_roots()})

    def gen_op(r, depth=0):
        s = sh[r]
        spec = classes[s['cls']]
        choices = ['addVariable', 'addAttrList', 'addAttrImm', 'append', 'append', 'setAttrImm', 'buildAttr', 'buildAttr']
        if s.get('dicts'):
            choices += ['dictSetAttr']
        if spec.get('alias'):
            # names are used (also unsuccessfully) and the INSTANCE's aliases are re-pointed / added / removed at run time
            choices += ['useName', 'useName', 'aliasEdit', 'aliasEdit']
        if s.get('arrays'):
            choices += ['setAt']
        nn_ = s.get('n', n)
        if s['vars'] and nn_ > 0:
            choices += ['setCell', 'rebind']
        if any(s['lists']):
            choices += ['popLast']
        if spec.get('alias'):
            choices.append('dictSet')
        if spec.get('tracer'):
            choices += ['traceT', 'traceT']
        if s['kind'] == 'linker' and depth == 0 and s.get('subs'):
            choices += ['inSub', 'inSub', 'inSub']
        if depth > 0:
            choices = [c for c in choices if c != 'popLast']
        # re-synchronisation: a whole variable assigned from ANOTHER object of the same class (copy, sibling, submodel)
        others = [q for q in roots if q != r and sh[q]['cls'] == s['cls'] and sh[q]['vars']
                  and sh[q].get('n', n) == nn_ and nn_ > 0]
        if s['vars'] and others:
            choices += ['assignFrom'] * 4
            if depth == 0:
                choices += ['assignValues']
        o = rng.choice(choices)
        if o == 'assignFrom':
            # only between variables of one dtype (an int variable cannot take the strings of a str variable)
            pairs_ = [(x_, q_, y_) for q_ in others for x_ in s['vars'] for y_ in sh[q_]['vars']
                      if s.get('vdtype', {}).get(x_, 'float') == sh[q_].get('vdtype', {}).get(y_, 'float')]
            if not pairs_:
                return {'o': 'append', 'f': rng.choice(s['lists']), 's': fresh_name('e')}
            x_, q, y_ = rng.choice(pairs_)
            via = rng.choice(sorted(hc.ASSIGN_INPLACE.keys() - {'values'}))
            return {'o': 'assignFrom', 'x': x_, 'from': q, 'fx': y_, 'via': via, 'inplace': hc.ASSIGN_INPLACE[via]}
        if o == 'assignValues':
            allf = lambda t: all(t.get('vdtype', {}).get(v_, 'float') == 'float' for v_ in t['vars'])   # noqa: E731
            same = [q for q in others if len(sh[q]['vars']) == len(s['vars']) and allf(s) and allf(sh[q])]
            if not same:
                return {'o': 'setCell', 'x': rng.choice(s['vars']), 'i': rng.randrange(max(nn_, 1)), 'v': rng.randrange(1, 9)}
            q = rng.choice(same)
            pre = []   # `values` runs over `index` (containers) / `names` (models, linkers): the variables only
            return {'o': 'assignValues', 'from': q,
                    'pairs': [[a_, b_] for a_, b_ in zip(pre + s['vars'], pre + sh[q]['vars'])]}
        if o == 'buildAttr':
            x = fresh_name('nst')
            shape = rng.choice(hc.ATTR_SHAPES)
            spec_ = hc.attr_spec(shape, x)
            nodes, inner = hc.spec_nodes(spec_, [], x)
            s['lists'] += inner['list']
            s.setdefault('dicts', []).extend(inner['dict'])
            s.setdefault('arrays', []).extend(inner['array'])
            return {'o': 'buildAttr', 'x': x, 'shape': shape, 'spec': spec_, 'nodes': nodes}
        if o == 'useName':
            pool = list(s.get('akeys', [])) + list(s['vars']) + ['UNDEF1', 'GDP'] + list(s.get('removed', []))
            return {'o': 'useName', 'x': rng.choice(pool), 'how': rng.choice(['item', 'attr', 'contains'])}
        if o == 'aliasEdit':
            akeys = s.setdefault('akeys', [])
            what = rng.choice(['repoint', 'add', 'remove'])
            if what == 'remove' and len(akeys) > 1:
                k = rng.choice(akeys)
                akeys.remove(k)
                s.setdefault('removed', []).append(k)
                return {'o': 'dictDel', 'f': ['aliases'], 'k': k, 'edit': 'remove'}
            target = rng.choice(s['vars']) if s['vars'] else 'A0'
            if what == 'repoint' and akeys:
                return {'o': 'dictSet', 'f': ['aliases'], 'k': rng.choice(akeys), 'v': target, 'edit': 'repoint'}
            k = rng.choice(['UNDEF1', 'GDP', fresh_name('AL')])
            if k not in akeys:
                akeys.append(k)
            return {'o': 'dictSet', 'f': ['aliases'], 'k': k, 'v': target, 'edit': 'add'}
        if o == 'dictSetAttr':
            return {'o': 'dictSet', 'f': rng.choice(s['dicts']), 'k': fresh_name('dk'), 'v': 'val'}
        if o == 'setAt':
            return {'o': 'setAt', 'f': rng.choice(s['arrays']), 'k': '0', 'v': rng.randrange(1, 9)}
        if o == 'setCell':
            return {'o': 'setCell', 'x': rng.choice(s['vars']), 'i': rng.randrange(max(nn_, 1)),
                    'v': rng.choice([rng.randrange(1, 9), 2 ** 53 + 1, 7])}   # 2**53+1 is not a float64
        if o == 'rebind':
            return {'o': 'rebind', 'x': rng.choice(s['vars']), 'n': nn_}
        if o == 'addVariable':
            x = fresh_name('V')
            # name pools: class-member-like names and underscore twins of existing variables
            taken = set(s['vars'])
            u = rng.random()
            if u < 0.2:
                free = [m_ for m_ in ['size', 'copy', 'eval', 'nbytes', 'LAGS', 'CODE', 'reindex', 'solve_t',
                                      'to_dataframe'] if m_ not in taken
                        and not (s['kind'] == 'linker' and m_ == 'LAGS')]   # a linker stores `_LAGS` itself
                if free:
                    x = rng.choice(free)
            elif u < 0.35 and s['vars']:
                cand = '_' + rng.choice(s['vars'])
                if cand not in taken and not cand.startswith('__'):
                    x = cand
            s['vars'].append(x)
            op_ = {'o': 'addVariable', 'x': x, 'n': nn_, 'model': s['kind'] != 'container'}
            if rng.random() < 0.3:
                op_['dtype'] = rng.choice(hc.DTYPE_POOL[3:])
            s.setdefault('vdtype', {})[x] = op_.get('dtype', 'float' if s['kind'] == 'container' else s.get('dtype0', 'float'))
            return op_
        if o == 'addAttrList':
            x = fresh_name('lst')
            s['lists'].append([x])
            return {'o': 'addAttrList', 'x': x, 'items': [fresh_name('i') for _ in range(rng.randrange(3))]}
        if o == 'addAttrImm':
            return {'o': 'addAttrImm', 'x': fresh_name('att'), 'v': rng.choice([1, 'txt', None]),
                    'via': rng.choice(['setattr', 'add_attribute'])}
        if o == 'setAttrImm':
            if s['kind'] != 'container':
                return {'o': 'setAttrImm', 'x': rng.choice(['lags', 'leads']), 'v': rng.randrange(3)}
            return {'o': 'append', 'f': rng.choice(s['lists']), 's': fresh_name('e')}
        if o == 'append':
            return {'o': 'append', 'f': rng.choice(s['lists']), 's': fresh_name('e')}
        if o == 'popLast':
            f = rng.choice([l for l in s['lists'] if l[0].startswith('lst')] or [None])
            if f is None:
                return {'o': 'append', 'f': rng.choice(s['lists']), 's': fresh_name('e')}
            return {'o': 'append', 'f': f, 's': fresh_name('e')} if rng.random() < 0.5 else {'o': 'popLastSafe', 'f': f}
        if o == 'dictSet':
            return {'o': 'dictSet', 'f': ['aliases'], 'k': fresh_name('AL'), 'v': 'whatever'}
        if o == 'traceT':
            t = rng.randrange(n)
            style = spec['trace_style']
            nvars = len(s['vars'])
            if style == 'own':
                nn, items = nvars, None
            elif style == 'class':
                nn, items = len(spec['trace_vars']), None
            else:
                items = [base_names[0]]
                nn = 1
            prev = s['traced'].get(t)
            if prev is not None and prev != nn:
                return {'o': 'append', 'f': rng.choice(s['lists']), 's': fresh_name('e')}   # would not stack
            s['traced'][t] = nn
            op = {'o': 'traceT', 't': t, 'src': style, 'cls': s['cls'], 'fresh': prev is None,
                  'label': rng.choice(['start', 'x', 1, 2]), 'n': nn}
            if items is not None:
                op['items'] = items
            return op
        if o == 'inSub':
            key = rng.choice(sorted(s['subs']))
            return {'o': 'inSub', 'key': key, 'op': gen_op(s['subs'][key], depth + 1)}
        raise AssertionError(o)

    ncopies = 0
    episodes = 0
    for _ in range(rng.randrange(3, 14)):
        u = rng.random()
        if u > 0.93 and episodes == 0:
            # a copy that RAISES in the middle of the history: an attribute deepcopy cannot copy is added, every
            # route must raise and leave no trace, the attribute is then replaced and copying goes on as before
            episodes += 1
            r = rng.choice(roots)
            x = fresh_name('unc')
            what = rng.choice(['generator', 'dict_keys', 'lock'])
            shape = rng.choice(['direct', 'in-list', 'in-tuple'])
            leaf = {'t': 'uncopyable', 'what': what}
            spec_ = leaf if shape == 'direct' else {'t': 'list' if shape == 'in-list' else 'tuple', 'items': ['k', leaf]}
            nodes, _ = hc.spec_nodes(spec_, [], x)
            prog.append({'c': 'op', 'r': r, 'op': {'o': 'buildAttr', 'x': x, 'shape': 'uncopyable:' + what + ':' + shape,
                                                   'spec': spec_, 'nodes': nodes}})
            holders = [r] + [q for q in roots if r in sh[q].get('subs', {}).values()]
            for q in holders:
                for route in sorted(hc.COPY_ROUTES):
                    prog.append({'c': 'copyfail', 'of': q, 'route': route})
            prog.append({'c': 'op', 'r': r, 'op': {'o': 'setAttrImm', 'x': x, 'v': 0}})
        elif u < 0.18 and ncopies < 3:
            src = rng.choice(roots)
            dst = f'c{ncopies}'
            ncopies += 1
            prog.append({'c': 'copy', 'r': dst, 'of': src, 'route': rng.choice(sorted(hc.COPY_ROUTES))})
            sh[dst] = copy.deepcopy(sh[src])
            if sh[dst]['kind'] == 'linker':
                # the copy owns copies of its submodels: expose them as roots so that they can be mutated and observed
                for key in sorted(sh[dst]['subs']):
                    sub = f'{dst}{key}'
                    prog.append({'c': 'sub', 'r': sub, 'of': dst, 'key': key})
                    sh[sub] = copy.deepcopy(sh[sh[src]['subs'][key]])
                    sh[dst]['subs'][key] = sub
                    roots.append(sub)
                    nested.add(sub)
            roots.append(dst)
            prog.append({'c': 'snap', 'roots': all_roots()})
        elif u < 0.26 and kind != 'container':
            cname = rng.choice(sorted(classes))
            attr = rng.choice(['ENDOGENOUS', 'CHECK', 'EXOGENOUS', 'PARAMETERS'])
            prog.append({'c': 'op', 'r': cname, 'op': {'o': 'append', 'f': [attr], 's': fresh_name('k')}})
        else:
            r = rng.choice(roots)
            op = gen_op(r)
            if op['o'] == 'popLastSafe':
                op = {'o': 'popLast', 'f': op['f']}
                prog.append({'c': 'op', 'r': r, 'op': {'o': 'append', 'f': op['f'], 's': fresh_name('e')}})
            cmd = {'c': 'op', 'r': r, 'op': op}
            if op['o'] == 'assignValues':   # one real call (`m.values = other.values`), one model op per variable
                cmd['expand'] = [{'c': 'op', 'r': r, 'op': {'o': 'assignFrom', 'x': a_, 'from': op['from'], 'fx': b_,
                                                             'via': 'values', 'inplace': True}}
                                 for a_, b_ in op['pairs']]
            prog.append(cmd)
    prog.append({'c': 'snap', 'roots': all_roots()})
    return {'classes': classes, 'prog': prog, 'roots': roots, 'ncopies': ncopies}


class Prepared:
    """The classes of a case, built once; `restore()` puts every class-level list / dict back to its original
    contents (the oracle mutates them)."""

    def __init__(self, case):
        self.case = case
        self.classes = {name: build_class(case['classes'][name], name) for name in sorted(case['classes'])}
        self.saved = []
        for cls in self.classes.values():
            for k in hc.class_attr_names(cls):
                v = getattr(cls, k)
                if isinstance(v, (list, dict)):
                    self.saved.append((v, copy.deepcopy(v)))

    def restore(self):
        for v, old in self.saved:
            if isinstance(v, list):
                v[:] = old
            else:
                v.clear()
                v.update(old)

    def world(self, snap=True):
        self.restore()
        w = hc.RealWorld(snap)
        w.classes.update(self.classes)
        with warnings.catch_warnings():
            warnings.simplefilter('ignore')
            real = w.run(self.case['prog'])
        return w, real


def run_case(case, prep=None):
    """Build the classes, run the program on real objects.  Returns (world, full program, real snapshots)."""
    prep = prep or Prepared(case)
    cmds = []
    keep = []
    prep.restore()
    for name in sorted(prep.classes):
        cmds.append(hc.class_command(name, prep.classes[name], keep))
    w, real = prep.world()
    w.keep += keep
    return w, cmds + case['prog'], real


# ---- oracle: twin runs ----------------------------------------------------------------------------------------------------

CLASS_LIST_FIELDS = {'check', 'endogenous', 'CHECK', 'ENDOGENOUS'}


def top_field(path):
    for part in path.split('/'):
        if part and not part.isdigit():
            return part
    return '?'


def mutators(x, tag_prefix=''):
    """(component, function) pairs: one generic in-place mutation for every mutable object reachable from x, plus
    API-level mutations when x is a container / model / linker."""
    out = []
    ps = []
    hc.walk('', x, ps, is_root=True)
    seen = set()
    for path, obj in ps:
        if id(obj) in seen:
            continue
        seen.add(id(obj))
        comp = top_field(path) if path else '<self>'
        if isinstance(obj, list):
            out.append((comp, path + ':append', lambda o=obj: o.append('__sentinel__')))
        elif isinstance(obj, dict) and not isinstance(obj, type):
            out.append((comp, path + ':setitem', lambda o=obj: o.__setitem__('__sentinel__', 'v')))
        elif isinstance(obj, np.ndarray):
            if obj.size and obj.dtype != object:
                def write(o=obj):
                    flat = o.reshape(-1)
                    if o.dtype.kind in 'fiu':
                        flat[0] = flat[0] + 1
                    elif o.dtype.kind == 'b':
                        flat[0] = not flat[0]
                    elif o.dtype.kind in 'US':
                        flat[0] = 'Z' if flat[0] != 'Z' else 'Q'
                out.append((comp, path + ':write', write))
        elif isinstance(obj, type):
            pass
        elif isinstance(obj, set):
            out.append((comp, path + ':add', lambda o=obj: o.add('__sentinel__')))
        elif hasattr(obj, '__dict__') and not isinstance(obj, VectorContainer):
            out.append((comp, path + ':setattr', lambda o=obj: o.__dict__.__setitem__('__sentinel__', 1)))
    if isinstance(x, VectorContainer):
        idx = list(x.__dict__['index'])
        numeric = [v for v in idx if isinstance(x.__dict__.get('_' + v), np.ndarray) and x.__dict__['_' + v].dtype.kind == 'f']
        if numeric:
            v = numeric[0]
            out.append((v, 'api:setattr-scalar', lambda: setattr(x, v, 3.5)))
            out.append((v, 'api:setattr-seq', lambda: setattr(x, v, [float(i) + 0.25 for i in range(len(x.span))])))
            out.append((v, 'api:setitem', lambda: x.__setitem__(v, 7.0)))
            out.append((v, 'api:replace_values', lambda: x.replace_values(**{v: 9.0})))
            if len(x.span):
                out.append((v, 'api:setitem-label', lambda: x.__setitem__((v, x.span[0]), -1.0)))

            def iadd():
                arr = getattr(x, v)
                arr[:2] += 1.5
            out.append((v, 'api:iadd-slice', iadd))
        out.append(('add_variable', 'api:add_variable', lambda: x.add_variable('ZZnew', 1.0)))
        out.append(('add_attribute', 'api:add_attribute', lambda: x.add_attribute('ZZattr', ['q'])))
        out.append(('strict', 'api:strict', lambda: setattr(x, 'strict', not x.strict)))
        if isinstance(x, ModelInterface):
            out.append(('lags', 'api:lags', lambda: setattr(x, 'lags', x.lags + 1)))
            out.append(('leads', 'api:leads', lambda: setattr(x, 'leads', x.leads + 2)))
            out.append(('status', 'api:status', lambda: x.status.__setitem__(0, 'E')))
            out.append(('iterations', 'api:iterations', lambda: x.iterations.__setitem__(0, 99)))

            def solve():
                with warnings.catch_warnings():
                    warnings.simplefilter('ignore')
                    try:
                        x.solve(max_iter=5, failures='ignore', errors='ignore')
                    except Exception:   # noqa: BLE001   (the property is about sharing, not about solvability)
                        pass
            out.append(('solve', 'api:solve', solve))

            def solve_t():
                with warnings.catch_warnings():
                    warnings.simplefilter('ignore')
                    try:
                        x.solve_t(len(x.span) - 1, max_iter=3, failures='ignore', errors='ignore')
                    except Exception:   # noqa: BLE001
                        pass
            out.append(('solve_t', 'api:solve_t', solve_t))
        if isinstance(x, TracerMixin) and len(x.span):
            def trace():
                try:
                    x.trace_t(len(x.span) - 1, 'oracle', trace=True, reset=True)
                except Exception:   # noqa: BLE001
                    pass
            out.append(('trace', 'api:trace_t', trace))
        if isinstance(x, AliasMixin):
            out.append(('aliases', 'api:aliases', lambda: x.aliases.__setitem__('ZZalias', 'ZZtarget')))
        if isinstance(x, BaseLinker):
            for key, sub in list(x.submodels.items()):
                for comp, what, fn in mutators(sub):
                    if what.startswith('api:'):
                        out.append((f'submodels[{key}].{comp}', f'sub[{key}]:{what}', fn))
    if isinstance(x, type):
        for k in hc.class_attr_names(x):
            v = getattr(x, k)
            if isinstance(v, list):
                out.append((k, f'class:{k}.append', lambda o=v: o.append('__sentinel__')))
            elif isinstance(v, dict):
                out.append((k, f'class:{k}.setitem', lambda o=v: o.__setitem__('__sentinel__', 'v')))
    return out


def classify(relation, comp, what, changed_fields):
    """Key of a violation: which sharing it is."""
    if relation in ('sibling', 'class'):
        if what.startswith('api:'):
            pass
        fields = set(changed_fields)
        if comp in CLASS_LIST_FIELDS and fields and fields <= CLASS_LIST_FIELDS:
            return 'class-list-shared'
        if (comp in ('trace', '_trace', 'TRACE_VARIABLES') and fields and fields <= {'_trace', 'TRACE_VARIABLES', 'trace'}):
            return 'trace-names-is-class-list'
    return f'{relation}-shares:{comp}'


CAP = [6]


def violate(rep, key, what, case):
    """Record at most a handful of violations per key: the known findings fire hundreds of times and must not crowd a
    new key out of the framework's global cap."""
    if rep.dist['violation:' + key] < CAP[0]:
        rep.violate(key, what, case)
    else:
        rep.dist['violation:' + key] += 1


def twin(rep, relation, mutated_name, mutated, observed_name, observed, case, rebuild):
    """Mutate every mutable component of one side, observe the other after each mutation.  Two passes on fresh
    pairs: API-level mutations first (they need a consistent object), then one generic in-place mutation of every
    mutable object reachable from the mutated side."""
    n = 0
    for phase in ('api', 'generic'):
        m, o = rebuild()
        muts = [t for t in mutators(m) if t[1].startswith(('api:', 'sub[')) == (phase == 'api')]
        before = hc.observe(o)
        for comp, what, fn in muts:
            try:
                fn()
            except Exception:   # noqa: BLE001  a mutation the object rejects is no mutation
                continue
            after = hc.observe(o)
            n += 1
            if before != after:
                paths = hc.diff_paths(before, after)
                fields = sorted({top_field(p) for p in paths})
                key = classify(relation, comp, what, fields)
                violate(rep, key, f'{relation}: mutating {mutated_name} ({what}) changed what is observed through '
                        f'{observed_name}: {fields}', dict(case, pair=[relation, mutated_name, observed_name],
                                                            mutation=what))
                before = after
    return n


PROBE_NAMES = ['UNDEF1', 'GDP', 'AL1', 'AL2', 'AA', 'TT', 'A0']


def canon_value(v):
    if isinstance(v, np.ndarray) and v.dtype != object:
        return ('array', str(v.dtype), v.shape, v.tobytes())
    return hc.observe(v)


def name_pool(x):
    pool = [v for v in x.__dict__.get('index', []) if isinstance(x.__dict__.get('_' + v), np.ndarray)
            and x.__dict__['_' + v].dtype != object]
    pool += [k for k in getattr(x, 'aliases', {}) if isinstance(k, str)]
    pool += PROBE_NAMES
    seen, out = set(), []
    for n_ in pool:
        if n_ not in seen:
            seen.add(n_)
            out.append(n_)
    return out


def probe_reads(x, names):
    """What the object answers to every public read through every name (value, or the class of the exception)."""
    out = []
    for nm in names:
        for how in ('item', 'attr', 'contains'):
            try:
                with warnings.catch_warnings():
                    warnings.simplefilter('ignore')
                    v = x[nm] if how == 'item' else getattr(x, nm) if how == 'attr' else (nm in x)
                out.append((nm, how, 'ok', canon_value(v)))
            except Exception as e:   # noqa: BLE001
                out.append((nm, how, 'raise', type(e).__name__))
    return out


def probe_writes(x, names):
    out = []
    for i, nm in enumerate(names):
        for how in ('item', 'replace_values'):
            try:
                if how == 'item':
                    x[nm] = 1.5 * (i + 1)
                else:
                    x.replace_values(**{nm: 2.5 * (i + 1)})
                out.append((nm, how, 'ok'))
            except Exception as e:   # noqa: BLE001
                out.append((nm, how, type(e).__name__))
    return out


def behaviour_equal(rep, case, what, a, b, history=None):
    """Observational equality as behaviour: the same answers to every read through every name, and — after the same
    writes through every name on both — the same state.  (State outside `__dict__`, e.g. a per-object cache of what
    a name meant when it was first used, shows up here and nowhere else.)"""
    n = 0
    pairs = [(a, b, '')]
    if isinstance(a, BaseLinker) and isinstance(b, BaseLinker):
        pairs += [(a.submodels[k], b.submodels[k], f'.submodels[{k}]') for k in a.submodels if k in b.submodels]
    for x, y, where in pairs:
        names = name_pool(x)
        for attr in ('values', 'size', 'nbytes'):   # `values`: dtype and bytes of the packed array
            try:
                va = ('ok', canon_value(getattr(x, attr)))
            except Exception as e:   # noqa: BLE001
                va = ('raise', type(e).__name__)
            try:
                vb = ('ok', canon_value(getattr(y, attr)))
            except Exception as e:   # noqa: BLE001
                vb = ('raise', type(e).__name__)
            if va != vb:
                violate(rep, 'copy-behaves-differently:' + attr, f'{what}{where}: `{attr}` of original and copy differ '
                        f'(dtype / contents / exception)', dict(case, behaviour=[what, history]))
        ra, rb = probe_reads(x, names), probe_reads(y, names)
        n += len(ra)
        if ra != rb:
            d = [(p[0], p[1], p[2], q[2]) for p, q in zip(ra, rb) if p != q][:4]
            violate(rep, 'copy-behaves-differently:read', f'{what}{where}: the same reads are answered differently by '
                    f'original and copy (name, access, original, copy): {d}', dict(case, behaviour=[what, history]))
        wa, wb = probe_writes(x, names), probe_writes(y, names)
        n += len(wa)
        if wa != wb or hc.observe(x) != hc.observe(y):
            fields = sorted({top_field(p) for p in hc.diff_paths(hc.observe(x), hc.observe(y))})
            d = [(p, q) for p, q in zip(wa, wb) if p != q][:4]
            violate(rep, 'copy-behaves-differently:after-writes', f'{what}{where}: after the same writes through every '
                    f'name original and copy differ in {fields} {d}', dict(case, behaviour=[what, history]))
    return n


def internal_aliases(x):
    """The internal sharing structure of one object: groups of (relative) paths that lead to the same mutable object."""
    ps = []
    hc.walk('', x, ps, is_root=True)
    groups = {}
    for p_, o in ps:
        groups.setdefault(hc.identity(o), []).append(p_)
    return sorted(sorted(g) for g in groups.values() if len(g) > 1)


def mirror_mutations(rep, case, what, a, b):
    """The same in-place mutation of every mutable object, by path, on BOTH sides (lists: append / delete; dicts:
    set / delete; arrays: cell write), the full state compared after each; finally the same solve on both."""
    ps = []
    hc.walk('', a, ps, is_root=True)
    n = 0

    def steps_for(o):
        if isinstance(o, list):
            return [lambda t: t.append('__mirror__'), lambda t: t.__delitem__(0)]
        if isinstance(o, dict) and not isinstance(o, type):
            return [lambda t: t.__setitem__('__mirror__', 'v'), lambda t: t.__delitem__('__mirror__')]
        if isinstance(o, np.ndarray) and o.dtype != object and o.size:
            def write(t):
                flat = t.reshape(-1)
                flat[0] = flat[-1] if flat[0] != flat[-1] else (not flat[0] if t.dtype.kind == 'b' else
                                                               'Z' if t.dtype.kind in 'US' else flat[0] + 1)
            return [write]
        return []
    for path, obj in ps:
        comps = [c for c in path.split('/') if c]
        if not comps:
            continue
        try:
            oa, ob = hc.navigate(a, comps), hc.navigate(b, comps)
        except Exception:   # noqa: BLE001
            continue
        if oa is not obj or type(oa) is not type(ob):
            continue
        for step in steps_for(oa):
            try:
                step(oa)
                step(ob)
            except Exception:   # noqa: BLE001
                continue
            n += 1
            sa, sb = hc.observe(a), hc.observe(b)
            if sa != sb:
                fields = sorted({top_field(p_) for p_ in hc.diff_paths(sa, sb)})
                violate(rep, 'copy-diverges-under-same-mutation:' + top_field(path),
                        f'{what}: the same in-place mutation at {path} on original and copy leaves them different in '
                        f'{fields}', dict(case, behaviour=[what, 'mirror']))
                return n
    if isinstance(a, ModelInterface) and hasattr(a, 'solve'):
        outs = []
        for x in (a, b):
            with warnings.catch_warnings():
                warnings.simplefilter('ignore')
                try:
                    outs.append(('ok', repr(x.solve(max_iter=4, offset=-1, failures='ignore', errors='ignore'))))
                except Exception as e:   # noqa: BLE001
                    outs.append(('raise', type(e).__name__))
        n += 1
        if outs[0] != outs[1] or hc.observe(a) != hc.observe(b):
            violate(rep, 'copy-diverges-under-same-mutation:solve', f'{what}: the same solve() after the same mutations '
                    f'gives {outs[0][0]} / {outs[1][0]} and different states', dict(case, behaviour=[what, 'mirror']))
    return n


def alias_edit_history(x):
    """Names are used once (failed look-ups included), THEN the instance's `aliases` are re-pointed / extended /
    reduced at run time."""
    done = []
    fl = [v for v in x.__dict__['index'] if isinstance(x.__dict__.get('_' + v), np.ndarray)
          and x.__dict__['_' + v].dtype.kind == 'f']
    for nm in list(x.aliases) + ['UNDEF1', 'GDP'] + fl[:2]:
        for how in ('item', 'attr', 'contains'):
            hc.apply_op(x, {'o': 'useName', 'x': nm, 'how': how})
    keys = list(x.aliases)
    if fl:
        if keys:
            cur = x.aliases[keys[0]]
            x.aliases[keys[0]] = next((v for v in fl if v != cur), fl[0])
            done.append('repoint')
        x.aliases['UNDEF1'] = fl[-1]
        done.append('add')
    if len(keys) > 1:
        del x.aliases[keys[-1]]
        done.append('remove')
    return done


UNCOPYABLE = ['generator', 'dict_keys', 'lock']


def dict_keys_of(x):
    out = [sorted(map(str, x.__dict__))]
    if isinstance(x, BaseLinker):
        out += [sorted(map(str, v.__dict__)) for v in x.submodels.values()]
    return out


def failed_copy_oracle(rep, case, world, src, full=True):
    """A copy that raises must leave no trace: an uncopyable attribute is added (directly, inside a list, inside a
    tuple; on a linker also in a submodel), every route must raise and the original stay exactly as it was
    (`__dict__` keys included); after the attribute is replaced every route must again give new, equal, independent
    objects — two successive copies distinct and sharing nothing."""
    n = 0
    import zlib
    pick = zlib.crc32(json.dumps(case['prog'], sort_keys=True).encode())
    combos = [(w_, s_) for w_ in UNCOPYABLE for s_ in ('direct', 'in-list', 'in-tuple', 'in-submodel')]
    if not full:   # a rotating selection per case; replay (`forms='all'`) runs all of them
        combos = [combos[(pick + j) % len(combos)] for j in (0, 5, 10)]
    for what, shape in combos:
        if True:
            w = world()
            orig = w.roots[src]
            holder = orig
            if shape == 'in-submodel':
                if not (isinstance(orig, BaseLinker) and orig.submodels):
                    continue
                holder = next(iter(orig.submodels.values()))
            leaf = hc.build_value({'t': 'uncopyable', 'what': what})
            value = leaf if shape in ('direct', 'in-submodel') else ['k', leaf] if shape == 'in-list' else ('k', leaf)
            try:
                holder.add_attribute('zz_unc', value)
            except Exception:   # noqa: BLE001
                continue
            rep.dist[f'oracle:copy-that-raises:{what}:{shape}'] += 1
            case_ = dict(case, failed_copy=[src, what, shape])
            before = (hc.observe(orig), dict_keys_of(orig))
            for route in sorted(hc.COPY_ROUTES):
                n += 1
                try:
                    got = hc.COPY_ROUTES[route](orig)
                except Exception:   # noqa: BLE001  (HEAD: TypeError from copy.deepcopy)
                    got = None
                else:
                    # a copy was returned although the attribute cannot be copied: it must not share it
                    h_attr = got.submodels[next(iter(got.submodels))] if shape == 'in-submodel' else got
                    if any(o is leaf for _, o in _walk_all(h_attr.__dict__.get('zz_unc'))):
                        violate(rep, 'uncopyable-attribute-shared', f'{route}: the copy holds the very same {what} '
                                f'object as the original', case_)
                after = (hc.observe(orig), dict_keys_of(orig))
                if after != before:
                    fields = sorted({top_field(p) for p in hc.diff_paths(before[0], after[0])}) or ['__dict__ keys']
                    violate(rep, 'failed-copy-changed-original', f'{route}: a copy that raised ({what}, {shape}) left '
                            f'the original changed: {fields}; keys {sorted(set(map(str, after[1])) ^ set(map(str, before[1])))[:3]}',
                            case_)
                    before = after
            # the attribute is replaced: copying must work again, and be clean
            if shape == 'in-submodel' or shape == 'direct' or True:
                holder.__setattr__('zz_unc', 0)
            copies = []
            for route in sorted(hc.COPY_ROUTES):
                for _ in range(2):
                    n += 1
                    try:
                        copies.append((route, hc.COPY_ROUTES[route](orig)))
                    except Exception as e:   # noqa: BLE001
                        violate(rep, 'copy-after-failed-copy:raises', f'{route}: after a failed copy ({what}, {shape}) '
                                f'and replacing the attribute, copying raises {type(e).__name__}', case_)
            objs = [('orig', orig)] + [(f'{r}#{i}', c) for i, (r, c) in enumerate(copies)]
            for i, (na, xa) in enumerate(objs):
                for nb, xb in objs[i + 1:]:
                    if xa is xb:
                        violate(rep, 'copy-after-failed-copy:not-fresh', f'{na} and {nb} are the same object after a '
                                f'failed copy ({what}, {shape})', case_)
            ob = hc.observe(orig)
            for r_, c in copies:
                if hc.observe(c) != ob or type(c) is not type(orig):
                    fields = sorted({top_field(p) for p in hc.diff_paths(ob, hc.observe(c))})
                    violate(rep, 'copy-after-failed-copy:not-equal', f'{r_}: copy after a failed copy differs from the '
                            f'original in {fields}', case_)
            shared = hc.cross_groups(objs)
            if shared:
                violate(rep, 'copy-after-failed-copy:shares', f'objects share mutable state after a failed copy '
                        f'({what}, {shape}): {shared[:3]}', case_)
    return n


def _walk_all(x):
    ps = []
    if x is not None:
        hc.walk('v', x, ps, is_root=True)
    return ps


RESYNC_FORMS = ['attr', 'item', 'replace_values', 'values', 'view', 'astype', 'list', 'tolist-item', 'scalar']
AFTER_RESYNC = ('api:setitem-label', 'api:iadd-slice', 'api:solve', 'api:solve_t', 'api:status', 'api:iterations',
                'api:setattr-scalar', 'api:setitem')


def resync(dst, src, form):
    """Re-synchronise dst from src: every variable both have (non-object dtype) is assigned as a whole from the
    OTHER object's variable, in the given spelling; submodels of linkers pairwise.  Returns the number of variables."""
    k = 0
    if form == 'values':
        dst.values = src.values
        k = 1
    else:
        for v in list(dst.__dict__['index']):
            a, b = dst.__dict__.get('_' + v), src.__dict__.get('_' + v)
            if isinstance(a, np.ndarray) and isinstance(b, np.ndarray) and a.dtype != object and b.dtype != object \
                    and a.shape == b.shape:
                hc.assign_from(dst, src, v, v, form)
                k += 1
    if isinstance(dst, BaseLinker) and isinstance(src, BaseLinker):
        for key in dst.submodels:
            if key in src.submodels:
                k += resync(dst.submodels[key], src.submodels[key], form)
    return k


def twin_resync(rep, relation, mutated_name, observed_name, case, rebuild, forms):
    """The same twin run after a re-synchronisation: one side's variables are first assigned as a whole from the
    other side's (either direction, each spelling), THEN the mutated side is changed in place (element / period /
    slice assignment, solve) and the other side observed."""
    n = 0
    for form in forms:
        for direction in ('mutated<-observed', 'observed<-mutated'):
            m, o = rebuild()
            try:
                with warnings.catch_warnings():
                    warnings.simplefilter('ignore')
                    k = resync(m, o, form) if direction == 'mutated<-observed' else resync(o, m, form)
            except Exception:   # noqa: BLE001  (e.g. shapes differ after add_variable on one side)
                continue
            if not k:
                continue
            rep.dist['oracle:resync:' + form] += 1
            muts = [t for t in mutators(m) if t[1].endswith(':write') or t[1].split(':', 1)[-1] in
                    [a.split(':', 1)[-1] for a in AFTER_RESYNC] and t[1].startswith(('api:', 'sub['))]
            before = hc.observe(o)
            for comp, what, fn in muts:
                try:
                    fn()
                except Exception:   # noqa: BLE001
                    continue
                after = hc.observe(o)
                n += 1
                if before != after:
                    fields = sorted({top_field(p) for p in hc.diff_paths(before, after)})
                    violate(rep, f'{relation}-shares-after-resync:{form}',
                            f'{relation}: after re-synchronising ({direction}, spelling {form}) mutating {mutated_name} '
                            f'({what}) changed what is observed through {observed_name}: {fields}',
                            dict(case, pair=[relation, mutated_name, observed_name], mutation=what,
                                 resync=[form, direction]))
                    before = after
    return n


def forms_for(case, forms):
    if forms == 'all':
        return list(RESYNC_FORMS)
    if forms is not None:
        return list(forms)
    import hashlib, random
    r = random.Random(hashlib.blake2b(json.dumps(case['prog'], sort_keys=True).encode(), digest_size=8).digest())
    return r.sample(RESYNC_FORMS[:3], 1) + r.sample(RESYNC_FORMS[3:], 1)


def diagnose_raise(rep, case, prep, exc):
    """A generated program is valid by construction.  If it raises on the real code: when the failing command is the
    construction of a *second* instance of a class (or the program ran before and fails when simply run again), the
    instances interfere through shared state — a failing input of C11.  Anything else is reported as T breakage."""
    w = hc.RealWorld(snap=False)
    w.classes.update(prep.classes)
    prep.restore()
    built = set()
    for cmd in case['prog']:
        try:
            with warnings.catch_warnings():
                warnings.simplefilter('ignore')
                w.exec(cmd)
        except Exception as e:   # noqa: BLE001
            if cmd['c'] == 'new' and cmd['cls'] in built:
                rep.violate('sibling-construction-interferes',
                            f'constructing a second instance of class {cmd["cls"]} raises {type(e).__name__}: an earlier '
                            f'instance left state behind', dict(case, failing=cmd))
                return True
            return False
        if cmd['c'] == 'new':
            built.add(cmd['cls'])
    return False


def oracle(rep, case, prep=None, forms=None):
    """Twin runs for one generated case: copies by each route, siblings, instance vs class."""
    try:
        if case.get('kind') == 'ctor-defaults':
            return oracle_ctor(rep, case, prep)
        if case.get('kind') == 'internal-alias-probe':
            internal_alias_probe(rep)
            return 1
        return oracle_(rep, case, prep, forms)
    except Exception as e:   # noqa: BLE001
        # the same program ran once already: failing on a plain re-run means state survived outside the objects
        rep.violate('state-survives-outside-instances', f'a program that ran once raises {type(e).__name__} when run '
                    f'again on new instances: {str(e)[:120]}', case)
        return 0


def oracle_(rep, case, prep=None, forms=None):
    evaluations = 0
    forms_in = forms
    forms = forms_for(case, forms)
    import zlib
    resync_route = sorted(hc.COPY_ROUTES)[zlib.crc32(json.dumps(case['prog'], sort_keys=True).encode()) % 3]
    roots = [r for r in case['roots'] if not r.startswith('c')]
    src_candidates = [r for r in roots if r in ('a', 'l')] or roots[:1]
    prep = prep or Prepared(case)

    def world():
        return prep.world(snap=False)[0]

    for src in src_candidates:
        for route in sorted(hc.COPY_ROUTES):
            def rebuild(src=src, route=route, flip=False):
                w = world()
                orig = w.roots[src]
                cp = hc.COPY_ROUTES[route](orig)
                return (cp, orig) if flip else (orig, cp)
            orig, cp = rebuild()
            # same class, observationally equal
            if type(cp) is not type(orig):
                violate(rep, 'copy-class-differs', f'{route}: copy is a {type(cp).__name__}, original a '
                            f'{type(orig).__name__}', dict(case, pair=['copy', src, route]))
            a, b = hc.observe(orig), hc.observe(cp)
            if a != b:
                fields = sorted({top_field(p) for p in hc.diff_paths(a, b)})
                violate(rep, 'copy-not-equal:' + ','.join(fields), f'{route}: copy differs from original in {fields}',
                            dict(case, pair=['copy', src, route]))
            ia, ib = internal_aliases(orig), internal_aliases(cp)
            if ia != ib:
                violate(rep, 'copy-internal-sharing-differs', f'{route}({src}): the internal sharing structure differs: '
                        f'original {[g for g in ia if g not in ib][:3]}, copy {[g for g in ib if g not in ia][:3]}',
                        dict(case, behaviour=[f'{route}({src})', 'structure']))
            o2, c2 = rebuild()
            evaluations += behaviour_equal(rep, case, f'{route}({src})', o2, c2)
            o4, c4 = rebuild()
            evaluations += mirror_mutations(rep, case, f'{route}({src})', o4, c4)
            w3 = world()
            o3 = w3.roots[src]
            targets = [o3] + (list(o3.submodels.values()) if isinstance(o3, BaseLinker) else [])
            hist = [alias_edit_history(t) for t in targets if isinstance(t, AliasMixin)]
            if hist:
                rep.dist['oracle:alias-edit-then-copy'] += 1
                evaluations += behaviour_equal(rep, case, f'{route}({src})', o3, hc.COPY_ROUTES[route](o3),
                                               history='names used, then instance aliases edited: ' + str(hist))
            evaluations += twin(rep, 'copy', f'{src}', orig, f'{route}({src})', cp, case, rebuild)
            evaluations += twin(rep, 'copy', f'{route}({src})', cp, src, orig, case,
                                lambda src=src, route=route: rebuild(src, route, True))
            if route == resync_route:   # one route per case (the route rotates over the cases)
                evaluations += twin_resync(rep, 'copy', f'{src}', f'{route}({src})', case, rebuild, forms)
                evaluations += twin_resync(rep, 'copy', f'{route}({src})', src, case,
                                           lambda src=src, route=route: rebuild(src, route, True), forms)
            rep.dist['oracle:copy-pairs'] += 1
    for src in src_candidates:
        evaluations += failed_copy_oracle(rep, case, world, src, full=(forms_in == 'all'))
    # siblings and class
    if 'a' in case['roots'] and 'b' in case['roots']:
        def sib(flip=False):
            w = world()
            return (w.roots['b'], w.roots['a']) if flip else (w.roots['a'], w.roots['b'])
        a, b = sib()
        evaluations += twin(rep, 'sibling', 'a', a, 'b', b, case, sib)
        evaluations += twin(rep, 'sibling', 'b', b, 'a', a, case, lambda: sib(True))
        evaluations += twin_resync(rep, 'sibling', 'a', 'b', case, sib, forms)
        cname = 'M' if 'M' in case['classes'] else 'V'

        def inst_cls(flip=False):
            w = world()
            return (w.classes[cname], w.roots['a']) if flip else (w.roots['a'], w.classes[cname])
        a, c = inst_cls()
        evaluations += twin(rep, 'class', 'a', a, cname, c, case, inst_cls)
        evaluations += twin(rep, 'class', cname, c, 'a', a, case, lambda: inst_cls(True))
        rep.dist['oracle:sibling-pairs'] += 1
    if 'l' in case['roots']:
        def lk(flip=False):
            w = world()
            l2 = w.classes['L']({'A': w.roots['a'].copy(), 'B': w.roots['b'].copy()})
            return (l2, w.roots['l']) if flip else (w.roots['l'], l2)
        l1, l2 = lk()
        evaluations += twin(rep, 'sibling', 'l', l1, 'l2', l2, case, lk)
        evaluations += twin(rep, 'sibling', 'l2', l2, 'l', l1, case, lambda: lk(True))
        evaluations += twin_resync(rep, 'sibling', 'l', 'l2', case, lk, forms)
        if 'l2' in case['roots']:   # two linkers built with default arguments by the program itself
            def lk2(flip=False):
                w = world()
                return (w.roots['l2'], w.roots['l']) if flip else (w.roots['l'], w.roots['l2'])
            x1, x2 = lk2()
            evaluations += twin(rep, 'sibling', 'l', x1, 'l2(default args)', x2, case, lk2)
            evaluations += twin(rep, 'sibling', 'l2(default args)', x2, 'l', x1, case, lambda: lk2(True))
    return evaluations


# ---- run ----------------------------------------------------------------------------------------------------------------------

def cross_root(snaps):
    """The part of the sharing graph the property speaks about: groups of aliased paths that span more than one
    root (copy vs original, siblings, instance vs class).  Aliasing *inside* one object and list contents are
    compared leniently (reported as model drift, never as a disagreement)."""
    out = []
    for s in snaps.split('#'):
        part = s.split('|')[0]
        groups = [g for g in part.split(';') if len({p.split('/')[0] for p in g.split(',')}) > 1]
        out.append(';'.join(sorted(groups)))
    return '#'.join(out)


def model_snaps(out):
    snaps, hyps = out.split('%')
    return '#'.join(hc.canon_model_snapshot(s) for s in snaps.split('#')), hyps


def compare_T(ctx, rep, batch):
    """batch: list of (case, full program, real snapshots)."""
    outs = ctx.drive([hc.line(full) for _, full, _ in batch])
    for (case, full, real), out in zip(batch, outs):
        if out.startswith('!'):
            rep.disagree('heap_prog: driver rejected the program', case, out, real[:300])
            continue
        model, hyps = model_snaps(out)
        for f in hyps:
            rep.dist['theorem-hypotheses-at-copy:' + f] += 1
        if cross_root(model) != cross_root(real):
            detail_m, detail_r = first_difference(cross_root(model), cross_root(real), cross=True)
            rep.disagree('sharing between roots: model != impl', case, detail_m, detail_r)
        elif model != real:
            rep.dist['model_drift (aliasing inside one object / list contents; not a disagreement)'] += 1
            if len(rep.notes) < 5:
                rep.notes.append('model drift: ' + ' / '.join(first_difference(model, real))[:400])


def first_difference(model, real, cross=False):
    for i, (a, b) in enumerate(zip(model.split('#'), real.split('#'))):
        if a != b:
            pa, _, ca = a.partition('|')
            pb, _, cb = b.partition('|')
            return (f'snapshot {i}: model-only groups {sorted(set(pa.split(";")) - set(pb.split(";")))[:6]} contents '
                    f'{sorted(set(ca.split(";")) - set(cb.split(";")))[:6]}',
                    f'snapshot {i}: impl-only groups {sorted(set(pb.split(";")) - set(pa.split(";")))[:6]} contents '
                    f'{sorted(set(cb.split(";")) - set(ca.split(";")))[:6]}')
    return model[:200], real[:200]


def run(ctx, rep):
    n_prog = (400 if ctx.tier == 'quick' else 5000) * ctx.scale
    n_oracle = (45 if ctx.tier == 'quick' else 1000) * ctx.scale
    rng = ctx.sub_rng('programs')
    batch = []
    for i in range(n_prog):
        case = gen_case(rng)
        with pristine_globals():
            prep = Prepared(case)
            try:
                w, full, real = run_case(case, prep)
            except Exception as e:   # noqa: BLE001
                if not diagnose_raise(rep, case, prep, e):
                    rep.disagree('program raised on the real code', case, 'model: no exception expected',
                                 f'{type(e).__name__}: {e}')
                continue
            batch.append((case, full, real))
            kinds = sorted(s['kind'] + ':' + s['style'] for s in case['classes'].values())
            rep.dist['program:' + '+'.join(kinds)] += 1
            for name, s in case['classes'].items():
                if s.get('tracer'):
                    rep.dist['tracer:' + s.get('trace_style', '?')] += 1
                if s.get('alias'):
                    rep.dist['alias'] += 1
            for cmd in case['prog']:
                if cmd['c'] == 'copy':
                    rep.dist['route:' + cmd['route']] += 1
                if cmd['c'] == 'op':
                    rep.dist['op:' + cmd['op']['o']] += 1
                    inner = cmd['op']['op'] if cmd['op']['o'] == 'inSub' else cmd['op']
                    if inner['o'] == 'assignFrom':
                        rep.dist['assign-from-other:' + inner['via']] += 1
                    if inner['o'] == 'assignValues':
                        rep.dist['assign-from-other:values'] += 1
                    if inner['o'] == 'addVariable':
                        rep.dist['variable-dtype:' + inner.get('dtype', 'default')] += 1
                        nm_ = inner['x']
                        rep.dist['variable-name:' + ('underscore-twin' if nm_.startswith('_') else 'plain'
                                                     if nm_.startswith('V') and nm_[1:].isdigit() else 'member-like')] += 1
                    if inner['o'] == 'useName':
                        rep.dist['use-name:' + inner['how']] += 1
                    if inner.get('edit'):
                        rep.dist['instance-aliases-edit:' + inner['edit']] += 1
                    if inner['o'] == 'buildAttr':
                        rep.dist['attribute-shape:' + inner['shape']] += 1
                if cmd['c'] == 'new' and cmd.get('dtype'):
                    rep.dist['constructed-with-dtype:' + cmd['dtype']] += 1
                if cmd['c'] == 'copyfail':
                    rep.dist['copy-that-raises:' + cmd['route']] += 1
                if cmd['c'] == 'subadd':
                    rep.dist['linker-default-arguments:submodel stored by caller'] += 1
            structural = any(c['c'] == 'op' and c['op']['o'] != 'setCell' for c in case['prog'])
            rep.case(json.dumps(case, sort_keys=True), nontrivial=case['ncopies'] > 0 and structural,
                     sample={'classes': case['classes'], 'prog': case['prog'][:6], 'real': real[:160]}
                     if i % 97 == 0 else None)
            if i < n_oracle:
                rep.evaluations += oracle(rep, case, prep)
    if not ctx.oracle_only:
        compare_T(ctx, rep, batch)
    fixed_scenarios(ctx, rep)
    for case in ctor_cases(ctx.tier, ctx.sub_rng('ctor')):
        with pristine_globals():
            rep.evaluations += oracle(rep, case)
        rep.case(json.dumps(case, sort_keys=True), nontrivial=True)
    rep.notes.append(f'{n_prog} programs (T), twin oracle on the first {min(n_prog, n_oracle)} of them + fixed scenarios')


FIXED_COUNTER = [0]


def run_fixed(ctx, rep, case, batch):
    prep = Prepared(case)
    try:
        w, full, real = run_case(case, prep)
    except Exception as e:   # noqa: BLE001
        if not diagnose_raise(rep, case, prep, e):
            rep.disagree('program raised on the real code', case, 'model: no exception expected',
                         f'{type(e).__name__}: {e}')
        return
    batch.append((case, full, real))
    FIXED_COUNTER[0] += 1
    k = FIXED_COUNTER[0]
    # every scenario runs three of the nine resync spellings and three of the twelve failing-copy combinations; over the
    # 34 scenarios every spelling / combination is used several times on every kind of class
    rep.evaluations += oracle(rep, case, prep, forms=[RESYNC_FORMS[(k + j) % len(RESYNC_FORMS)] for j in (0, 3, 6)])


def internal_alias_probe(rep):
    """One object stored under two attributes by the user: Python's deepcopy keeps such an alias, fsic's copy()
    (one deepcopy per `__dict__` entry) cuts it, so original and copy diverge under the same later operation."""
    import copy as _copy
    for kind in ('container', 'model'):
        case = {'kind': 'internal-alias-probe', 'classes': {'M': {'kind': kind, 'style': 'container' if kind == 'container'
                                                                 else 'parser', 'script': 0, 'alias': False,
                                                                 'tracer': False}}, 'prog': [], 'roots': [],
                'ncopies': 0}
        cls = build_class(case['classes']['M'], 'M')
        for route in sorted(hc.COPY_ROUTES):
            m = cls(range(3))
            shared = ['u']
            m.add_attribute('p', shared)
            m.add_attribute('q', shared)
            c = hc.COPY_ROUTES[route](m)
            rep.evaluations += 1
            if internal_aliases(m) != internal_aliases(c):
                violate(rep, 'copy-cuts-internal-alias', f'{route}: m.p is m.q (one list stored under two attributes) but '
                        f'copy.p is not copy.q: appending to p changes q on the original only', dict(case, route=route))
    rep.dist['probe:internal-alias-made-by-the-user'] += 1


def fixed_scenarios(ctx, rep):
    with pristine_globals():
        internal_alias_probe(rep)
    batch = []
    fixed_scenarios_(ctx, rep, batch)
    if not ctx.oracle_only and batch:
        compare_T(ctx, rep, batch)


def nested_attr_cmds(r):
    """`add_attribute` with every nested shape (list, dict, nested list, tuple of lists, namedtuple holding a dict,
    tuple of arrays, dict of lists)."""
    out = []
    for i, shape in enumerate(hc.ATTR_SHAPES):
        x = f'nst{r}{i}'
        spec_ = hc.attr_spec(shape, x)
        nodes, _ = hc.spec_nodes(spec_, [], x)
        out.append({'c': 'op', 'r': r, 'op': {'o': 'buildAttr', 'x': x, 'shape': shape, 'spec': spec_, 'nodes': nodes}})
    return out


# ---- siblings built with every combination of omitted constructor arguments ------------------------------------------

MODEL_OPTS = ['strict', 'engine', 'dtype', 'default_value', 'init']
LINKER_OPTS = ['span', 'name', 'dtype', 'default_value']
LINKER_SUB = ['omitted', 'None', 'empty', 'dict']


def ctor_call(classes, ctor):
    """One instance built as the case says; every argument object is new (nothing is shared by the caller)."""
    cls = classes[ctor['cls']]
    given = ctor['given']
    kw = {}
    if 'strict' in given:
        kw['strict'] = True
    if 'engine' in given:
        kw['engine'] = 'python'
    if 'dtype' in given:
        kw['dtype'] = float
    if 'default_value' in given:
        kw['default_value'] = 0.5
    if 'name' in given:
        kw['name'] = 'lk'
    if ctor['kind'] == 'linker':
        mode = ctor['sub']
        if 'span' in given and mode != 'dict':
            kw['span'] = range(3)
        if mode == 'omitted':
            return cls(**kw)
        if mode == 'None':
            return cls(None, **kw)
        if mode == 'empty':
            return cls({}, **kw)
        M = classes['M']
        return cls({'A': M(range(3)), 'B': M(range(3))}, **kw)
    if 'init' in given:
        names = list(getattr(cls, 'NAMES', []))
        if names:
            kw[names[0]] = 1.0
    return cls(['p0', 'p1', 'p2'] if ctor.get('span_list') else range(3), **kw)


def ctor_cases(tier, rng):
    import itertools
    out = []

    def subsets(opts):
        return [list(c) for k in range(len(opts) + 1) for c in itertools.combinations(opts, k)]
    for given in (['strict'], []):
        out.append({'classes': {'V': {'kind': 'container', 'style': 'container', 'alias': False}},
                    'ctor': {'cls': 'V', 'kind': 'container', 'given': given}})
    variants = [('parser', False, False), ('explicit', True, True), ('inherit', False, True)]
    for vi, (style, alias, tracer) in enumerate(variants):
        combos = subsets(MODEL_OPTS)
        if tier == 'quick' and vi > 0:
            combos = rng.sample(combos, 6)
        for given in combos:
            spec = {'kind': 'model', 'style': style, 'script': 1, 'alias': alias, 'tracer': tracer}
            if alias:
                spec['aliases'], spec['preferred'] = {'AL1': 'Y'}, ['AL1']
            out.append({'classes': {'M': spec},
                        'ctor': {'cls': 'M', 'kind': 'model', 'given': given, 'span_list': len(given) % 2 == 1}})
    for lstyle, alias in (('explicit', False), ('inherit', True)):
        for mode in LINKER_SUB:
            combos = subsets(LINKER_OPTS)
            if tier == 'quick':
                combos = [[], LINKER_OPTS] + rng.sample(combos, 2)
            for given in combos:
                out.append({'classes': {'M': {'kind': 'model', 'style': 'parser', 'script': 0, 'alias': False,
                                              'tracer': False},
                                        'L': {'kind': 'linker', 'style': lstyle, 'alias': alias}},
                            'ctor': {'cls': 'L', 'kind': 'linker', 'given': given, 'sub': mode}})
    for c in out:
        c.update({'kind': 'ctor-defaults', 'prog': [], 'roots': [], 'ncopies': 0})
    return out


def oracle_ctor(rep, case, prep=None):
    """Two instances of one class built with the same combination of given / omitted constructor arguments (every
    argument object new), and the class: twin runs in every direction, plus the caller storing a submodel in one
    linker's `submodels`."""
    prep = prep or Prepared(case)
    ctor = case['ctor']
    n = 0

    def pair(flip=False):
        prep.restore()
        with warnings.catch_warnings():
            warnings.simplefilter('ignore')
            a, b = ctor_call(prep.classes, ctor), ctor_call(prep.classes, ctor)
        return (b, a) if flip else (a, b)

    def inst_cls(flip=False):
        a, _ = pair()
        c = prep.classes[ctor['cls']]
        return (c, a) if flip else (a, c)
    try:
        a, b = pair()
    except Exception as e:   # noqa: BLE001
        try:
            prep.restore()
            ctor_call(prep.classes, ctor)
        except Exception:   # noqa: BLE001  the combination itself is not accepted: nothing to compare
            rep.dist['ctor-defaults:combination rejected by the constructor'] += 1
            return 0
        violate(rep, 'sibling-construction-interferes', f'a second instance built with arguments {ctor} raises '
                f'{type(e).__name__}: the first one left state behind', case)
        return 1
    n += twin(rep, 'sibling', 'a', a, 'b', b, case, pair)
    n += twin(rep, 'sibling', 'b', b, 'a', a, case, lambda: pair(True))
    n += twin(rep, 'class', 'a', a, ctor['cls'], prep.classes[ctor['cls']], case, inst_cls)
    n += twin(rep, 'class', ctor['cls'], prep.classes[ctor['cls']], 'a', a, case, lambda: inst_cls(True))
    if ctor['kind'] == 'linker':
        a, b = pair()
        before = hc.observe(b)
        a.submodels['NEW'] = prep.classes['M'](range(3))
        n += 1
        if hc.observe(b) != before:
            violate(rep, 'sibling-shares:submodels', f'sibling: a.submodels[k] = model (linkers built with {ctor}) '
                    f'changed what is observed through b', dict(case, pair=['sibling', 'a', 'b'],
                                                                 mutation='api:submodels-setitem'))
    rep.dist[f"ctor-defaults:{ctor['kind']}:{len(ctor['given'])} of the optional arguments given"
             + (f":submodels {ctor['sub']}" if ctor['kind'] == 'linker' else '')] += 1
    return n


def fixed_scenarios_(ctx, rep, batch):
    """Seed-independent part: every class style x mixin combination, every copy route, siblings and class."""
    for style in ['container', 'parser', 'explicit', 'inherit']:
        for alias in (False, True):
            for tracer, tstyle in ((False, None), (True, 'own'), (True, 'class'), (True, 'user')):
                if style == 'container' and tracer:
                    continue
                spec = {'kind': 'container' if style == 'container' else 'model', 'style': style, 'script': 1,
                        'alias': alias, 'tracer': tracer}
                cname = 'V' if style == 'container' else 'M'
                prog = [{'c': 'new', 'r': 'a', 'cls': cname, 'span': {'list': ['p0', 'p1', 'p2']}},
                        {'c': 'new', 'r': 'b', 'cls': cname, 'span': {'range': 3}}]
                if style != 'container':
                    names = list(getattr(build_class(spec, 'tmp'), 'NAMES', []))
                    if alias:
                        spec['aliases'] = {'AL1': names[0]}
                        spec['preferred'] = ['AL1']
                    if tracer:
                        spec['trace_style'] = tstyle
                        if tstyle == 'class':
                            spec['trace_vars'] = names[:1]
                        nn = {'own': len(names), 'class': 1, 'user': 1}[tstyle]
                        for r in ('a', 'b'):
                            op = {'o': 'traceT', 't': 1, 'src': tstyle, 'cls': cname, 'fresh': True, 'label': 'start',
                                  'n': nn}
                            if tstyle == 'user':
                                op['items'] = names[:1]
                            prog.append({'c': 'op', 'r': r, 'op': op})
                elif alias:
                    spec['aliases'] = {'AA': 'A0'}
                    spec['preferred'] = ['AA']
                prog.append({'c': 'op', 'r': 'a', 'op': {'o': 'addAttrList', 'x': 'lstA', 'items': ['u']}})
                prog += nested_attr_cmds('a')
                prog.append({'c': 'copy', 'r': 'c0', 'of': 'a', 'route': 'method'})
                prog.append({'c': 'snap', 'roots': ['a', 'b', 'c0', cname]})
                case = {'classes': {cname: spec}, 'prog': prog, 'roots': ['a', 'b', 'c0'], 'ncopies': 1}
                with pristine_globals():
                    run_fixed(ctx, rep, case, batch)
                rep.case(json.dumps(case, sort_keys=True), nontrivial=True)
                rep.dist['fixed:' + style + (':alias' if alias else '') + (':tracer-' + tstyle if tracer else '')] += 1
    # linkers
    for lstyle in ('explicit', 'inherit'):
        for alias in (False, True):
            classes = {'M': {'kind': 'model', 'style': 'parser', 'script': 0, 'alias': False, 'tracer': False},
                       'L': {'kind': 'linker', 'style': lstyle, 'alias': alias}}
            prog = [{'c': 'new', 'r': 'a', 'cls': 'M', 'span': {'range': 3}},
                    {'c': 'new', 'r': 'b', 'cls': 'M', 'span': {'range': 3}},
                    {'c': 'dict', 'r': 'd', 'entries': [['A', 'a'], ['B', 'b']]},
                    {'c': 'new', 'r': 'l', 'cls': 'L', 'span': {'range': 3}, 'sub': 'd'},
                    {'c': 'op', 'r': 'l', 'op': {'o': 'inSub', 'key': 'A', 'op': {'o': 'addVariable', 'x': 'V9', 'n': 3,
                                                                                       'model': True}}},
                    ] + nested_attr_cmds('l') + nested_attr_cmds('a') + [
                    {'c': 'copy', 'r': 'c0', 'of': 'l', 'route': 'copy.deepcopy'},
                    {'c': 'snap', 'roots': ['l', 'c0', 'M', 'L']}]
            case = {'classes': classes, 'prog': prog, 'roots': ['a', 'b', 'l', 'c0'], 'ncopies': 1}
            with pristine_globals():
                run_fixed(ctx, rep, case, batch)
            rep.case(json.dumps(case, sort_keys=True), nontrivial=True)
            rep.dist['fixed:linker:' + lstyle + (':alias' if alias else '')] += 1


def replay(ctx, rep, case):
    """Re-run the recorded case; only the recorded (pair, mutation) counts (the known findings fire on every case)."""
    import framework
    with pristine_globals():
        try:
            prep = Prepared(case)
            w, full, real = run_case(case, prep)
        except Exception as e:   # noqa: BLE001
            print('  program raised:', type(e).__name__, e)
            if not diagnose_raise(rep, case, prep, e):
                print('  (not attributable to shared state)')
            return
        tmp = framework.Report()
        CAP[0] = 10 ** 9
        try:
            oracle(tmp, case, prep, forms='all')
        finally:
            CAP[0] = 6
        for v in tmp.violations:
            same = (v['case'].get('pair') == case.get('pair') and v['case'].get('mutation') == case.get('mutation')
                    and v['case'].get('resync') == case.get('resync')
                    and (v['case'].get('behaviour') or [None])[0] == (case.get('behaviour') or [None])[0]
                    and v['case'].get('failed_copy') == case.get('failed_copy'))
            if same or 'pair' not in case:
                rep.violate(v['key'], v['what'], v['case'])
        print('  impl :', real[:300])
        try:
            out = ctx.drive([hc.line(full)])[0]
            print('  model:', model_snaps(out)[0][:300])
        except Exception as e:  # noqa: BLE001
            print('  model: <driver unavailable>', e)
