"""C16 — eval() and the time-series helpers compute what their definitions say."""
import ast, copy, itertools, json, warnings

import numpy as np

import fsic
import fsic.functions as F
from fsic.core.containers import VectorContainer
import b2_common as bc
from b2_common import line, fcanon, bits

ID = 'C16'
LEAN_MODULE = 'Proofs.C16'
THEOREMS = ['Fsic.C16.' + n for n in [
    'lag_spec', 'lead_eq_lag_neg', 'lead_spec', 'diff_spec', 'diff_zero', 'diff_neg', 'diff_full_false_at_witness',
    'diff_spec_partial', 'dlog_def', 'dlog_spec', 'length_preserved', 'lag_out_of_range', 'lag_zero', 'lag_lag', 'lag_lead_not_inverse', 'lag_lead_pure', 'diff_pure', 'dlog_pure',
    'positional_group_verbatim', 'positional_untouched', 'segments_cover', 'positional_expression_identity',
    'no_backtick_identity', 'resolve_index_label', 'bound_positional', 'resolve_labels_spec',
    'resolve_labels_spec_step', 'mixed_slice_positional_start', 'mixed_slice_positional_stop',
    'builtin_spans_python_int',
    'missing_label_keyerror', 'namespace_precedence', 'eval_no_mutation', 'undefined_name_attributeError',
    'eval_depends_only_on_final_store', 'earlier_evals_do_not_matter', 'rebind_then_eval']]
RULE = ('helpers: every length n in 0..6 x value patterns (distinct floats, NaN/inf/-0.0, positive, ints) x every '
        'p, d in [-n-1, n+1] (and the default) x fills {default NaN, 0.0, -1.5, int 7, NaN; ints for int arrays} x '
        '{lag, lead, diff, dlog} - exhaustive, seed-independent. eval: (1) every bracket text over a 10-character '
        'alphabet up to length 5 (quick) / 6 (thorough) through the index rewriting on a list span; (2) random '
        'expressions over variables, helpers, positional indexes/slices, backticked label indexes/slices, spellings '
        'with blanks, missing labels, undefined names, over 13 span types; (3) every combination of helper / '
        'variable / caller-local bindings of a name; (4) undefined names at edit distance 1-2 from, and far from, the '
        'variables of containers that are empty, single-variable, have names differing only by case, names that are '
        'prefixes of each other, names equal to helper names; (5) variable-name pools include names of class members '
        '(size, values, copy, eval, reindex, NAMES, LAGS ...) and underscore twins (Tw/_Tw/__Tw), on containers, models, '
        'pandas-mixin models and linkers; (6) histories: eval -> whole-series rebinding (list / tuple / range by attribute, '
        'item, replace_values), in-place changes, values setter, add_variable, copy(), reindex() -> eval again, each eval '
        'compared with the reference evaluation on the CURRENT series (and the version of the array eval is bound to with '
        'the Lean history model); (7) layout variants of every kind of expression that Python\'s eval accepts and that cannot '
        'change the value: leading blanks / tabs, trailing blanks / newline, redundant parentheses, newlines and line '
        'continuation inside parentheses, wide operators; (8) dtype-sensitive expressions over int64 / uint8 / int32 / bool / '
        'float32 / str series (integer division, %, bit operations, ~, boolean masks, an int series as index, comparisons, '
        'integers beyond 2**53, mixed-dtype arithmetic, helpers on int / bool / str series): result dtype, shape and bytes '
        'equal NumPy on the stored series, same error class. distinct = distinct (function, array, shift, fill) or distinct '
        '(span type, length, expression); non-trivial = the call returns a value')
TRUSTED = ['NumPy float64 subtraction is IEEE-754 (mirrored by Lean Float in the driver instance); np.log is an input '
           'to the dlog model (the harness sends NumPy\'s own log values)',
           'Python == between labels: labels cross to the model as classes (str / equal-to-an-int / other)',
           'pandas Index.__contains__ and get_loc are inputs to the eval-index model for pandas spans (table)',
           'CPython eval(): the meaning of the rewritten expression text is Python\'s; the harness evaluates the '
           'model\'s rewritten text with Python and compares values with container.eval()',
           "Python's re engine: the functional reading of r'\\[\\s*(.+?)?\\s*\\]' is tied to it by exhaustive short strings"]
ASSUMPTIONS = ['1-D arrays (other ranks raise NotImplementedError; the property is silent)',
               'ASCII expressions', 'fill values representable in the array dtype',
               'diff with d < 0 raises NotImplementedError: the property speaks only about d >= 0']

META = {
    "text": "Theorems for arrays of every length, every integer shift, every fill and element type: lag(x,p)[i] = x[i-p] inside / fill outside through the model of np.roll + Python slice assignment; lead = lag(-p); diff for d >= 1; dlog = diff(log x) and its pointwise form; length preserved; |p| >= n gives an all-fill array, p = 0 the input, same-direction lags compose to the lag by the sum (opposite directions do not: witness); over a memory of array cells no helper writes to a pre-existing array (input never modified). For eval: a backticked label resolves to the position label indexing uses, label slices get an inclusive stop, every bracket group without a backtick is left verbatim wherever it stands in an expression (positional_untouched, full strength) and a backtick-free component of a mixed slice keeps its text (stop+1 only for a resolved label stop), precedence locals > variables > helpers, the package helper table is not written when builtins is None. FALSE of the code and proved as a negation at a witness with a _partial theorem (d >= 1): diff(x,0) returns x.",
    "design_ref": "DESIGN.md §5 M6, §6 C16, §7 rows 12-13",
    "note": "Trusted: Lean kernel; axioms propext/Classical.choice/Quot.sound; the correspondence harness; NumPy float subtraction = IEEE; np.log, CPython eval, the re engine, pandas get_loc/in are inputs or tied by exhaustive comparison only. The model is tied to fsic/functions.py and VectorContainer.eval/_resolve_expression_indexes by exact comparison on the generated cases, not for all inputs. That the model's segmentation of an expression is what Python's re finds is covered by the exhaustive correspondence only. Known finding: diff-d0 (open); eval-positional-stop-shifted and eval-positional-nonliteral were fixed in /repo 98e0a48 - their oracle keys stay, so a regression is a new VIOLATION.",
    "technique": "Lean 4 proof (list lemmas for roll/slice-assign, memory-cell frame lemmas, case analysis of the index rewriting) + exhaustive differential correspondence + property oracle"
}

FNS = ['lag', 'lead', 'diff', 'dlog']

# ======================================================================================================================
# Part 1: time-series helpers
# ======================================================================================================================

FLOAT_PATTERNS = {
    'distinct': [1.5, -2.0, 4.25, 0.5, 8.0, 3.0],
    'special': [float('nan'), 1.0, float('inf'), -0.0, 2.5, float('-inf')],
    'positive': [1.0, 2.0, 4.0, 0.5, 3.0, 10.0],
}
INT_PATTERN = [3, -1, 4, 1, -5, 9]
NOFILL = object()


def ts_cases(max_n):
    for n in range(0, max_n + 1):
        shifts = [None] + list(range(-n - 1, n + 2))
        for pat, vals in FLOAT_PATTERNS.items():
            for fn in FNS:
                for p in shifts:
                    for fill in (NOFILL, 0.0, -1.5, 7, float('nan')):
                        yield {'kind': 'ts', 'fn': fn, 'dtype': 'f', 'pattern': pat, 'n': n, 'p': p,
                               'fill': None if fill is NOFILL else ('int7' if fill == 7 and isinstance(fill, int) else bits(fill))}
        for fn in ('lag', 'lead', 'diff'):
            for p in shifts:
                for fill in (0, -1, 7):
                    yield {'kind': 'ts', 'fn': fn, 'dtype': 'i', 'pattern': 'int', 'n': n, 'p': p, 'fill': fill}


def ts_input(case):
    n = case['n']
    if case['dtype'] == 'i':
        return np.array(INT_PATTERN[:n], dtype=np.int64)
    return np.array(FLOAT_PATTERNS[case['pattern']][:n], dtype=float)


def ts_fill(case):
    f = case['fill']
    if case['dtype'] == 'i':
        return f
    if f is None:
        return NOFILL
    if f == 'int7':
        return 7
    return bc.unbits(f)


def canon_arr(a, dtype):
    if dtype == 'i':
        return [str(int(v)) for v in a.tolist()]
    return [fcanon(v) for v in a.tolist()]


def ts_run_impl(case):
    x = ts_input(case)
    fill = ts_fill(case)
    kw = {} if fill is NOFILL else {'fill_value': fill}
    args = () if case['p'] is None else (case['p'],)
    with warnings.catch_warnings():
        warnings.simplefilter('ignore')
        try:
            r = getattr(F, case['fn'])(x, *args, **kw)
            tag = 'ok'
        except NotImplementedError:
            r, tag = None, 'NotImplementedError'
        except Exception as e:  # noqa: BLE001
            r, tag = None, 'error:' + bc.exc_class(e)
    return x, r, tag


def expected_lag(x, p, fill):
    n = len(x)
    return [x[i - p] if 0 <= i - p < n else fill for i in range(n)]


def ts_oracle(case, x_before, x_after, r, tag, rep):
    """The property text, directly: lag(x,p)[i] = x[i-p] inside / fill outside; lead(x,p) = lag(x,-p);
    diff(x,d)[i] = x[i]-x[i-d] for i >= d >= 0, fill before; dlog = diff(log x); same length; input unmodified."""
    fn, dt = case['fn'], case['dtype']
    p = 1 if case['p'] is None else case['p']
    fill = ts_fill(case)
    fillv = (float('nan') if fill is NOFILL else fill)
    if canon_arr(x_after, dt) != canon_arr(x_before, dt):
        bc.violate(rep, 'helper-modifies-input', f'{fn}: input array changed by the call', case)
    if fn in ('diff', 'dlog') and p < 0:
        return 'silent'
    if tag != 'ok':
        bc.violate(rep, f'{fn}-raises', f'{fn}(x, {p}) raised {tag}', case)
        return 'raised'
    if r.shape != x_before.shape:
        bc.violate(rep, f'{fn}-length', f'{fn}: result shape {r.shape} != input shape {x_before.shape}', case)
        return 'bad-length'
    with warnings.catch_warnings():
        warnings.simplefilter('ignore')
        base = x_before
        if fn == 'dlog':
            base = np.log(x_before)
        xs = base.tolist()
        if fn == 'lag':
            want = expected_lag(xs, p, fillv)
        elif fn == 'lead':
            want = expected_lag(xs, -p, fillv)
        else:
            arr = np.array(xs, dtype=base.dtype)
            want = [(arr[i] - arr[i - p]) if i >= p else fillv for i in range(len(xs))]
    wantc = canon_arr(np.array(want, dtype=r.dtype) if len(want) else np.array([], dtype=r.dtype), 'f' if r.dtype.kind == 'f' else 'i')
    gotc = canon_arr(r, 'f' if r.dtype.kind == 'f' else 'i')
    if wantc != gotc:
        if fn in ('diff', 'dlog') and p == 0:
            bc.violate(rep, 'diff-d0', f'{fn}(x, 0) returned {gotc}, the property says x - x = {wantc}', case)
            return 'known'
        bc.violate(rep, f'{fn}-wrong', f'{fn}(x, {p}, fill={fillv}) = {gotc}, expected {wantc}', case)
        return 'wrong'
    return 'holds'


def ts_request(case):
    x = ts_input(case)
    p = 1 if case['p'] is None else case['p']
    fill = ts_fill(case)
    if case['dtype'] == 'i':
        return line('ts', {'fn': case['fn'], 'dtype': 'i', 'x': [int(v) for v in x], 'p': p, 'fill': int(fill)})
    with warnings.catch_warnings():
        warnings.simplefilter('ignore')
        logx = np.log(x)
    fv = float('nan') if fill is NOFILL else float(fill)
    return line('ts', {'fn': case['fn'], 'dtype': 'f', 'x': [bits(v) for v in x], 'p': p, 'fill': bits(fv),
                       'logx': [bits(v) for v in logx]})


def check_ts(ctx, rep, cases):
    impl = []
    for case in cases:
        x0 = ts_input(case)
        x, r, tag = ts_run_impl(case)
        regime = ts_oracle(case, x0, x, r, tag, rep)
        rep.dist[f'ts:{case["fn"]}:{regime}'] += 1
        if tag == 'ok':
            s = 'ok|' + ','.join(canon_arr(x, case['dtype'])) + '|' + ','.join(canon_arr(r, case['dtype'] if r.dtype.kind != 'f' else 'f'))
            rep.dist['ts:returns-input-itself' if r is x else 'ts:returns-new-array'] += 1
        else:
            s = tag
        impl.append(s)
        rep.case(('ts', json.dumps(case, sort_keys=True)), nontrivial=(tag == 'ok'),
                 sample={'fn': case['fn'], 'x': canon_arr(x0, case['dtype'])[:3], 'p': case['p'], 'impl': s[:80]}
                 if rep.evaluations % 1499 == 0 else None)
    if not ctx.oracle_only:
        outs = ctx.drive([ts_request(c) for c in cases])
        for case, m, i in zip(cases, outs, impl):
            # the model also says whether the result is the input itself ('same'/'new'); the property allows either
            mm = m.split('|')
            mcanon = 'ok|' + mm[2] + '|' + mm[3] if mm[0] == 'ok' and len(mm) == 4 else m
            if mcanon != i:
                rep.disagree(f'{case["fn"]}: model != impl', case, m, i)


# ======================================================================================================================
# Part 2: eval — index rewriting
# ======================================================================================================================

DIRECT_ALPHABET = ['[', ']', ' ', '\n', '`', ':', '1', '-', 'a', '_']
DIRECT_SPAN = ['a', 1, '1', 11, -1, 'aa']
VALUES = {'X': [1.0, 2.5, -3.0, 4.0, 0.5, 6.0, 7.25], 'Y': [10.0, 11.0, 12.5, 13.0, 14.0, 15.5, 16.0],
          'Z': [1.0, 2.0, 4.0, 0.5, 3.0, 10.0, 8.0]}


ROWS = [VALUES['X'], VALUES['Y'], VALUES['Z']]
# variable-name pools: ordinary names; names of members of the classes (legal variable names - only a careless
# getattr(self, name) confuses them); underscore twins (`Tw` is stored under '_Tw', which is also the NAME of `_Tw`)
EVAL_NAME_SETS = [['X', 'Y', 'Z'], ['X', 'Y', 'Z'], ['size', 'values', 'copy'], ['eval', 'reindex', 'nbytes'],
             ['NAMES', 'LAGS', 'CODE'], ['Tw', '_Tw', '__Tw'], ['to_dataframe', '_X', 'X']]
OBJTYPES = ['container', 'container', 'model', 'pandas_model', 'linker']
_CLASSES = {}


def object_class(objtype):
    if objtype not in _CLASSES:
        base = fsic.build_model(fsic.parse_model('YY = 0.5 * GG + 0.25 * YY[-1]'))
        if objtype == 'pandas_model':
            from fsic.extensions.model import PandasIndexFeaturesMixin

            class PandasModel(PandasIndexFeaturesMixin, base):
                pass
            _CLASSES[objtype] = PandasModel
        else:
            _CLASSES[objtype] = base
    return _CLASSES[objtype]


def make_object(objtype, kind, n, span=None, names=None):
    """A container / model / pandas-mixin model / linker over the given span with three float variables."""
    span = span if span is not None else bc.make_span(kind, n)
    names = ['X', 'Y', 'Z'] if names is None else names
    if objtype == 'container':
        c = VectorContainer(span)
    elif objtype == 'linker':
        c = fsic.BaseLinker({'A': object_class('model')(span)})
    else:
        c = object_class(objtype)(span)
    for k, v in zip(names, ROWS):
        c.add_variable(k, v[:n], dtype=float)
    return c


_ALLOWED = {}


def usable_names(objtype, names):
    """`names` with every name the object type refuses as a variable (e.g. `LAGS` on a linker, which stores `_LAGS`)
    replaced by the ordinary name of that position."""
    out = []
    for i, nm in enumerate(names):
        key = (objtype, nm)
        if key not in _ALLOWED:
            try:
                o = make_object(objtype, 'range', 2, names=[])
                o.add_variable(nm, 0.0)
                _ALLOWED[key] = True
            except Exception:  # noqa: BLE001
                _ALLOWED[key] = False
        out.append(nm if _ALLOWED[key] else 'XYZ'[i])
    return out


def make_container(kind, n, span=None, names=None, objtype='container'):
    return make_object(objtype, kind, n, span=span, names=names)


def series_of(c):
    """The CURRENT series of an object, read from its storage (not through __getitem__)."""
    return {k: c.__dict__['_' + k] for k in c.__dict__['index']}


def canon_text(t):
    """Meaning of a rewritten expression: its AST (formatting such as `[1:3:]` vs `[1:3]` is not compared)."""
    try:
        return ast.dump(ast.parse(t.strip(), mode='eval'))
    except (SyntaxError, ValueError, RecursionError, MemoryError):
        return 'SYNTAX-ERROR'


def err_canon(e):
    return 'err:KeyError' if isinstance(e, KeyError) else 'err:other'


def model_canon(reply):
    if reply.startswith('ok:'):
        return 'ok:' + canon_text(json.loads(reply[3:]))
    return 'err:KeyError' if reply == 'err:KeyError' else 'err:other'


def check_direct(ctx, rep, max_len):
    """Every bracket text up to `max_len` through `_resolve_expression_indexes` on a list span."""
    c = make_container('mixed', len(DIRECT_SPAN), span=list(DIRECT_SPAN))
    method = getattr(c, '_resolve_expression_indexes', None)
    if method is None or ctx.oracle_only:
        rep.notes.append('direct index-rewriting comparison skipped (method absent or oracle-only run)')
        return
    labels = bc.Labels()
    span_json = {'kind': 'list', 'labels': [labels.lab(x) for x in DIRECT_SPAN]}
    exprs = []
    for L in range(0, max_len + 1):
        for t in itertools.product(DIRECT_ALPHABET, repeat=L):
            exprs.append('X[' + ''.join(t))
    impl = []
    for e in exprs:
        try:
            impl.append('ok:' + canon_text(method(e)))
        except Exception as ex:  # noqa: BLE001
            impl.append(err_canon(ex))
    outs = ctx.drive([line('evalidx', {'span': span_json, 'expr': e, 'direct': True}) for e in exprs])
    for e, m, i in zip(exprs, outs, impl):
        mc = model_canon(m)
        rep.dist['direct:' + (i if i.startswith('err') else 'ok')] += 1
        if mc != i:
            rep.disagree('_resolve_expression_indexes: model != impl', {'kind': 'direct', 'expr': e}, m, i)
    rep.case(('direct', max_len), nontrivial=True, n=len(exprs),
             sample={'direct-expr': exprs[len(exprs) // 2], 'impl': impl[len(exprs) // 2][:80]})


# ---- random expressions ------------------------------------------------------------------------------------------------

def olag(x, p, fill=np.nan):
    return np.array(expected_lag(list(x), p, fill), dtype=float)


def odiff(x, d, fill=np.nan):
    x = np.asarray(x, dtype=float)
    return np.array([x[i] - x[i - d] if i >= d else fill for i in range(len(x))], dtype=float)


ORACLE_NS = {'olag': olag, 'odiff': odiff, 'np': np}


class ExprGen:
    """Builds an fsic expression together with an *oracle expression*: the same arithmetic, in which every index is
    spelled positionally with the positions the property says it means, and helpers are the formulas of the
    property text.  `features` records which index spellings occur (they select the known-finding key)."""

    def __init__(self, rng, kind, n, span, names=None):
        self.rng, self.kind, self.n, self.span = rng, kind, n, span
        self.names = names or ['X', 'Y', 'Z']
        self.objs = list(span)
        self.texts = bc.label_texts(kind, span)
        self.spellable = [i for i, t in enumerate(self.texts) if t is not None]
        self.features = set()
        self.period_texts = set()

    def pad(self, s):
        r = self.rng.random()
        return s if r < 0.7 else (' ' + s if r < 0.8 else (s + ' ' if r < 0.9 else ' ' + s + '  '))

    def bt(self, j, inner_pad=False):
        t = self.texts[j]
        self.period_texts.add(t)
        return '`' + t + '`'

    def var(self):
        return self.rng.choice(self.names)

    def scalar(self):
        r = self.rng.random()
        v = self.var()
        if r < 0.15:
            k = self.rng.choice(['2', '0.5', '3'])
            return k, k
        if r < 0.45 or not self.spellable:
            k = self.rng.randrange(-self.n, self.n)
            self.features.add('pos-index')
            return f'{v}[{self.pad(str(k))}]', f"V['{v}'][{k}]"
        if r < 0.55:
            a = self.rng.randrange(0, self.n)
            b = self.rng.randrange(0, self.n - a)
            self.features.add('pos-nonliteral')
            return f'{v}[{a}+{b}]', f"V['{v}'][{a + b}]"
        j = self.rng.choice(self.spellable)
        self.features.add('label-index')
        return f'{v}[{self.pad(self.bt(j))}]', f"V['{v}'][{j}]"

    def full(self):
        r = self.rng.random()
        v = self.var()
        if r < 0.4:
            return v, f"V['{v}']"
        k = self.rng.randrange(-self.n - 1, self.n + 2)
        if r < 0.55:
            return f'lag({v}, {k})', f"olag(V['{v}'], {k})"
        if r < 0.65:
            return f'lag({v})', f"olag(V['{v}'], 1)"
        if r < 0.75:
            return f'lead({v}, {k})', f"olag(V['{v}'], {-k})"
        if r < 0.85:
            d = self.rng.randrange(1, self.n + 2)
            return f'diff({v}, {d})', f"odiff(V['{v}'], {d})"
        if r < 0.92:
            d = self.rng.randrange(1, 3)
            z = self.names[2]   # the positive series
            return f'dlog({z}, {d})', f"odiff(np.log(V['{z}']), {d})"
        return f'exp({v})', f"np.exp(V['{v}'])"

    def slice_term(self, i, j, s):
        """One spelling of "positions i..j inclusive, step s"."""
        v = self.var()
        n = self.n
        step_txt = '' if s is None else str(s)
        both_spellable = self.texts[i] is not None and self.texts[j] is not None
        r = self.rng.random()
        otext = f"V['{v}'][{i}:{j + 1}:{s if s is not None else 1}]"
        if r < 0.12 and self.texts[j] is not None:
            self.features.add('mixed-pos-start-label-stop')
            istr = str(i)
            if self.rng.random() < 0.3:   # a positional start that is an expression, not a literal
                istr = f'{i}+0'
                self.features.add('pos-nonliteral')
            txt = f'{self.pad(istr)}:{self.pad(self.bt(j))}' + (f':{step_txt}' if s is not None else '')
            return f'{v}[{txt}]', otext
        if r < 0.24 and self.texts[i] is not None:
            self.features.add('mixed-label-start-pos-stop')
            jstr = str(j + 1)
            if self.rng.random() < 0.3:
                jstr = f'{j}+1'
                self.features.add('pos-nonliteral')
            txt = f'{self.pad(self.bt(i))}:{self.pad(jstr)}' + (f':{step_txt}' if s is not None else '')
            return f'{v}[{txt}]', otext
        if r < 0.55 and both_spellable:
            self.features.add('label-stop')
            a, b = self.bt(i), self.bt(j)
            if i == 0 and self.rng.random() < 0.3:
                a = ''
            txt = f'{self.pad(a)}:{self.pad(b)}' + (f':{step_txt}' if s is not None or self.rng.random() < 0.2 else '')
            return f'{v}[{txt}]', otext
        if r < 0.68 and self.texts[i] is not None and j == n - 1:
            self.features.add('label-start-open-stop')
            txt = f'{self.bt(i)}:' + (f':{step_txt}' if s is not None else '')
            return f'{v}[{txt}]', otext
        if j == n - 1 and self.rng.random() < 0.5:
            self.features.add('pos-slice-open')
            txt = f'{i}:' + (f':{step_txt}' if s is not None else '')
            return f'{v}[{txt}]', otext
        self.features.add('pos-slice-stop')
        txt = f'{self.pad(str(i))}:{j + 1}' + (f':{step_txt}' if s is not None else '')
        return f'{v}[{txt}]', otext

    def build(self):
        rng = self.rng
        shape = rng.choice(['scalar', 'full', 'full', 'slice', 'slice'])
        k = rng.choice([1, 2, 2, 3, 4])
        terms = []
        if shape == 'slice':
            i = rng.randrange(0, self.n)
            j = rng.randrange(i, self.n)
            s = rng.choice([None, None, 1, 2, 3])
            for _ in range(rng.choice([1, 1, 2])):
                terms.append(self.slice_term(i, j, s))
        elif shape == 'full':
            for _ in range(rng.choice([1, 2])):
                terms.append(self.full())
        while len(terms) < k:
            terms.append(self.scalar())
        rng.shuffle(terms)
        text, otext = terms[0]
        for t, o in terms[1:]:
            op = rng.choice(['+', '-', '*'])
            if rng.random() < 0.2:
                text, otext = f'({text})', f'({otext})'
            text, otext = f'{text} {op} {t}', f'{otext} {op} {o}'
        return text, otext


LAYOUTS = ['none', 'lead-space', 'lead-tab', 'lead-mixed', 'trail-space', 'trail-newline', 'parens', 'parens-newlines',
           'wide-operators', 'continuation-in-parens', 'lead-and-trail']


def apply_layout(text, layout):
    """Layout variants that Python's own eval() accepts and that cannot change the value of an expression."""
    if layout == 'lead-space':
        return '  ' + text
    if layout == 'lead-tab':
        return '\t' + text
    if layout == 'lead-mixed':
        return ' \t ' + text
    if layout == 'trail-space':
        return text + '   '
    if layout == 'trail-newline':
        return text + '\n'
    if layout == 'parens':
        return '(' + text + ')'
    if layout == 'parens-newlines':
        return '(\n  ' + text + '\n)'
    if layout == 'wide-operators':
        return text.replace(' + ', '  +\t').replace(' * ', '\t*  ')
    if layout == 'continuation-in-parens':
        return '(' + text.replace(' + ', ' +\n    ').replace(' - ', '\n    - ') + ')'
    if layout == 'lead-and-trail':
        return '\t ' + text + ' \n'
    return text


def values_equal(a, b):
    a, b = np.asarray(a), np.asarray(b)
    if a.shape != b.shape:
        return False
    try:
        return bool(np.array_equal(a, b, equal_nan=True))
    except TypeError:
        return bool(np.array_equal(a, b))


def finding_key(case):
    """Key from the *input* (which spellings occur), so that a failure outside these classes keeps its own key."""
    f = set(case['features'])
    has_bt = '`' in case['expr']
    if has_bt and 'pos-slice-stop' in f:
        return 'eval-positional-stop-shifted'
    if has_bt and 'pos-nonliteral' in f:
        return 'eval-positional-nonliteral'
    return None


def positions_by_label_indexing(c, kind, n):
    """For pandas spans the oracle takes positions from the container's own label indexing (the property's
    words); for list-like and NumPy spans from `list(span).index`."""
    return None


def run_eval(c, expr, **kw):
    with warnings.catch_warnings():
        warnings.simplefilter('ignore')
        try:
            return 'ok', c.eval(expr, warnings_='ignore', **kw)
        except Exception as e:  # noqa: BLE001
            return 'exc', e


def state_of(c):
    return json.dumps(bc.snapshot(c), sort_keys=True, default=str)


def builtins_state():
    return [(k, id(v)) for k, v in F.builtins.items()]


def eval_oracle(case, c, rep, outcome=None):
    """container.eval(expr) == what Python/NumPy computes for the expression the property says it means."""
    V = {k: np.array(row[:case['n']], dtype=float) for k, row in zip(case.get('names') or ['X', 'Y', 'Z'], ROWS)}
    with warnings.catch_warnings():
        warnings.simplefilter('ignore')
        want = eval(case['otext'], dict(ORACLE_NS), {'V': V})  # noqa: S307 (oracle text is generated by this module)
    before, bbefore = state_of(c), builtins_state()
    tag, got = outcome if outcome is not None else run_eval(c, case['expr'])
    if state_of(c) != before:
        bc.violate(rep, 'eval-mutates-container', 'container state changed by eval()', case)
    if builtins_state() != bbefore:
        bc.violate(rep, 'eval-mutates-helper-table', 'fsic.functions.builtins changed by eval()', case)
    if tag == 'ok' and values_equal(got, want):
        return 'holds', (tag, got)
    key = finding_key(case)
    what = (f'eval({case["expr"]!r}) on a {case["span_kind"]} span ' +
            (f'raised {type(got).__name__}: {got}' if tag == 'exc' else f'= {np.asarray(got).tolist()}') +
            f'; the property says {np.asarray(want).tolist()} (= {case["otext"]})')
    bc.violate(rep, key or ('eval-raises' if tag == 'exc' else 'eval-value-mismatch'), what, case)
    return ('known' if key else 'wrong'), (tag, got)


def eval_request(case, span, labels):
    return line('evalidx', {'span': bc.span_payload(case['span_kind'], span, labels, case.get('period_texts', [])),
                            'expr': case['expr']})


def model_vs_impl_eval(case, c, reply, outcome, rep):
    """The model's rewritten text, evaluated by Python with the same bindings, must agree with container.eval."""
    tag, got = outcome
    if reply.startswith('err:'):
        kind = reply[4:]
        if kind == 'unmodelled':
            rep.dist['eval:unmodelled'] += 1
            return
        ok = tag == 'exc' and (isinstance(got, KeyError) if kind == 'KeyError' else True)
        if not ok:
            rep.disagree('eval: model predicts an exception', case, reply, f'{tag}:{got!r}'[:200])
        return
    text = json.loads(reply[3:])
    ns = dict(F.builtins)
    ns.update(series_of(c))
    with warnings.catch_warnings():
        warnings.simplefilter('ignore')
        try:
            mval = ('ok', eval(text, {'np': np}, ns))  # noqa: S307
        except Exception as e:  # noqa: BLE001
            mval = ('exc', e)
    if mval[0] != tag or (tag == 'ok' and not values_equal(mval[1], got)):
        rep.disagree('eval: value of the model\'s rewritten expression != container.eval', case,
                     f'{text!r} -> {mval[0]}:{np.asarray(mval[1]).tolist() if mval[0] == "ok" else repr(mval[1])}'[:300],
                     f'{tag}:{np.asarray(got).tolist() if tag == "ok" else repr(got)}'[:300])


def gen_eval_case(rng, kind=None, n=None):
    kind = kind or rng.choice(bc.span_kinds())
    n = n or rng.choice([2, 3, 4, 5, 6])
    if kind == 'mixed':
        n = min(n, len(bc.MIXED))
    span = bc.make_span(kind, n)
    objtype = rng.choice(OBJTYPES)
    names = usable_names(objtype, rng.choice(EVAL_NAME_SETS))
    g = ExprGen(rng, kind, n, span, names)
    text, otext = g.build()
    layout = rng.choice(LAYOUTS) if rng.random() < 0.5 else 'none'
    text = apply_layout(text, layout)
    return {'kind': 'eval', 'span_kind': kind, 'n': n, 'expr': text, 'otext': otext, 'names': names,
            'objtype': objtype, 'layout': layout,
            'features': sorted(g.features), 'period_texts': sorted(g.period_texts)}


SPECIAL_EXPRS = [
    # (expression, oracle text or None, what) — hand-picked spellings from the docstring and the boundary cases
    ('X[`{l1}`] + Y[0:2]', "V['X'][1] + V['Y'][0:2]", ['label-index', 'pos-slice-stop']),
    ('X[`{l1}`] + Y[1+1]', "V['X'][1] + V['Y'][2]", ['label-index', 'pos-nonliteral']),
    ('X[`{l1}`:`{l2}`]', "V['X'][1:3]", ['label-stop']),
    ('X[:`{l2}`]', "V['X'][0:3]", ['label-stop']),
    ('X[`{l1}`:]', "V['X'][1:]", ['label-start-open-stop']),
    ('X[`{l0}`:`{l3}`:2]', "V['X'][0:4:2]", ['label-stop']),
    ('X[ `{l1}` ] * Y[-1]', "V['X'][1] * V['Y'][-1]", ['label-index', 'pos-index']),
    ('X[`{l2}`] + Y[::2][0]', "V['X'][2] + V['Y'][::2][0]", ['label-index', 'pos-slice-open']),
    ('lag(X)[`{l1}`] + diff(Y, 1)[`{l2}`]', "olag(V['X'], 1)[1] + odiff(V['Y'], 1)[2]", ['label-index']),
    ('X[1:`{l3}`] + Y[`{l1}`:4]', "V['X'][1:4] + V['Y'][1:4]", ['mixed-pos-start-label-stop', 'mixed-label-start-pos-stop']),
    ('X[`{l1}`:-1] * Y[ 1 : `{l3}` : 1 ]', "V['X'][1:-1] * V['Y'][1:4:1]", ['mixed-pos-start-label-stop', 'mixed-label-start-pos-stop']),
    ('X[`{l1}`] + Y[[0, 2]][1] + Z[-3:-1][0]', "V['X'][1] + V['Y'][[0, 2]][1] + V['Z'][-3:-1][0]", ['label-index', 'pos-slice-stop', 'pos-nonliteral']),
    ('X[1+0:`{l3}`] + Y[`{l1}`:2+2]', "V['X'][1:4] + V['Y'][1:4]", ['mixed-pos-start-label-stop', 'mixed-label-start-pos-stop', 'pos-nonliteral']),
    ('X[0:2] + Y[1:3]', "V['X'][0:2] + V['Y'][1:3]", []),
    ('X[1+1] - Z[-1]', "V['X'][2] - V['Z'][-1]", []),
]


def special_cases():
    for kind in bc.span_kinds():
        n = 5
        span = bc.make_span(kind, n)
        texts = bc.label_texts(kind, span)
        if any(t is None for t in texts[:4]):
            continue
        for expr, otext, feats in SPECIAL_EXPRS:
            e = expr.format(l0=texts[0], l1=texts[1], l2=texts[2], l3=texts[3])
            for layout in (LAYOUTS if kind in ('range', 'period_Q', 'np_int') else ['none']):
                yield {'kind': 'eval', 'span_kind': kind, 'n': n, 'expr': apply_layout(e, layout), 'otext': otext,
                       'features': feats, 'period_texts': texts[:4], 'layout': layout}


def check_eval_cases(ctx, rep, cases):
    labels = bc.Labels()
    reqs, held = [], []
    for case in cases:
        span = bc.make_span(case['span_kind'], case['n'])
        c = make_container(case['span_kind'], case['n'], span=span, names=case.get('names'), objtype=case.get('objtype', 'container'))
        regime, outcome = eval_oracle(case, c, rep)
        rep.dist[f'eval:{bc.span_family(case["span_kind"])}:{regime}'] += 1
        for f in case['features']:
            rep.dist['eval-feature:' + f] += 1
        rep.dist['eval-layout:' + case.get('layout', 'none')] += 1
        rep.case(('eval', case['span_kind'], case['n'], case['expr']), nontrivial=(outcome[0] == 'ok'),
                 sample={'span': case['span_kind'], 'expr': case['expr'], 'means': case['otext']}
                 if rep.evaluations % 701 == 0 else None)
        reqs.append(eval_request(case, span, labels))
        held.append((case, c, outcome))
    if not ctx.oracle_only:
        outs = ctx.drive(reqs)
        for (case, c, outcome), reply in zip(held, outs):
            model_vs_impl_eval(case, c, reply, outcome, rep)


# ---- errors, missing labels, undefined names ---------------------------------------------------------------------------

def check_errors(ctx, rep):
    labels = bc.Labels()
    reqs, held = [], []
    for kind in bc.span_kinds():
        n = 4
        span = bc.make_span(kind, n)
        c = make_container(kind, n, span=span)
        texts = [t for t in bc.label_texts(kind, span) if t is not None]
        missing = ['zzz', '1066', '30000101']
        for m in missing:
            for expr in (f'X[`{m}`]', f'X[`{m}`:]', f'Y + X[:`{m}`]', f'  X[`{m}`]', f'(\nY + X[:`{m}`]\n)'):
                case = {'kind': 'eval-missing', 'span_kind': kind, 'n': n, 'expr': expr, 'period_texts': texts + missing}
                before, bbefore = state_of(c), builtins_state()
                tag, got = run_eval(c, expr)
                # label indexing with a label that is not in the span raises KeyError; eval must select "exactly the
                # positions that label indexing selects", i.e. none: KeyError as well
                try:
                    c['X', m]
                    ref = 'value'
                except KeyError:
                    ref = 'KeyError'
                except Exception as e:  # noqa: BLE001
                    ref = 'other:' + bc.exc_class(e)
                if ref == 'KeyError' and not (tag == 'exc' and isinstance(got, KeyError)):
                    bc.violate(rep, 'eval-missing-label', f'eval({expr!r}) on a {kind} span: label indexing raises KeyError, '
                                f'eval gave {tag}: {got!r}', case)
                if state_of(c) != before or builtins_state() != bbefore:
                    bc.violate(rep, 'eval-mutates-on-error', 'state changed by a failing eval()', case)
                rep.case(('missing', kind, expr), nontrivial=False)
                rep.dist['eval:missing-label:' + ('KeyError' if tag == 'exc' and isinstance(got, KeyError) else tag)] += 1
                reqs.append(eval_request({'span_kind': kind, 'expr': expr, 'period_texts': texts + missing}, span, labels))
                held.append((case, c, (tag, got)))
        # undefined names are reported as AttributeError naming them
        for name, expr in (('Q', 'X + Q'), ('Qq', 'Qq'), ('W', 'lag(W, 1) + X'), ('Q', 'X[`%s`] * Q' % (texts[0] if texts else 'a'))):
            if '`' in expr and not texts:
                continue
            case = {'kind': 'eval-undefined', 'span_kind': kind, 'n': n, 'expr': expr, 'name': name}
            before, bbefore = state_of(c), builtins_state()
            tag, got = run_eval(c, expr)
            if not (tag == 'exc' and isinstance(got, AttributeError) and name in str(got)):
                bc.violate(rep, 'eval-undefined-name', f'eval({expr!r}): expected AttributeError naming {name!r}, got {tag}: {got!r}', case)
            if state_of(c) != before or builtins_state() != bbefore:
                bc.violate(rep, 'eval-mutates-on-error', 'state changed by a failing eval()', case)
            rep.case(('undefined', kind, expr), nontrivial=False)
            rep.dist['eval:undefined-name'] += 1
    if not ctx.oracle_only:
        outs = ctx.drive(reqs)
        for (case, c, outcome), reply in zip(held, outs):
            model_vs_impl_eval(case, c, reply, outcome, rep)


# ---- undefined names: every container shape x names near to and far from its variables -----------------------------------

NAME_SETS = [
    [], ['X'], ['GDP', 'gdp'], ['C', 'c', 'Y'], ['X', 'x', 'Xx', 'xX'], ['Y', 'YD', 'YDX'], ['lag', 'log', 'X'],
    ['Cons', 'cons', 'CONS', 'Inv'], ['a', 'A', 'aa', 'AA', 'b'],
]
FAR_NAMES = ['Qzzz', 'totally_unrelated_9', 'W']


def _reserved():
    import builtins as pyb, keyword
    import fsic.core.containers as cc
    return set(dir(pyb)) | set(keyword.kwlist) | set(vars(cc).keys()) | set(F.builtins.keys())


def near_names(names):
    """Identifiers at edit distance 1-2 from the variable names (and from their case variants)."""
    out = []
    for n in names:
        cands = [n + '_', '_' + n, n + n[-1], n[:-1], n.swapcase(), n.capitalize(), n.lower() + '_', n.upper() + '1',
                 n[0] + 'q' + n[1:], n + 'x']
        for c in cands:
            if c and c not in out:
                out.append(c)
    return out


def undefined_cases():
    reserved = _reserved()
    for names in NAME_SETS:
        for u in near_names(names) + FAR_NAMES:
            if not u.isidentifier() or u in reserved or u in names:
                continue
            templates = ['{u}', '{u} + 1', 'lag({u})', ' {u} + 1', '\t{u}', '(\n{u}\n)', '{u} \n']
            if names:
                templates.append(names[0] + ' * {u}')
            for t in templates:
                yield {'kind': 'eval-undefined', 'names': names, 'name': u, 'expr': t.format(u=u)}


def undefined_run(case):
    c = VectorContainer(range(2000, 2004))
    for i, nm in enumerate(case['names']):
        c.add_variable(nm, [float(i + 1)] * 4)
    before, bbefore = state_of(c), builtins_state()
    tag, got = run_eval(c, case['expr'])
    changed = state_of(c) != before or builtins_state() != bbefore
    return c, tag, got, changed


def undefined_oracle(case, tag, got, changed, rep):
    """'an undefined name is reported as AttributeError naming it' - for every container and every undefined name."""
    if not (tag == 'exc' and isinstance(got, AttributeError) and case['name'] in str(got)):
        bc.violate(rep, 'eval-undefined-name',
                   f'container with variables {case["names"]}: eval({case["expr"]!r}) should raise AttributeError naming '
                   f'{case["name"]!r}; got {tag}: {type(got).__name__ if tag == "exc" else ""} {got!r}'[:400], case)
    if changed:
        bc.violate(rep, 'eval-mutates-on-error', 'container or fsic.functions.builtins changed by a failing eval()', case)


def check_undefined(ctx, rep):
    reqs, held = [], []
    for case in undefined_cases():
        c, tag, got, changed = undefined_run(case)
        undefined_oracle(case, tag, got, changed, rep)
        rep.case(('undefined', tuple(case['names']), case['expr']), nontrivial=False)
        closest = getattr(c, 'get_closest_match', None)
        try:
            sugg = list(closest(case['name'])) if closest is not None else None
        except Exception:  # noqa: BLE001
            sugg = None
        rep.dist['eval:undefined:suggestions=' + ('?' if sugg is None else str(min(len(sugg), 2)) + ('+' if sugg and len(sugg) > 1 else ''))] += 1
        if sugg is not None and case['expr'].strip() == case['name']:
            reqs.append(line('evalname', {'helpers': sorted(F.builtins.keys()), 'vars': case['names'], 'locals': None,
                                          'name': case['name'], 'suggestions': sugg}))
            held.append((case, tag, got))
    if reqs and not ctx.oracle_only:
        for (case, tag, got), reply in zip(held, ctx.drive(reqs)):
            if tag == 'exc' and isinstance(got, AttributeError) and case['name'] in str(got):
                impl = 'AttributeError:' + case['name']
            else:
                impl = f'{tag}:{type(got).__name__}'
            if reply != impl:
                rep.disagree('eval of an undefined name: model != impl', case, reply, impl)


# ---- eval inside histories: "every variable name bound to its series" - the series as it is NOW -------------------------

HIST_OPS = ['attr_list', 'item_tuple', 'replace_range', 'values_matrix', 'elem', 'label', 'scalar', 'attr_array',
            'copy', 'reindex', 'add']
REBINDING = ('attr_list', 'item_tuple', 'replace_range')


def hist_exprs(names, texts):
    a, b, c = names[:3]
    out = [(a, f"V['{a}']"), (f'{a} + {b}', f"V['{a}'] + V['{b}']"),
           (f'lag({a}) * 2 - {c}', f"olag(V['{a}'], 1) * 2 - V['{c}']"), (f'{b}[1] + {a}[-1]', f"V['{b}'][1] + V['{a}'][-1]"),
           (f'diff({c}, 1) + {b}', f"odiff(V['{c}'], 1) + V['{b}']")]
    if texts and texts[1] is not None:
        out.append((f'{a}[`{texts[1]}`] * {b}', f"V['{a}'][1] * V['{b}']"))
    return out


def gen_history(rng, n, names, length):
    ops = []
    for _ in range(length):
        kind = rng.choice(HIST_OPS if rng.random() < 0.5 else list(REBINDING))
        nm = rng.choice(names[:3])
        vals = [round(rng.uniform(-9, 9), 2) for _ in range(n)]
        if kind == 'replace_range':
            ops.append([kind, nm, rng.randrange(-3, 4)])
        elif kind in ('elem', 'label'):
            ops.append([kind, nm, rng.randrange(n), vals[0]])
        elif kind == 'scalar':
            ops.append([kind, nm, vals[0]])
        elif kind in ('copy', 'reindex', 'values_matrix'):
            ops.append([kind])
        elif kind == 'add':
            ops.append([kind, 'W%d' % len(ops)])
        else:
            ops.append([kind, nm, vals])
    return ops


def apply_hist_op(c, op, n, labels):
    """Apply one op to the real object; returns the object to continue with (a copy / reindexed object for those)."""
    kind = op[0]
    if kind == 'attr_list':
        setattr(c, op[1], list(op[2]))
    elif kind == 'item_tuple':
        c[op[1]] = tuple(op[2])
    elif kind == 'replace_range':
        c.replace_values(**{op[1]: range(op[2], op[2] + n)})
    elif kind == 'attr_array':
        setattr(c, op[1], np.array(op[2], dtype=float))
    elif kind == 'values_matrix':
        c.values = c.values * 2 + 1
    elif kind == 'elem':
        c.__dict__['_' + op[1]][op[2]] = op[3]
    elif kind == 'label':
        c[op[1], labels[op[2]]] = op[3]
    elif kind == 'scalar':
        setattr(c, op[1], op[2])
    elif kind == 'add':
        c.add_variable(op[1], 1.5)
    elif kind == 'copy':
        return c.copy()
    elif kind == 'reindex':
        return c.reindex(c.span)
    return c


def eval_all(c, exprs, case, step, rep, who):
    """Every expression against the reference evaluation on the CURRENT series."""
    bad = 0
    V = {k: np.array(v, dtype=v.dtype, copy=True) for k, v in series_of(c).items()}
    for text, otext in exprs:
        with warnings.catch_warnings():
            warnings.simplefilter('ignore')
            want = eval(otext, dict(ORACLE_NS), {'V': V})  # noqa: S307
        tag, got = run_eval(c, text)
        if not (tag == 'ok' and values_equal(got, want)):
            bad += 1
            bc.violate(rep, 'eval-stale-after-history',
                       f'after step {step} ({who}) of the history, eval({text!r}) = '
                       f'{np.asarray(got).tolist() if tag == "ok" else repr(got)}; on the current series it is '
                       f'{np.asarray(want).tolist()}', dict(case, failed_step=step, failed_expr=text))
        rep.evaluations += 1
    return bad


MODEL_OP = {'attr_list': 'rebind', 'item_tuple': 'rebind', 'replace_range': 'rebind', 'elem': 'inplace',
            'label': 'inplace', 'scalar': 'inplace', 'attr_array': 'inplace'}


def model_ops(op, names):
    """The op as the Lean history model sees it (per variable)."""
    k = op[0]
    if k in MODEL_OP:
        return [[MODEL_OP[k], op[1]]]
    if k == 'values_matrix':
        return [['inplace', nm] for nm in names]
    if k == 'add':
        return [['add', op[1]]]
    return [['rebind', nm] for nm in names]      # copy / reindex: a new object, every series a new array


def run_history(case, rep, trace=None):
    """`trace` (a list) collects, per step, (model ops so far, queried name, version of the array eval returned)."""
    kind, n, names = case['span_kind'], case['n'], case['names']
    span = bc.make_span(kind, n)
    labels = list(span)
    c = make_object(case['objtype'], kind, n, span=span, names=names)
    exprs = hist_exprs(names, bc.label_texts(kind, span))
    bad = eval_all(c, exprs, case, 0, rep, 'initial')
    q = names[0]
    mops, seen = [], {0: c.__dict__['_' + q]}
    for step, op in enumerate(case['ops'], 1):
        with warnings.catch_warnings():
            warnings.simplefilter('ignore')
            try:
                c2 = apply_hist_op(c, op, n, labels)
            except NotImplementedError:     # e.g. BaseLinker.reindex
                continue
            except Exception:  # noqa: BLE001  (an assignment / copy / reindex that fails is another property's business)
                rep.dist['history:op-raised:' + op[0]] += 1
                break
        if c2 is not c:
            # the original must still evaluate on ITS series, the new object on its own
            bad += eval_all(c, exprs, case, step, rep, op[0] + ': original')
            c = c2
        bad += eval_all(c, exprs, case, step, rep, op[0])
        if trace is not None:
            mops.append(['eval'])
            for mo in model_ops(op, list(c.__dict__['index']) if op[0] in ('copy', 'reindex', 'values_matrix') else names):
                mops.append(mo)
                if mo[1] == q and mo[0] == 'rebind':
                    seen[len(mops)] = c.__dict__['_' + q]
            tag, got = run_eval(c, q)
            ver = [v for v, a in seen.items() if a is got] if tag == 'ok' else []
            trace.append((list(mops), q, str(max(ver)) if ver else f'{tag}:not-a-known-array'))
    return bad


def history_cases(ctx, n_random):
    kinds = ['range', 'list_str', 'np_int', 'period_Q', 'pd_int']
    # core: eval -> one rebinding op -> eval, for every op kind, object type and name pool
    for objtype in ('container', 'model', 'pandas_model', 'linker'):
        for names in (['X', 'Y', 'Z'], ['Tw', '_Tw', '__Tw']):
            for k, kind in enumerate(HIST_OPS):
                rng = ctx.sub_rng('hist-core', objtype, names[0], kind)
                ops = gen_history(rng, 4, names, 1)
                ops[0] = gen_one(rng, kind, 4, names)
                yield {'kind': 'eval-history', 'objtype': objtype, 'span_kind': kinds[k % len(kinds)], 'n': 4,
                       'names': usable_names(objtype, names), 'ops': ops + [gen_one(rng, REBINDING[k % 3], 4, names)]}
    rng = ctx.sub_rng('hist')
    for _ in range(n_random):
        objtype = rng.choice(OBJTYPES)
        names = usable_names(objtype, rng.choice([['X', 'Y', 'Z'], ['X', 'Y', 'Z'], ['Tw', '_Tw', '__Tw'], ['to_dataframe', '_X', 'X']]))
        n = rng.choice([3, 4, 5])
        yield {'kind': 'eval-history', 'objtype': objtype, 'span_kind': rng.choice(kinds), 'n': n, 'names': names,
               'ops': gen_history(rng, n, names, rng.choice([1, 2, 3, 4, 6]))}


def gen_one(rng, kind, n, names):
    for _ in range(200):
        op = gen_history(rng, n, names, 1)[0]
        if op[0] == kind:
            return op
    return ['copy']


def check_histories(ctx, rep):
    n_random = (250 if ctx.tier == 'quick' else 4000) * ctx.scale
    reqs, held = [], []
    for case in history_cases(ctx, n_random):
        trace = [] if not ctx.oracle_only else None
        bad = run_history(case, rep, trace)
        for mops, q, ver in trace or []:
            reqs.append(line('evalhist', {'helpers': sorted(F.builtins.keys()), 'vars': case['names'], 'ops': mops, 'name': q}))
            held.append((case, ver))
        rep.dist['history:' + case['objtype'] + (':stale' if bad else ':holds')] += 1
        for op in case['ops']:
            rep.dist['history-op:' + op[0]] += 1
        rep.case(('history', json.dumps(case, sort_keys=True)), nontrivial=True, n=0,
                 sample={'objtype': case['objtype'], 'names': case['names'], 'ops': [o[0] for o in case['ops']]}
                 if rep.dist['history-op:copy'] == 3 else None)
    if reqs:
        for (case, ver), reply in zip(held, ctx.drive(reqs)):
            if reply != ver:
                rep.disagree('eval after a history: version of the series the name is bound to, model != impl', case, reply, ver)


# ---- dtype-sensitive expressions: "what Python/NumPy computes with every name bound to its series" ----------------------

DT_VARS = [('N', [4, 1, 2, 0, 3, 5], np.int64), ('U', [250, 1, 2, 0, 3, 5], np.uint8), ('FLAG', [True, False, True, True, False, True], bool),
           ('X', [1.5, 2.5, -3.0, 4.0, 0.5, 6.0], float), ('H', [1.5, 100000.25, 0.1, 4.0, 1e-10, 6.0], np.float32),
           ('S', ['ab', 'c', 'de', 'f', 'gh', 'i'], '<U2'), ('BIG', [2 ** 53 + 1, 2 ** 62 + 1, -(2 ** 53) - 1, 7, 8, 9], np.int64),
           ('J', [1, 0, 2, 1, 0, 2], np.int32)]
DT_EXPRS = [
    'N', 'U', 'FLAG', 'H', 'S', 'BIG', 'N // 2', 'N % 3', 'N & 1', 'N | 8', 'N << 2', 'N >> 1', 'N ^ J', '~FLAG', '~N',
    'FLAG & (N > 1)', 'FLAG | ~FLAG', 'X[FLAG]', 'N[FLAG]', 'X[N[0]]', 'X[J]', 'X[J[1]:N[0]]', 'N > 2', 'N == J', 'S == "c"',
    'BIG - 2**53', 'BIG + 1', 'BIG // 3', 'N * X', 'N * 2', 'N / 2', 'N ** 2', 'U + 250', 'U * U', '-N', 'abs(-N)', 'H * 2',
    'H + X', 'H + N', 'sum(FLAG)', 'sum(N)', 'N[0] + N[-1]', 'N[1:3] * J[1:3]', 'FLAG[0]', 'int(N[2]) * "ab"', 'S + S',
    'lag(N, 1, fill_value=0)', 'lead(U, 2, fill_value=9)', 'diff(N, 1, fill_value=0)', 'lag(FLAG, 1, fill_value=False)',
    'lag(S, 1, fill_value="")', 'N[`{l1}`]', 'N[`{l1}`:`{l2}`] // 2', 'X[FLAG][0] + N[`{l0}`]', 'BIG[`{l0}`] - 2**53',
    '(N + J) % 2 == 0', 'FLAG * 1', 'N.dtype', 'U.astype(int) + 250', 'X[N // 2]',
]


def check_dtypes(ctx, rep):
    """Result dtype AND values equal what NumPy computes on the stored series; same error class."""
    kinds = ['range', 'list_str', 'period_Q', 'np_int', 'pd_int'] if ctx.tier == 'quick' else bc.span_kinds()
    for kind in kinds:
        if kind == 'mixed':
            continue
        for objtype in ('container', 'model', 'pandas_model', 'linker'):
            for n in (3, 6):
                span = bc.make_span(kind, n)
                texts = bc.label_texts(kind, span)
                if any(t is None for t in texts[:3]):
                    continue
                c = make_object(objtype, kind, n, span=span, names=[])
                for nm, vals, dt in DT_VARS:
                    c.add_variable(nm, vals[:n], dtype=dt)
                for tmpl in DT_EXPRS:
                    expr = tmpl.format(l0=texts[0], l1=texts[1], l2=texts[2])
                    ref = tmpl.format(l0='@0', l1='@1', l2='@2').replace('`@0`', '0').replace('`@1`:`@2`', '1:3').replace('`@1`', '1')
                    case = {'kind': 'eval-dtype', 'span_kind': kind, 'objtype': objtype, 'n': n, 'expr': expr, 'ref': ref}
                    dtype_oracle(case, c, rep)
                    rep.case(('dtype', kind, objtype, n, tmpl), nontrivial=True)


def dtype_oracle(case, c, rep):
    ns = dict(F.builtins)
    ns.update({k: v.copy() for k, v in series_of(c).items()})
    with warnings.catch_warnings():
        warnings.simplefilter('ignore')
        try:
            want = ('ok', eval(case['ref'], {'np': np}, ns))  # noqa: S307
        except Exception as e:  # noqa: BLE001
            want = ('exc', e)
    before, bbefore = state_of(c), builtins_state()
    tag, got = run_eval(c, case['expr'])
    if state_of(c) != before or builtins_state() != bbefore:
        bc.violate(rep, 'eval-mutates-container', 'state changed by eval()', case)
    if want[0] == 'exc':
        ok = tag == 'exc' and type(got) is type(want[1])
        rep.dist['eval-dtype:reference-raises'] += 1
    else:
        w, g = want[1], got
        ok = tag == 'ok' and type(g) is type(w)
        if ok and isinstance(w, (np.ndarray, np.generic)):
            ok = g.dtype == w.dtype and g.shape == w.shape and (
                np.asarray(g).tobytes() == np.asarray(w).tobytes() or values_equal(g, w))
        elif ok:
            ok = bool(g == w)
    if not ok:
        def show(t, v):
            if t == 'exc':
                return f'{type(v).__name__}: {v}'
            return f'{np.asarray(v).tolist()!r} ({getattr(v, "dtype", type(v).__name__)})'
        bc.violate(rep, 'eval-dtype-mismatch', f'eval({case["expr"]!r}) on a {case["objtype"]} = {show(tag, got)}; NumPy on the '
                   f'stored series gives {show(*want)}'[:500], case)
    rep.dist['eval-dtype:' + ('holds' if ok else 'wrong')] += 1


# ---- pandas partial-string labels (a year in a quarterly PeriodIndex, a month in a daily DatetimeIndex) -------------------

PARTIAL = [
    # (span kind, n, expression, variable, (start, stop, step) for label indexing or a single label, texts)
    ('period_Q', 12, 'X[`2001`] * 3', 'X', '2001', '* 3'),
    ('period_Q', 12, 'X[`2000Q2`:`2001`]', 'X', ('2000Q2', '2001', None), ''),
    ('period_Q', 12, 'X[`2001`:`2002Q3`:3]', 'X', ('2001', '2002Q3', 3), ''),
    ('period_Q', 12, 'X[:`2001:2]', 'X', (None, '2001', 2), ''),
    ('period_Q', 12, 'X[`2001`:]', 'X', ('2001', None, None), ''),
    ('period_Q', 12, 'X[`2001Q1`:`2001`] + 1', 'X', ('2001Q1', '2001', None), '+ 1'),
    ('period_Q', 12, 'X[`2000`:`2001`]', 'X', ('2000', '2001', None), ''),
    ('datetime', 6, 'X[`2000-02`]', 'X', '2000-02', ''),
    ('datetime', 6, 'X[`2000-01-31`:`2000-02`]', 'X', ('2000-01-31', '2000-02', None), ''),
    ('datetime', 6, 'X[`2000-01`:`2000-02-02`]', 'X', ('2000-01', '2000-02-02', None), ''),
]
PARTIAL_VALUES = [float(i) + 0.5 for i in range(12)]


def check_partial(ctx, rep):
    labels = bc.Labels()
    reqs, held = [], []
    for kind, n, expr, var, ref, tail in PARTIAL:
        span = bc.make_span(kind, n)
        c = VectorContainer(span)
        c.add_variable('X', PARTIAL_VALUES[:n], dtype=float)
        case = {'kind': 'eval-partial', 'span_kind': kind, 'n': n, 'expr': expr}
        with warnings.catch_warnings():
            warnings.simplefilter('ignore')
            try:   # the property: "select exactly the positions that label indexing selects"
                want = c[var, slice(*ref)] if isinstance(ref, tuple) else c[var, ref]
                want = eval('w ' + tail, {'w': want}) if tail else want  # noqa: S307
            except Exception as e:  # noqa: BLE001
                want = e
        before, bbefore = state_of(c), builtins_state()
        tag, got = run_eval(c, expr)
        if state_of(c) != before or builtins_state() != bbefore:
            bc.violate(rep, 'eval-mutates-container', 'state changed by eval()', case)
        if isinstance(want, Exception):
            rep.dist['eval:partial:reference-raises'] += 1
        elif not (tag == 'ok' and values_equal(got, want)):
            bc.violate(rep, 'eval-partial-label', f'eval({expr!r}) on a {kind} span gave {tag}: '
                       f'{np.asarray(got).tolist() if tag == "ok" else repr(got)}; label indexing selects {np.asarray(want).tolist()}', case)
        rep.dist['eval:partial'] += 1
        rep.case(('partial', kind, expr), nontrivial=(tag == 'ok'))
        texts = [t for t in (ref if isinstance(ref, tuple) else (ref,)) if isinstance(t, str)]
        reqs.append(eval_request({'span_kind': kind, 'expr': expr, 'period_texts': texts}, span, labels))
        held.append((case, c, (tag, got)))
    if not ctx.oracle_only:
        outs = ctx.drive(reqs)
        for (case, c, outcome), reply in zip(held, outs):
            model_vs_impl_eval(case, c, reply, outcome, rep)


# ---- namespace precedence ------------------------------------------------------------------------------------------------

def ns_cases():
    """Every way a name can be bound in the three layers (+ a caller-supplied `builtins`)."""
    for as_var in (False, True):
        for as_local in (False, True):
            for given in (None, [], ['lag']):
                yield {'kind': 'ns', 'name': 'lag', 'helper': True, 'var': as_var, 'local': as_local, 'builtins': given}
                yield {'kind': 'ns', 'name': 'W', 'helper': False, 'var': as_var, 'local': as_local, 'builtins': given}


def ns_run(case):
    n = 3
    c = VectorContainer(range(n))
    c.add_variable('X', [1.0, 2.0, 3.0])
    name = case['name']
    if case['var']:
        c.add_variable(name, [5.0, 6.0, 7.0])
    LOCAL, GIVEN = ('local-sentinel',), ('given-sentinel',)
    kw = {}
    if case['local']:
        kw['locals'] = {name: LOCAL}
    given = None
    if case['builtins'] is not None:
        given = {k: GIVEN for k in case['builtins']}
        kw['builtins'] = given
    before, bbefore = state_of(c), builtins_state()
    tag, got = run_eval(c, name, **kw)
    changed = state_of(c) != before
    bchanged = builtins_state() != bbefore
    if tag == 'exc':
        who = 'undefined' if isinstance(got, AttributeError) and name in str(got) else 'exc:' + bc.exc_class(got)
    elif got is LOCAL:
        who = 'local'
    elif got is GIVEN:
        who = 'given'
    elif isinstance(got, np.ndarray) and case['var'] and values_equal(got, [5.0, 6.0, 7.0]):
        who = 'var'
    elif callable(got):
        who = 'helper'
    else:
        who = 'other'
    return who, changed, bchanged, (callable(got) and got is F.builtins.get(name))


def check_ns(ctx, rep):
    cases = list(ns_cases())
    impl = []
    for case in cases:
        who, changed, bchanged, same_fn = ns_run(case)
        # the property: caller locals override variables, which override the built-in helpers; nothing is altered
        if case['builtins'] is None:
            want = 'local' if case['local'] else ('var' if case['var'] else ('helper' if case['helper'] else 'undefined'))
            if who != want:
                bc.violate(rep, 'eval-precedence', f'name bound as helper={case["helper"]} variable={case["var"]} '
                            f'local={case["local"]}: eval resolved it to {who}, expected {want}', case)
        if changed:
            bc.violate(rep, 'eval-mutates-container', 'container changed by eval()', case)
        if bchanged:
            bc.violate(rep, 'eval-mutates-helper-table', 'fsic.functions.builtins changed by eval()', case)
        impl.append(who)
        rep.dist['ns:' + who] += 1
        rep.case(('ns', json.dumps(case, sort_keys=True)), nontrivial=True)
    if not ctx.oracle_only:
        reqs = []
        for case in cases:
            helpers = sorted(F.builtins.keys())
            reqs.append(line('evalns', {'helpers': helpers, 'vars': ['X'] + ([case['name']] if case['var'] else []),
                                        'locals': [case['name']] if case['local'] else None,
                                        'builtins': case['builtins'], 'names': [case['name']]}))
        outs = ctx.drive(reqs)
        for case, m, i in zip(cases, outs, impl):
            mm = m.split('|')
            if mm[0] != i or mm[1] != 'pkg-unchanged':
                rep.disagree('eval namespace: model != impl', case, m, i)


# ======================================================================================================================

def run(ctx, rep):
    quick = ctx.tier == 'quick'
    # helpers: exhaustive
    cases = list(ts_cases(6))
    check_ts(ctx, rep, cases)
    rep.notes.append(f'helpers: {len(cases)} cases (exhaustive over n<=6, all shifts, fills, patterns)')
    # eval
    check_direct(ctx, rep, 5 if quick else 6)
    check_eval_cases(ctx, rep, list(special_cases()))
    n_random = (4000 if quick else 60000) * ctx.scale
    rng = ctx.sub_rng('eval')
    for chunk in range(0, n_random, 4000):
        check_eval_cases(ctx, rep, [gen_eval_case(rng) for _ in range(min(4000, n_random - chunk))])
    check_errors(ctx, rep)
    check_undefined(ctx, rep)
    check_partial(ctx, rep)
    check_dtypes(ctx, rep)
    check_histories(ctx, rep)
    check_ns(ctx, rep)
    rep.exhaustive = False


def replay(ctx, rep, case):
    """Re-run one stored case.  Violations that are open known findings are printed, not counted."""
    tmp = type(rep)()
    _replay(ctx, tmp, case)
    bc.transfer_new_violations(ID, tmp, rep)


def _replay(ctx, rep, case):
    k = case.get('kind')
    if k == 'ts':
        x0 = ts_input(case)
        x, r, tag = ts_run_impl(case)
        ts_oracle(case, x0, x, r, tag, rep)
        print('  impl :', tag, None if r is None else r.tolist())
        try:
            print('  model:', ctx.drive([ts_request(case)])[0])
        except Exception as e:  # noqa: BLE001
            print('  model: <driver unavailable>', e)
    elif k == 'eval':
        c = make_container(case['span_kind'], case['n'], names=case.get('names'), objtype=case.get('objtype', 'container'))
        regime, outcome = eval_oracle(case, c, rep)
        print('  impl :', outcome[0], outcome[1])
        try:
            span = bc.make_span(case['span_kind'], case['n'])
            print('  model:', ctx.drive([eval_request(case, span, bc.Labels())])[0])
        except Exception as e:  # noqa: BLE001
            print('  model: <driver unavailable>', e)
    elif k == 'ns':
        who, changed, bchanged, _ = ns_run(case)
        print('  impl :', who, 'container changed' if changed else '', 'helper table changed' if bchanged else '')
        if case['builtins'] is None:
            want = 'local' if case['local'] else ('var' if case['var'] else ('helper' if case['helper'] else 'undefined'))
            if who != want:
                bc.violate(rep, 'eval-precedence', f'resolved to {who}, expected {want}', case)
        if bchanged:
            bc.violate(rep, 'eval-mutates-helper-table', 'fsic.functions.builtins changed by eval()', case)
    elif k == 'eval-dtype':
        span = bc.make_span(case['span_kind'], case['n'])
        c = make_object(case['objtype'], case['span_kind'], case['n'], span=span, names=[])
        for nm, vals, dt in DT_VARS:
            c.add_variable(nm, vals[:case['n']], dtype=dt)
        dtype_oracle(case, c, rep)
    elif k == 'eval-history':
        print('  stale evaluations:', run_history(case, rep))
    elif k == 'eval-undefined' and 'names' in case:
        c, tag, got, changed = undefined_run(case)
        print('  impl :', tag, repr(got)[:200])
        undefined_oracle(case, tag, got, changed, rep)
    else:
        rep2 = type(rep)()
        check_errors(ctx, rep2)
        check_partial(ctx, rep2)
        for v in rep2.violations:
            if v['case'].get('expr') == case.get('expr') and v['case'].get('span_kind') == case.get('span_kind'):
                bc.violate(rep, v['key'], v['what'], v['case'])
