"""C01 — the generated model evaluates exactly the equations written in the script."""
import collections, copy, json, random, types, warnings

import numpy as np

import fsic  # noqa: F401  (imported from $FSIC_REPO / /repo by framework)
import gen_scripts as gs
import expr_common as ec

ID = 'C01'
LEAN_MODULE = 'Proofs.C01'
THEOREMS = ['Fsic.C01.' + n for n in [
    'parseExpr_map', 'parseStmt_code', 'parseStmt_equation', 'rest_untouched', 'index_denotes', 'index_injective',
    'term_read_exact', 'code_denotes_script', 'equation_denotes_script', 'equation_denotes_code',
    'replacement_exact', 'replacement_table', 'replacement_untouched', 'keywords_not_replaced', 'term_code_ignores_table',
    'evalPass_gauss_seidel', 'evalPass_append', 'assign_writes_lhs', 'evalPass_frame', 'reads_are_terms',
    'pass_reads_writes', 'rel_pos', 'evaluate_order_members', 'evaluate_order_sorted']]
RULE = ('programs of the gen_scripts grammar: exhaustive small statements (Y = t1 [op t2], calls; stress names x index '
        'forms x term kinds) under rotating LAYOUT_CATALOGUE entries, sampled larger programs (up to 7 equations, '
        'nesting <= 4, multi-line, random layouts), stress programs (two-digit lags/leads, function names that are '
        'prefixes/suffixes/namespaced versions of replaced ones, series NAMED exp/log/max/min/abs/np/sqrt/… but not '
        'called (hand-written and by renaming sampled programs), Gauss-Seidel chains in non-statement order), '
        'sub-streams with verbatim fragments, named periods and LHS offsets, regression cases of two repaired defects '
        '(constant sub-expressions that warn/raise are accepted and evaluated; variable/called-function clashes are '
        'rejected with ParserError), and a stream of still-open known-defect inputs. '
        'Each program x one finite data vector (regimes: moderate, underflow range, near-overflow, signed zeros, '
        'subnormals, huge/small mixes, integers; instance dtype float64 / float32 / int / object) x every feasible t, on '
        'ONE instance whose provenance (fresh, copy, '
        'reindexed) and per-series assignment history (list, tuple, scalar, ndarray, one ndarray for several series, '
        'another series own array, views, constructor keywords, replace_values, element-wise) vary; the pass is run '
        'by _evaluate and, when free of floating-point faults, also through solve_t for one iteration; the period and '
        'every scalar keyword are passed in varying forms (int / np.int64 / np.int32 / np.intp / np.int16, negative '
        'spelling, np.float64 / np.float32 tolerance, np.bool_ flag). distinct = distinct (script text); '
        'non-trivial = accepted program whose evaluation wrote a cell')
TRUSTED = ['CPython: the statement text means the assignment its `ast` shows (T compares the trees on every program)',
           'NumPy float64 scalar arithmetic is deterministic (the reference interpreter uses the same operations in '
           'the same order)',
           'IEEE-754 + - * / and comparisons in Lean `Float` equal NumPy float64 (eval_pass correspondence)',
           'text -> token tie (regex scanner, layouts) is established by the text-level model (C13/C14), here only '
           'checked through T on every generated text']
ASSUMPTIONS = ['feasible period: LAGS <= t < len(span) - LEADS', 'series hold finite floats',
               'the period is given as a Python int or a SIGNED NumPy integer scalar (np.int64/int32/intp/int16), in the '
               'non-negative or the negative spelling; counts/offset/tolerance/flags as Python or NumPy scalars. bool is '
               'not a period (as an index `True` broadcasts over the series on HEAD) and unsigned NumPy integers are not '
               '(t - k wraps in unsigned arithmetic): both are left out',
               'no variable shares its name with a function called in the same statement (such scripts must be rejected '
               'with ParserError; checked on every run); no whitespace between a name and its `[`; names do not start '
               'with an underscore (other than `_`); numeric literals have no exponent (the last three guards are '
               'violated by the code: exhibited as known findings on every run)']

META = {
    "text": "Token-level theorems for ALL statements, stores, periods and operator interpretations (Ops F is a parameter, so they hold for Python/NumPy float arithmetic): the parse tree of the generated statement and of the normalised equation is the parse tree of the script with each term replaced by its store access x[t+k] and each function name by its replacement (parseExpr_map, parseStmt_code/_equation); the printed index t, t+k, t-k evaluates to t+k (index_denotes); executing the code = the script's assignment (code_denotes_script, equation_denotes_script); replacement iff the whole dotted name is a key of the reflected table (replacement_exact/_table/_untouched, keywords_not_replaced); a pass is Gauss-Seidel in list order, writes only LHS cells, reads only cells of terms (evalPass_gauss_seidel, evalPass_frame, pass_reads_writes). The model is tied to fsic.parser/build_model by exact comparison of lexemes, Python ASTs, statement order in Model.CODE and bit-exact evaluation on every generated program; a reference interpreter over the grammar AST is the oracle.",
    "design_ref": "DESIGN.md §5 M4, §6 C01, §7 rows 10, 11",
    "note": "Token level: the text->token stage (regex scanner, all layouts) is covered here by the correspondence check only; its theorem (scan_render) belongs to the text-level model. Trusted: Lean kernel; propext/Classical.choice/Quot.sound; CPython's parser and NumPy scalar arithmetic; the harness. Open known findings (space before [, leading underscore, exponent literal) are reproduced on every run; the two repaired ones (statement executed by the syntax check; variable/called-function clash silently lost) are regression cases of the oracle.",
    "technique": "Lean 4 proof (parser/rewriting commutation by induction on fuel, structural induction on expressions, fold lemmas) + differential correspondence check + reference interpreter"
}

# Functions that exist only in the harness: injected into the globals of `_evaluate` so that names fsic must leave
# untouched can be evaluated and told apart from NumPy's functions of similar name.
EXTRA_FUNCS = {
    'log10': lambda x: x * 7.0 + 1.0,
    'explode': lambda x: x * 3.0 - 2.0,
    'xexp': lambda x: x / 3.0,
    'minimum2': lambda x, y: x - y,
    'maxi': lambda x, y: x + 2.0 * y,
}
# a harness-only namespace whose members are NAMED like the replaced functions but mean something else: `ns.exp(x)` must
# stay `ns.exp(x)` in the generated code ("namespaced functions are left untouched"), whatever its last component is
import types as _types
_NS = _types.SimpleNamespace(exp=lambda x: x * 5.0 - 1.0, log=lambda x: x / 7.0 + 2.0,
                             max=lambda x, y: x - 3.0 * y, min=lambda x, y: 2.0 * x + y)
_NS.sub = _types.SimpleNamespace(log=lambda x: x * 11.0, max=lambda x, y: x * 0.5 - y)
NS_FUNCS = {'ns.exp': _NS.exp, 'ns.log': _NS.log, 'ns.max': _NS.max, 'ns.min': _NS.min,
            'ns.sub.log': _NS.sub.log, 'ns.sub.max': _NS.sub.max}
EXTRA_FUNCS.update(NS_FUNCS)
EXTRA_FUNCS['ns'] = _NS
gs.FUNCS.update(EXTRA_FUNCS)
gs.FUNCS.setdefault('np.log10', np.log10)
gs.FUNCS.setdefault('np.exp', np.exp)
gs.FUNCS.setdefault('np.log', np.log)
gs.FUNCS.setdefault('np.minimum', np.minimum)

GENERIC_KEYS = ('rejected', 'lags-leads-too-short', 'data-not-as-assigned', 'solve_t-rejects-clean-pass', 'exception-mismatch', 'value-mismatch', 'write-outside-lhs', 'read-wrong-cell',
                'series-missing', 'equation-denotes-differently', 'equation-missing')


def mkcase(prog, text, wrap=False, tag=None, span=None, stream='', seed=''):
    return {'text': text, 'prog': ec.p2j(prog), 'wrap': bool(wrap), 'tag': tag, 'span': span, 'stream': stream,
            'data_seed': f'{seed}:{text}'}


# ---- streams -----------------------------------------------------------------------------------------------------

def V(name, ix=None):
    return gs.Term('var', name, ix)


def stress_programs():
    """Hand-picked shapes the property's `why_tests_cant` names: sign of a lead, two-digit lags, names ending in /
    starting with keywords, function names that are prefixes / suffixes / namespaced versions of replaced ones,
    two terms on a line, Gauss-Seidel chains whose symbol-list order differs from statement order."""
    B, C, N, T, I = gs.Bin, gs.Call, gs.Num, gs.Term, gs.IfElse
    Y = V('Y')
    out = []
    for k in (1, 2, 3, 9, 10, 11, 12, 25):
        out.append(gs.Program([gs.Equation(Y, B('+', V('X', k), V('X', -k)))]))
        out.append(gs.Program([gs.Equation(Y, B('-', T('param', 'a', -k), T('error', 'e', k)))]))
        out.append(gs.Program([gs.Equation(Y, B('*', V('Y', -k), V('X', k - 1)))]))
    for f in ('log10', 'explode', 'xexp', 'np.exp', 'np.log', 'np.log10', 'np.minimum', 'np.maximum', 'minimum2',
              'maxi', 'exp', 'log', 'max', 'min', 'abs', 'np.sqrt', 'ns.exp', 'ns.log', 'ns.max', 'ns.min',
              'ns.sub.log', 'ns.sub.max'):
        two = f in ('np.minimum', 'np.maximum', 'minimum2', 'maxi', 'max', 'min', 'ns.max', 'ns.min', 'ns.sub.max')
        args = (V('X', -1), V('Z')) if two else (V('X', -1),)
        out.append(gs.Program([gs.Equation(Y, B('+', C(f, args), N('1')))]))
        out.append(gs.Program([gs.Equation(Y, C('exp', (B('-', C(f, args), C('log', (V('W'),))),)))]))
        out.append(gs.Program([gs.Equation(Y, B('*', C(f, args), C('np.exp', (gs.Un('-', V('Z', 1)),))))]))
    # order: symbol-list order differs from statement order
    out.append(gs.Program([gs.Equation(V('A'), B('+', V('B'), V('C'))), gs.Equation(V('C'), B('*', V('A'), N('2'))),
                           gs.Equation(V('B'), B('-', V('C', -1), V('A', -1)))]))
    out.append(gs.Program([gs.Equation(V('Z'), B('+', V('Y'), V('X'))), gs.Equation(V('X'), B('*', V('W'), N('0.5'))),
                           gs.Equation(V('Y'), B('+', V('X'), V('Z', -1))), gs.Equation(V('W'), B('+', V('Z', -2), N('1')))]))
    out.append(gs.Program([gs.Equation(V('C'), B('*', T('param', 'alpha_1', None), V('YD'))),
                           gs.Equation(V('YD'), B('-', V('Y'), V('T'))), gs.Equation(V('Y'), B('+', V('C'), V('G'))),
                           gs.Equation(V('T'), B('*', T('param', 'theta', None), V('Y')))]))
    # series NAMED like functions but not called: ordinary series (`self._exp[t]`), never the replacement table
    P_, E_ = (lambda n, ix=None: T('param', n, ix)), (lambda n, ix=None: T('error', n, ix))
    out.append(gs.Program([gs.Equation(Y, B('+', B('*', N('2'), V('exp')), V('log', -1)))]))
    out.append(gs.Program([gs.Equation(V('Z'), B('+', B('*', P_('log'), V('X')), E_('exp')))]))
    out.append(gs.Program([gs.Equation(Y, B('+', V('max'), V('min', -1)))]))
    out.append(gs.Program([gs.Equation(V('max'), B('+', V('X'), N('1'))), gs.Equation(Y, B('*', V('max', -1), N('2')))]))
    out.append(gs.Program([gs.Equation(V('exp'), B('+', V('exp', -1), N('1')))]))
    out.append(gs.Program([gs.Equation(Y, B('+', B('+', V('abs'), V('np')), V('sqrt', 1)))]))
    out.append(gs.Program([gs.Equation(Y, B('*', V('np'), C('np.log', (V('X'),))))]))
    out.append(gs.Program([gs.Equation(Y, B('+', V('np', -1), N('1'))), gs.Equation(V('Z'), C('np.exp', (gs.Un('-', V('X')),)))]))
    out.append(gs.Program([gs.Equation(Y, B('*', C('exp', (V('log', -2),)), C('max', (P_('min', 1), E_('abs')))))]))
    out.append(gs.Program([gs.Equation(V('log'), B('-', P_('exp', -1), C('np.sqrt', (V('max', 10),)))),
                           gs.Equation(V('min'), B('*', V('log'), E_('float')))]))
    # {parameters} / <errors> named like Python keywords; max / min with three and more arguments
    out.append(gs.Program([gs.Equation(V('B'), B('*', V('V'), B('+', P_('lambda'), B('*', P_('mu'), V('R')))))]))
    out.append(gs.Program([gs.Equation(V('B'), B('-', B('+', B('*', V('V'), P_('del', -1)), E_('in')), E_('is', 1)))]))
    out.append(gs.Program([gs.Equation(Y, B('+', C('max', (P_('None'), E_('True', 1))), C('exp', (P_('lambda', -2),)))),
                           gs.Equation(V('Z'), B('*', Y, E_('for')))]))
    out.append(gs.Program([gs.Equation(Y, C('max', (V('A'), V('B'), V('C'))))]))
    out.append(gs.Program([gs.Equation(Y, C('min', (V('A'), V('B', -1), V('C', 1), N('4'))))]))
    out.append(gs.Program([gs.Equation(Y, B('+', C('max', (V('A'), V('B'), N('0.5'))), C('min', (N('2'), V('A', -1), V('B', 1), V('Y', -1), P_('a')))))]))
    out.append(gs.Program([gs.Equation(Y, C('max', (N('0.1'), V('X')))), gs.Equation(V('Z'), C('min', (V('X', -1), N('0.1'), Y)))]))
    # verbatim fragments whose text contains the pipeline's own markers, first / middle / last / several per statement
    Vb = gs.Verb
    for i, f in enumerate(ec.META_VERBS):
        g, h = ec.META_VERBS[(i + 7) % len(ec.META_VERBS)], ec.META_VERBS[(i + 13) % len(ec.META_VERBS)]
        out.append(gs.Program([gs.Equation(Y, B('+', Vb(f), B('==', V('X'), V('Z'))))]))
        out.append(gs.Program([gs.Equation(Y, B('+', B('*', V('X'), Vb(f)), V('Z', -1)))]))
        out.append(gs.Program([gs.Equation(Y, B('+', B('-', V('X', -1), T('param', 'a', None)), Vb(f)))]))
        out.append(gs.Program([gs.Equation(Y, B('+', B('+', B('*', Vb(f), V('X')), B('*', Vb(g), T('error', 'e', 1))), Vb(h)))]))
    # parameters / errors with offsets, keyword-ish names, lazy constructs
    out.append(gs.Program([gs.Equation(Y, B('+', B('*', T('param', 'in_', -2), V('is_open', 1)), T('error', 'eps_1', -1)))]))
    out.append(gs.Program([gs.Equation(Y, I(V('Pin', -1), B('and', B('>', V('not_X'), N('1')), B('<', V('orx', 1), N('2'))), V('For', -2)))]))
    out.append(gs.Program([gs.Equation(Y, I(V('A', 1), B('or', B('>', V('B'), N('2')), B('<', V('C', -1), N('1'))), V('D', -1)))]))
    out.append(gs.Program([gs.Equation(Y, I(N('1'), gs.Un('not', B('>', V('X'), N('1.5'))), N('2')))]))
    out.append(gs.Program([gs.Equation(Y, B('**', V('X', -1), gs.Un('-', N('2'))))]))
    out.append(gs.Program([gs.Equation(Y, gs.Un('-', B('**', V('X', 1), N('2'))))]))
    out.append(gs.Program([gs.Equation(Y, B('-', B('-', V('A'), V('B')), B('-', V('C'), V('D'))))]))
    out.append(gs.Program([gs.Equation(Y, B('/', B('/', V('A'), V('B')), B('*', V('C'), V('D'))))]))
    return out


FINDING_TAGS = ('space-before-index', 'underscore-name-mangled', 'exponent-literal', 'verbatim-brace-counted',
                'verbatim-paren-counted', 'verbatim-hash-is-comment')


def finding_cases(seed):
    """Inputs on which the code is known to break the property and that are still open (DESIGN §7 row 11 and two more)."""
    B, C, N = gs.Bin, gs.Call, gs.Num
    Y = V('Y')
    out = []

    def add(tag, prog, text=None):
        out.append(mkcase(prog, text if text is not None else gs.render(prog), tag=tag, stream='finding', seed=seed))
    add('space-before-index', gs.Program([gs.Equation(Y, V('W', 1))]), 'Y = W [1]')
    add('space-before-index', gs.Program([gs.Equation(Y, B('+', V('W', -1), V('X')))]), 'Y = W  [-1] + X')
    add('space-before-index', gs.Program([gs.Equation(Y, B('*', gs.Term('param', 'a', -2), V('X')))]), 'Y = {a} [-2] * X')
    for nm in gs.MANGLED_POOL:
        add('underscore-name-mangled', gs.Program([gs.Equation(Y, B('+', V(nm), N('1')))]))
    add('underscore-name-mangled', gs.Program([gs.Equation(V('_Y1'), B('*', V('X', -1), N('2')))]))
    add('verbatim-brace-counted', gs.Program([gs.Equation(Y, B('+', gs.Verb("len('{')"), V('X')))]))
    add('verbatim-brace-counted', gs.Program([gs.Equation(Y, B('*', V('X', -1), gs.Verb("len('}}')")))]))
    add('verbatim-paren-counted', gs.Program([gs.Equation(Y, B('+', gs.Verb("len('(')"), V('X')))]))
    add('verbatim-paren-counted', gs.Program([gs.Equation(Y, B('*', V('X', -1), gs.Verb("len(')')")))]))
    add('verbatim-hash-is-comment', gs.Program([gs.Equation(Y, B('+', gs.Verb("len('#')"), V('X')))]))
    add('verbatim-hash-is-comment', gs.Program([gs.Equation(Y, B('*', V('X', -1), gs.Verb("len('a # b')")))]))
    add('exponent-literal', gs.Program([gs.Equation(Y, B('*', N('1e5'), V('X')))]))
    add('exponent-literal', gs.Program([gs.Equation(Y, B('+', V('X'), N('2.5e-1')))]))
    return out


def regression_cases(seed):
    """Two defects repaired in /repo (a900a8c, 3f601b8), kept as ordinary oracle cases so that a regression is a new
    VIOLATION under the old key:
    * a script whose constant sub-expression warns or raises when executed on its own is plain valid input — accepted,
      and evaluated like any other (strict stream, reference interpreter; NaN / ZeroDivisionError on both sides);
    * a name that is both a variable and a function CALLED in the same statement is outside the grammar and must be
      REJECTED with ParserError — never a silently discarded statement or a model lacking the series."""
    B, C, N, I, U = gs.Bin, gs.Call, gs.Num, gs.IfElse, gs.Un
    Y = V('Y')
    out = []
    accepted = [
        gs.Program([gs.Equation(Y, B('+', C('log', (U('-', N('7')),)), V('X')))]),
        gs.Program([gs.Equation(Y, B('*', V('X'), B('/', N('1'), B('-', N('2'), N('2')))))]),
        gs.Program([gs.Equation(V('exp_'), C('log', (C('log', (C('log', (N('1'),)),)),)))]),
        gs.Program([gs.Equation(V('H_d'), C('np.sqrt', (U('-', B('*', N('2'), N('100.0'))),)))]),
        gs.Program([gs.Equation(V('maximum'), B('*', C('np.sqrt', (C('log', (I(V('G', 1), B('<=', N('3.25'), N('0.1')), N('0.1')),)),)),
                                                B('+', V('T'), V('G', -3)))),
                    gs.Equation(V('T'), B('-', V('maximum'), V('G')))]),
        gs.Program([gs.Equation(Y, B('+', B('/', N('1.5'), B('-', N('0.5'), N('0.5'))), V('X', -1))),
                    gs.Equation(V('Z'), B('*', Y, C('exp', (N('1000'),))))]),
    ]
    names = list(gs.LAYOUT_CATALOGUE)
    for i, prog in enumerate(accepted):
        for lname in ('plain', names[1 + i % (len(names) - 1)]):
            L = gs.catalogue_layout(lname, random.Random(f'r{i}:{lname}'))
            out.append(mkcase(prog, gs.render(prog, L), L.wrap_rhs, stream='regression:constant', seed=seed))
    clashes = [
        gs.Program([gs.Equation(V('log'), C('log', (V('X'),)))]),
        gs.Program([gs.Equation(Y, B('+', V('exp'), C('exp', (V('X'),))))]),
        gs.Program([gs.Equation(Y, B('+', C('exp', (V('X'),)), V('exp')))]),
        gs.Program([gs.Equation(Y, B('*', C('max', (V('X'), N('1'))), V('max', -1)))]),
        gs.Program([gs.Equation(Y, B('-', gs.Term('param', 'min', None), C('min', (V('X'), V('Z')))))]),
        gs.Program([gs.Equation(V('Z'), B('+', V('X'), N('1'))), gs.Equation(V('abs'), C('abs', (V('Z', -1),)))]),
    ]
    for prog in clashes:
        c = mkcase(prog, gs.render(prog), stream='regression:clash', seed=seed)
        c['expect_reject'] = 'function-name-collision'
        out.append(c)
    return out


def quick_cases(ctx):
    """All cases of a run, in a fixed order (exhaustive parts are seed-independent)."""
    seed = ctx.seed
    quick = ctx.tier == 'quick'
    cases = []
    names = list(gs.LAYOUT_CATALOGUE)
    # A. exhaustive small statements, rotating catalogue layouts (thorough: every layout)
    for i, prog in enumerate(gs.small_statements()):
        for j in (range(2) if quick else range(len(names))):
            lname = names[(i + 5 * j) % len(names)] if quick else names[j]
            L = gs.catalogue_layout(lname, random.Random(f'{i}:{lname}'))
            cases.append(mkcase(prog, gs.render(prog, L), L.wrap_rhs, stream='small:' + lname, seed=seed))
    # B. stress programs under every catalogue layout
    for i, prog in enumerate(stress_programs()):
        for lname in names:
            L = gs.catalogue_layout(lname, random.Random(f's{i}:{lname}'))
            cases.append(mkcase(prog, gs.render(prog, L), L.wrap_rhs, stream='stress:' + lname, seed=seed))
    # C. sampled larger programs
    rng = ctx.sub_rng('sampled')
    n_big = (4000 if quick else 25000) * ctx.scale
    cfg = gs.GenConfig(max_equations=12, max_depth=4, max_lag=3, max_lead=2)
    cfg_deep = gs.GenConfig(max_equations=12, max_depth=4, max_lag=12, max_lead=10)
    for i in range(n_big):
        prog = gs.gen_program(rng, cfg_deep if i % 4 == 0 else cfg)
        if i % 3 == 0:
            lname = names[i // 3 % len(names)]
            L = gs.catalogue_layout(lname, rng)
        else:
            lname = 'random'
            L = gs.random_layout(rng)
        cases.append(mkcase(prog, gs.render(prog, L), L.wrap_rhs, stream='sampled:' + lname, seed=seed))
        if i % 4 == 1:      # the same program with some series renamed to function-looking names it does not call
            prog2, used = ec.with_function_names(rng, prog)
            if used:
                cases.append(mkcase(prog2, gs.render(prog2, L), L.wrap_rhs, stream='fnames:' + lname, seed=seed))
        if i % 8 == 6:      # ... / with {parameters} and <errors> named like Python keywords ({lambda}, <in>, ...)
            prog2, used = ec.with_keyword_names(rng, prog)
            if used:
                cases.append(mkcase(prog2, gs.render(prog2, L), L.wrap_rhs, stream='kwnames:' + lname, seed=seed))
        if i % 8 == 2:      # ... / with identifiers of up to 64+ characters (shared 32/64-character prefixes)
            prog2 = ec.with_long_names(rng, prog)
            cases.append(mkcase(prog2, gs.render(prog2, L), L.wrap_rhs, stream='longnames:' + lname, seed=seed))
        if i % 4 == 3:      # ... / with inline verbatim fragments in every equation
            prog2 = ec.with_inline_verbatim(rng, prog)
            cases.append(mkcase(prog2, gs.render(prog2, L), L.wrap_rhs, stream='verbatim:' + lname, seed=seed))
    # scale: 50+ terms in one equation, 100+ equations
    for i in range((3 if quick else 40) * ctx.scale):
        for prog, kind in ((ec.many_terms_program(rng, rng.randint(50, 70)), 'many-terms'),
                           (ec.many_equations_program(rng, rng.randint(100, 130)), 'many-equations')):
            L = gs.random_layout(rng) if i % 2 else gs.PLAIN
            cases.append(mkcase(prog, gs.render(prog, L), L.wrap_rhs, stream='big:' + kind, seed=seed))
    # D. sub-streams: verbatim fragments, named periods, LHS offsets
    rng = ctx.sub_rng('sub')
    n_sub = (450 if quick else 5000) * ctx.scale
    labels_s = [str(2000 + i) for i in range(12)]
    labels_i = [2000 + i for i in range(12)]
    for i in range(n_sub):
        kind = i % 3
        if kind == 0:
            c = gs.GenConfig(max_equations=4, max_depth=3, allow_verbatim=True)
            span = None
        elif kind == 1:
            span = labels_s if i % 2 else labels_i
            c = gs.GenConfig(max_equations=3, max_depth=3, allow_named_periods=True, span_labels=span)
        else:
            c = gs.GenConfig(max_equations=4, max_depth=3, lhs_offsets=True)
            span = None
        prog = gs.gen_program(rng, c)
        L = gs.random_layout(rng)
        cases.append(mkcase(prog, gs.render(prog, L), L.wrap_rhs, span=span,
                            stream='sub:' + ('verbatim', 'named', 'lhs-offset')[kind], seed=seed))
    # E. repaired defects (regression cases), then the known-defect inputs that are still open
    cases += regression_cases(seed)
    cases += finding_cases(seed)
    return cases


# ---- the real code: observables + oracle ---------------------------------------------------------------------------

def evaluate_with(model, t, extra):
    """`model._evaluate(t)` with extra global names visible to the generated code (harness-only functions)."""
    orig = type(model)._evaluate
    if not extra or not isinstance(orig, types.FunctionType):
        return ec.run_evaluate(model, t)
    f = types.FunctionType(orig.__code__, {**orig.__globals__, **extra}, orig.__name__, orig.__defaults__, orig.__closure__)
    f.__kwdefaults__ = orig.__kwdefaults__
    try:
        with warnings.catch_warnings(), np.errstate(all='ignore'):
            warnings.simplefilter('ignore')
            f(model, t)
        return None
    except Exception as e:  # noqa: BLE001
        return type(e).__name__


def term_cells(prog, t, locate):
    cells = set()
    for st in ec.equations(prog):
        for term in gs.terms_of(st.rhs):
            cells.add((term.name, locate(term.index) if isinstance(term.index, str) else t + term.offset))
    return cells


def observe_(case, rep, want_impl=True):
    """Run the real code on one case: the oracle (property restated over the grammar AST) and, for T, the
    observables the model is compared with.  Returns the impl record (or None)."""
    prog = ec.j2p(case['prog'])
    text = case['text']
    tag = case.get('tag')
    eqs = ec.equations(prog)

    def violate(key, what):
        rep.violate(tag or key, what, case)

    exp = gs.expected_classes(prog)
    span = case.get('span')
    lags, leads = exp['lags'], exp['leads']
    n = len(span) if span else lags + leads + 3
    loc_term = ec.make_locate(span)
    data0, plan = ec.data_plan(case, prog, n)
    b = ec.Built(text)
    impl = {'error': b.error}
    rep.dist['stream:' + case['stream'].split(':')[0]] += 1
    if case.get('expect_reject'):
        # outside the grammar by the guard of the property: must be refused with the parser's own error
        rep.dist['clash:' + (b.error or 'accepted')] += 1
        if b.error != 'ParserError':
            got = f'raised {b.error}' if b.error else (
                'was accepted: symbols ' + ', '.join(f'{s.name}:{s.type.name}' for s in b.symbols if s.name) +
                f'; {len(b.endogenous())} equation(s) kept of {len(eqs)}')
            rep.violate(case['expect_reject'], 'a name used both as a variable and as a function called in the same '
                        'statement must be rejected with ParserError, but the script ' + got, case)
        rep.case(text, nontrivial=False)
        return None
    if b.error:
        if b.executed_at_parse() and ec.has_failing_constant(prog):
            rep.violate('constant-subexpression-executed', f'script inside the grammar rejected at parse time with {b.error}: a constant sub-expression raised/warned, '
                        f'i.e. the statement was EXECUTED by the syntax check (regression of a900a8c): {b.error_msg[:120]}', case)
            rep.case(text, nontrivial=False)
            return impl
        violate('rejected', f'program of the grammar rejected with {b.error}: {b.error_msg}')
        rep.case(text, nontrivial=False)
        return impl
    endo = b.endogenous()
    # -- T observables (texts, trees, order) --
    impl['eq'] = [ec.lex(endo[st.lhs.name].equation) if st.lhs.name in endo else None for st in eqs]
    impl['code'] = [ec.lex(endo[st.lhs.name].code) if st.lhs.name in endo else None for st in eqs]
    impl['tree'] = [ec.code_tree(endo[st.lhs.name].code) if st.lhs.name in endo else None for st in eqs]
    kwnamed = ec.keyword_named(prog)
    for nm in kwnamed:
        rep.dist['series-name:keyword:' + nm] += 1
    # a normalised equation with a keyword-named parameter/error (`lambda[t]`) is a label, not Python: its lexemes are
    # compared, its Python tree cannot be
    impl['eqtree'] = [None if kwnamed else ec.eq_tree(endo[st.lhs.name].equation) if st.lhs.name in endo else None
                      for st in eqs]
    body = ec.evaluate_body(b.Model)
    # statements of `_evaluate` that assign to a series (anything else in the template is not the property's business)
    impl['body'] = None
    if body is not None:
        trees = [ec.py_tree(node, src, 'code') for src, node in body]
        impl['body'] = [tr for tr in trees if tr[0] == 'assign' and isinstance(tr[1], list) and tr[1][0] in ('slot', 'item')]
    for st in eqs:
        if st.lhs.name not in endo:
            violate('equation-missing', f'no symbol carries an equation for {st.lhs.name!r}')
    missing = [nm for nm in data0 if nm not in b.Model.NAMES]
    if missing:
        violate('series-missing', f'model has no series for {missing}')
        rep.case(text, nontrivial=False)
        return impl
    # the class's own notion of a feasible period (LAGS <= t < n - LEADS) must cover every lag/lead written, otherwise
    # a period solve() accepts reads a wrapped-around (negative index) or out-of-span cell
    try:
        mlags, mleads = int(b.Model.LAGS), int(b.Model.LEADS)
        if not span and (mlags < lags or mleads < leads):
            violate('lags-leads-too-short', f'the script reads {lags} period(s) back and {leads} ahead but the class '
                    f'has LAGS={mlags}, LEADS={mleads}: at its first/last "feasible" period a term is not read at the '
                    'lag/lead written')
    except (AttributeError, TypeError, ValueError):
        violate('lags-leads-too-short', 'the class has no integer LAGS/LEADS')
    # -- S: every feasible period --
    shadowed = ec.shadowed_function_roots(prog)
    fl = sorted(set(data0) & set(ec.FUNCTION_LIKE))
    if fl:
        rep.dist['series-named-like-function'] += 1
        for nm in fl:
            rep.dist['series-name:' + nm] += 1
    for f in {f for st in eqs for f in ec.verbs_of(st.rhs)}:
        rep.dist['fragment:' + f] += 1
    wrote = False
    first = None
    # ONE instance for all periods, obtained and filled as the plan says (provenance; per series: list, tuple, ndarray,
    # one ndarray for several series, another series' own array, views, constructor keywords, replace_values, ...).
    # Whatever that history was, the instance now holds `data0` in separate series — that is all the property knows.
    rep.dist['regime:' + plan['regime']] += 1
    rep.dist['provenance:' + plan['prov'] + ('+copy' if plan['copy_after'] else '')] += 1
    rep.dist['share:' + (plan['share'][0] if plan['share'] else 'none')] += 1
    for md in set(plan['modes'].values()):
        rep.dist['fill:' + md] += 1
    rep.dist['dtype:' + plan['dtype']] += 1
    rep.dist['longest-name:' + ec.length_bucket(prog)] += 1
    want_dt = np.dtype(ec.DTYPES[plan['dtype']])
    try:
        m = ec.build_filled(b.Model, span if span else range(n), data0, plan)
        held = {nm: ec.as_float(m.__dict__['_' + nm]).copy() for nm in data0}
        bad = ec.same_arrays(data0, held)
        # {parameters} and <errors> are ordinary series: every series of the instance has the instance's dtype
        wrong = {nm: str(m.__dict__['_' + nm].dtype) for nm in m.names if m.__dict__['_' + nm].dtype != want_dt}
        if wrong:
            violate('series-dtype', f'instance created with dtype={plan["dtype"]} but series have {wrong}')
    except Exception as e:  # noqa: BLE001
        bad = [f'{type(e).__name__}: {e}']
    if bad:
        violate('data-not-as-assigned', f'after assigning the data ({plan["modes"]}, share {plan["share"]}, '
                f'{plan["prov"]}) the instance does not hold them: {bad[0]}')
        rep.case(text, nontrivial=False)
        return impl
    uses_extra = bool(ec.called_functions(prog) & set(EXTRA_FUNCS))
    for t in range(lags, n - leads):
        ref = {k: v.copy() for k, v in data0.items()}
        ec.restore(m, data0)
        log = []
        ec.install_recorders(m, log)        # wrapped AFTER the assignments: views of the very same buffers
        w_ref, r_ref, exc_ref = ec.run_reference(prog, ref, t, locate=loc_term, env={'self': m, 'len': len})
        faults = list(ec.run_reference.faults)
        del log[:]
        ar = random.Random(f"{case['data_seed']}:args:{t}") if case.get('vary', True) else None
        tlabel, t_eval = ec.period_arg(ar, t, n) if ar else ('int', t)
        rep.dist['t-form:' + tlabel] += 1
        exc = evaluate_with(m, t_eval, EXTRA_FUNCS)
        ec.remove_recorders(m)
        got = {nm: ec.as_float(m.__dict__['_' + nm]).copy() for nm in data0}
        reads = [(nm, ec.norm_pos(k, n)) for op, nm, k in log if op == 'r']
        writes = [(nm, ec.norm_pos(k, n)) for op, nm, k in log if op == 'w']
        if first is None and plan['dtype'] == 'float64':     # the Lean driver instance is IEEE double
            first = {'t': t, 'exc': exc, 'data': {nm: [ec.bits(x) for x in got[nm]] for nm in sorted(got)},
                     'reads': [list(c) for c in reads], 'writes': [list(c) for c in writes]}
        if exc != exc_ref:
            violate('exception-mismatch', f't={t}: evaluation raised {exc}, the script\'s meaning gives {exc_ref}')
            continue
        if exc is not None:
            continue
        diffs = ec.same_arrays(ref, got)
        if diffs:
            nm, p, a, c = diffs[0]
            lhs_cells = set(w_ref)
            key = 'value-mismatch' if (nm, p) in lhs_cells else 'write-outside-lhs'
            violate(key, f't={t}: {nm}[{p}] is {c!r} after _evaluate, the equations give {a!r} ({len(diffs)} cells differ)')
        bad_w = [c for c in writes if c not in set(w_ref)]
        if bad_w:
            violate('write-outside-lhs', f't={t}: wrote {bad_w[:4]}, left-hand-side cells are {sorted(set(w_ref))}')
        allowed = term_cells(prog, t, loc_term)
        bad_r = [c for c in reads if c not in allowed]
        if bad_r:
            violate('read-wrong-cell', f't={t}: read {bad_r[:4]}, the terms of the script are at {sorted(allowed)}')
        wrote = wrote or bool(w_ref)
        # the same pass through solve_t() with its default error handling: when the script's pass is free of
        # floating-point faults under NumPy's default error state (underflow is not one) and leaves finite values, one
        # iteration must complete and leave exactly the values of the pass
        clean = (not faults and exc_ref is None and not uses_extra and
                 all(np.all(np.isfinite(ec.as_float(v))) for v in ref.values()))
        if clean:
            ec.restore(m, data0)
            try:
                with warnings.catch_warnings():
                    warnings.simplefilter('ignore')
                    slabel, t_solve = ec.period_arg(ar, t, n) if ar else ('int', t)
                    klabels, kw = ec.solve_kwargs(ar) if ar else ([], {'max_iter': 1, 'failures': 'ignore'})
                    rep.dist['solve_t:t-form:' + slabel] += 1
                    for kl in klabels:
                        rep.dist['solve_t:' + kl] += 1
                    m.solve_t(t_solve, **kw)
                exc_s = None
            except Exception as e:  # noqa: BLE001
                exc_s = f'{type(e).__name__}: {str(e)[:120]}' + (f' <- {type(e.__cause__).__name__}: {e.__cause__}' if e.__cause__ else '')
            rep.dist['solve_t-route:checked'] += 1
            if exc_s is not None:
                violate('solve_t-rejects-clean-pass', f't={t}: the pass has no floating-point fault and finite results '
                        f'({plan["regime"]} data) but solve_t({t_solve!r} [{slabel}], {kw}) raised {exc_s}')
            else:
                d3 = ec.same_arrays(ref, {nm: ec.as_float(m.__dict__['_' + nm]).copy() for nm in data0})
                if d3:
                    nm, p, a, c = d3[0]
                    violate('value-mismatch' if (nm, p) in set(w_ref) else 'write-outside-lhs',
                            f't={t}: after solve_t(t, max_iter=1) {nm}[{p}] is {c!r}, one pass of the equations gives {a!r}')
        else:
            rep.dist['solve_t-route:skipped-' + ('fault' if faults else 'other')] += 1
        # normalised equations, evaluated by Python itself in symbol order, must give the same pass
        if shadowed or kwnamed:
            rep.dist['equation-text:skipped-' + ('series-shadows-called-function-root' if shadowed else 'keyword-named-series')] += 1
            continue
        env = {'exp': np.exp, 'log': np.log, 'max': max, 'min': min, 'abs': abs, 'np': np, 'float': float,
               'self': m, 'len': len}
        env.update(EXTRA_FUNCS)
        env.update({nm: ec.Ser(v.copy(), span) for nm, v in data0.items()})   # a series named `exp` is `exp[t]`
        env['t'] = ec.TPos(t)
        try:
            with warnings.catch_warnings(), np.errstate(all='ignore'):
                warnings.simplefilter('ignore')
                for s in b.symbols:
                    if s.equation is not None and s.name is not None:
                        exec(s.equation.replace('`', ' '), env)  # a verbatim fragment is pasted as it is
            eqvals = {nm: env[nm].arr for nm in data0}
            d2 = ec.same_arrays(ref, eqvals)
            if d2:
                nm, p, a, c = d2[0]
                violate('equation-denotes-differently',
                        f't={t}: the normalised equations give {nm}[{p}] = {c!r}, the script gives {a!r}')
        except Exception as e:  # noqa: BLE001
            violate('equation-denotes-differently', f't={t}: normalised equation not evaluable: {type(e).__name__}: {e}')
    impl['first'] = first
    rep.case(text, nontrivial=wrote,
             sample={'script': text, 'code': [endo[k].code for k in endo][:3], 'periods': [lags, n - leads]}
             if rep.evaluations % 499 == 0 else None)
    rep.dist['equations:%d' % len(eqs)] += 1
    rep.dist['lags:%d' % lags] += 1
    rep.dist['leads:%d' % leads] += 1
    return impl


def observe(case, rep, want_impl=True):
    """`observe_` guarded: the real code doing something the harness cannot even observe (missing attribute, CODE that
    does not parse, ...) is reported as a failing input, never as an infrastructure error."""
    if 'prog' not in case:      # whole-script (Pipeline) correspondence case: no grammar AST, nothing for this oracle
        return None
    try:
        return observe_(case, rep, want_impl)
    except Exception as e:  # noqa: BLE001
        import traceback
        rep.violate(case.get('tag') or 'observation-failed',
                    'the real code could not be observed: ' + ''.join(traceback.format_exception_only(type(e), e)).strip()[:300]
                    + ' @ ' + traceback.format_tb(e.__traceback__)[-1].strip().replace('\n', ' ')[:200], case)
        return None


# ---- T: model vs implementation --------------------------------------------------------------------------------------

def model_requests(case):
    prog = ec.j2p(case['prog'])
    toks = [ec.stmt_toks(st, case['wrap']) for st in ec.equations(prog)]
    return toks


def compare(case, impl, forms, evalp, rep):
    """forms / evalp: parsed JSON replies of the driver."""
    if impl is None or impl.get('error'):
        return
    prog = ec.j2p(case['prog'])
    eqs = ec.equations(prog)
    for i, st in enumerate(eqs):
        if impl['eq'][i] is None:
            continue
        m_eq, m_code = ec.lex_all(forms['eq'][i]), ec.lex_all(forms['code'][i])
        if m_eq != impl['eq'][i]:
            rep.disagree('Symbol.equation lexemes: model != impl', case, m_eq, impl['eq'][i])
        if m_code != impl['code'][i]:
            rep.disagree('Symbol.code lexemes: model != impl', case, m_code, impl['code'][i])
        mt = ec.expand_verb(forms['tree'][i], 'code')
        if mt != impl['tree'][i]:
            rep.disagree('ast of Symbol.code: model tree != Python ast', case, mt, impl['tree'][i])
        me = ec.expand_verb(forms['eqtree'][i], 'eq')
        if impl['eqtree'][i] is not None and me != impl['eqtree'][i]:
            rep.disagree('ast of Symbol.equation: model tree != Python ast', case, me, impl['eqtree'][i])
    if impl['body'] is not None:
        m_body = [ec.expand_verb(forms['tree'][i], 'code') for i in forms['order']]
        if m_body != impl['body']:
            rep.disagree('statements of _evaluate in Model.CODE (order and trees): model != impl', case,
                         [t[1] if t else None for t in m_body], [t[1] if isinstance(t, list) and len(t) > 1 else t for t in impl['body']])
    first = impl.get('first')
    if evalp is not None and first is not None and first['exc'] is None:
        if evalp.get('ok'):
            rep.dist['eval_pass:compared'] += 1
            canon = lambda d: {k: [ec.canon_bits(x) for x in v] for k, v in d.items()}  # noqa: E731
            if canon(evalp['data']) != canon(first['data']):
                rep.disagree('eval_pass values (IEEE bits): model != impl', case, evalp['data'], first['data'])
            if evalp['writes'] != first['writes']:
                rep.disagree('eval_pass write sequence: model != impl', case, evalp['writes'], first['writes'])
            if evalp['reads'] != first['reads']:
                rep.disagree('eval_pass read sequence: model != impl', case, evalp['reads'], first['reads'])
        else:
            rep.dist['eval_pass:' + evalp.get('why', '?')] += 1
            if evalp.get('why') == 'driver-error':
                rep.disagree('eval_pass: driver error', case, evalp.get('error'), None)


def drive_cases(ctx, cases, impls):
    lines, idx = [], []
    for case, impl in zip(cases, impls):
        if impl is None or impl.get('error') or case.get('tag'):
            continue
        toks = model_requests(case)
        lines.append(ec.line('expr_forms', {'stmts': toks}))
        first = impl.get('first')
        if first is not None:
            prog = ec.j2p(case['prog'])
            span = case.get('span')
            labels = {}
            if span:
                loc = ec.make_locate(span)
                for st in ec.equations(prog):
                    for term in [st.lhs] + gs.terms_of(st.rhs):
                        if isinstance(term.index, str):
                            labels[ec.term_tok(term)[3]] = loc(term.index)
            exp = gs.expected_classes(prog)
            n = len(span) if span else exp['lags'] + exp['leads'] + 3
            data0, _plan = ec.data_plan(case, prog, n)
            lines.append(ec.line('eval_pass', {'stmts': toks, 't': first['t'], 'lits': ec.literals_of(toks), 'labels': labels,
                                               'data': {nm: [ec.bits(x) for x in data0[nm]] for nm in sorted(data0)}}))
            idx.append((case, impl, True))
        else:
            idx.append((case, impl, False))
    outs = ctx.drive(lines)
    k = 0
    res = []
    for case, impl, has_eval in idx:
        forms = json.loads(outs[k]) if not outs[k].startswith('!') else {'error': outs[k]}
        k += 1
        evalp = None
        if has_eval:
            evalp = json.loads(outs[k]) if not outs[k].startswith('!') else {'ok': False, 'why': 'driver-error', 'error': outs[k]}
            k += 1
        res.append((case, impl, forms, evalp))
    return res


def run_cases(ctx, rep, cases):
    impls = ec.observe_all(observe, cases, rep, ctx.workers)
    if ctx.oracle_only:
        return
    for case, impl, forms, evalp in drive_cases(ctx, cases, impls):
        if 'error' in forms:
            rep.disagree('driver rejected the request', case, forms['error'], None)
            continue
        compare(case, impl, forms, evalp, rep)


def run(ctx, rep):
    cases = quick_cases(ctx)
    for lo in range(0, len(cases), 20000):
        run_cases(ctx, rep, cases[lo:lo + 20000])
    rep.notes.append(f'{len(cases)} cases; small statements exhaustive x '
                     f'{"2 rotating" if ctx.tier == "quick" else "all"} catalogue layouts')
    # whole-script tie: the composed parser model (Lexer ∘ Parser, lean/FsicModel/Pipeline.lean) against the real
    # parse_model — every symbol's (name, type, lags, leads, equation, code) or the exception class, exactly
    import pipeline_common
    if ctx.tier == 'quick':
        pipeline_common.run(ctx, rep, 120 * ctx.scale, 2, 800 * ctx.scale)
    else:
        pipeline_common.run(ctx, rep, 2500 * ctx.scale, 6, 40000 * ctx.scale)
    rep.exhaustive = False


def search(ctx, rep, disagreements):
    """P or T broke: the oracle on the disagreeing cases first, then the regular streams with a larger budget."""
    seen = set()
    for d in disagreements:
        c = d.get('case')
        if isinstance(c, dict) and 'text' in c and c['text'] not in seen:
            seen.add(c['text'])
            observe(c, rep, want_impl=False)
    if any(v['key'] in GENERIC_KEYS for v in rep.violations):
        return
    run(ctx, rep)


def replay(ctx, rep, case):
    if 'prog' not in case:          # a text-only case of the whole-script tie (no AST, hence no reference meaning)
        import pipeline_common
        return pipeline_common.replay(ctx, rep, case)
    impl = observe(case, rep)
    print('  script :', case['text'].replace('\n', ' ⏎ '))
    if impl and not impl.get('error'):
        print('  code   :', impl['code'])
        try:
            for c, i, forms, evalp in drive_cases(ctx, [case], [impl]):
                print('  model  :', forms.get('code'))
        except Exception as e:  # noqa: BLE001
            print('  model: <driver unavailable>', e)
    elif impl:
        print('  impl raised', impl['error'])
