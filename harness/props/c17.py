"""C17 — tracing never changes a solution and records it faithfully."""
import json, warnings

import numpy as np

import fsic
from fsic.extensions.model import TracerMixin
import solver_common as sc
from solver_common import bits, unbits
from props.c02 import base_case, mkopts, ERRORS, random_case, core_cases

ID = 'C17'
LEAN_MODULE = 'Proofs.C17'
THEOREMS = ['Fsic.C17.' + n for n in [
    'trace_noninterference', 'trace_off_empty', 'traj_traced', 'cv_traced', 'trace_shape_solved',
    'trace_shape_failed', 'trace_only_extends', 'trace_noninterference_solve']]
RULE = ('tracer-extended scripted models over the C02/C06 case lattices (outcome sequences incl. non-finite, raising '
        'and warning passes and hooks, all errors/failures/catch_first_error/min/max_iter, both period spellings, '
        'offsets), trace in {True, list of names, single name, off}, entry points solve_t / solve_period / solve, '
        'repeated solves; traced twin vs untraced twin (oracle) and traced model vs Lean `tracedSolveT` (correspondence); '
        'plus parser-built systems. distinct = distinct (case, trace argument, entry point); non-trivial = at least one '
        'pass ran with tracing on')
TRUSTED = ['the scripted-model harness (solver_common.py) plays the same script on both sides',
           'Trace.append / hstack of column vectors is NumPy (outside the model); the model keeps a list of snapshots']
ASSUMPTIONS = ['-n <= t < n', 'traced names are valid variable names', 'reset=False (the default) for the shape clauses']
META = {
    'text': "Theorems for every interpretation, snapshot function, option set and period: forgetting the trace, a traced solve "
            "(on or off) IS the untraced solve (simulation through the projection: values, statuses, iteration counts, result, "
            "exception), tracing off writes nothing (invariant of all operations), and on the converging path the trace is "
            "start, before, 0, 1..k0, end with snapshot j taken after pass j and the last one equal to the stored state; on the "
            "failing path it stops after pass max_iter with no end. Tied to TracerMixin by exact comparison of traces and by a "
            "traced-vs-untraced twin oracle.",
    'design_ref': 'DESIGN.md §5 M1 (traced), §6 C17',
    'note': 'Trusted: Lean kernel; axioms propext/Classical.choice/Quot.sound; correspondence harness on generated cases; '
            'NumPy hstack in Trace.append is outside the model.',
    'technique': 'Lean 4 proof (simulation lemma + preserved-invariant lemma over the solver loop) + differential correspondence check',
}


XTRA = 'XTRA'       # a traced variable of another dtype than the model's (a float series in an integer model)
XTRA_VALUE = 0.6


def add_xtra(m, case):
    if case.get('xtra') and case.get('dtype') == 'int':
        m.add_variable(XTRA, XTRA_VALUE, dtype=float)
        return True
    return False


def trace_of(m, t):
    tr = m['trace'][t]
    if tr.is_empty():
        return '', [], tr
    try:
        rows = [i for i, nm in enumerate(tr.names) if nm != XTRA]
        cols = tr.values[rows, :].T
        s = ';'.join(f'{lab}:' + ','.join(str(bits(x)) for x in col) for lab, col in zip(tr.index, cols))
        return s, list(tr.index), tr
    except Exception as e:  # noqa: BLE001   a trace object that cannot even be read is an observation, not a harness error
        return f'malformed:{type(e).__name__}', ['<malformed>'], tr


def run_traced(case, trace_arg, repeat=1, entry='solve_t', reset=False):
    m = sc.build_instance(case, mixins=(TracerMixin,), exo=())
    if add_xtra(m, case) and isinstance(trace_arg, list):
        trace_arg = list(trace_arg) + [XTRA]
    kw = sc.opts_kwargs(case['opts'], case['tol'], case.get('argform', 'plain'))
    tags = []
    with warnings.catch_warnings():
        warnings.simplefilter('ignore')
        for r_ in range(repeat):
            if r_ and case.get('copy_between'):
                m = m.copy()            # a repeated solve may just as well happen on a copy: same observable object
            try:
                if entry == 'solve_t':
                    r = m.solve_t(sc.t_arg(case), trace=trace_arg, reset=reset, **kw)
                elif entry == 'solve_period':
                    t = case['t'] + case['n'] if case['t'] < 0 else case['t']
                    r = m.solve_period(t, trace=trace_arg, reset=reset, **kw)   # span is range(n): label == position
                tags.append('ret:T' if r else 'ret:F')
            except Exception as e:  # noqa: BLE001
                tags.append(sc.exc_name(e))
    return m, tags


def run_untraced(case, repeat=1):
    m = sc.build_instance(case, exo=())
    add_xtra(m, case)
    kw = sc.opts_kwargs(case['opts'], case['tol'], case.get('argform', 'plain'))
    tags = []
    with warnings.catch_warnings():
        warnings.simplefilter('ignore')
        for r_ in range(repeat):
            if r_ and case.get('copy_between'):
                m = m.copy()
            try:
                r = m.solve_t(sc.t_arg(case), **kw)
                tags.append('ret:T' if r else 'ret:F')
            except Exception as e:  # noqa: BLE001
                tags.append(sc.exc_name(e))
    return m, tags


def state_str(m, nE):
    st = ''.join(str(x) for x in m.status)
    it = ','.join(str(int(x)) for x in m.iterations)
    nms = list(m.ENDOGENOUS)[:nE]
    vals = ';'.join(','.join(str(bits(x)) for x in m.__dict__['_' + nms[i]]) for i in range(nE))
    return f'{st}|{it}|{vals}'


def oracle(case, trace_arg, names_idx, repeat, entry, rep, reset=False):
    """Property restated: traced twin == untraced twin; trace off => empty; shape of the trace."""
    nE, n, t = case['nE'], case['n'], case['t']
    pos = t + n if t < 0 else t
    mt, tags_t = run_traced(case, trace_arg, repeat, entry, reset)
    mu, tags_u = run_untraced(case, repeat)
    if tags_t != tags_u or state_str(mt, nE) != state_str(mu, nE) or mt.calls != mu.calls:
        rep.violate('trace-interferes',
                    f'trace={trace_arg!r} entry={entry}: traced {tags_t} {state_str(mt, nE)} vs untraced {tags_u} {state_str(mu, nE)}',
                    {'case': case, 'trace': trace_arg, 'repeat': repeat, 'entry': entry, 'reset': reset})
    s, labels, tr = trace_of(mt, pos)
    if labels == ['<malformed>']:
        rep.violate('trace-malformed', f'trace={trace_arg!r} entry={entry}: the trace of period {pos} cannot be read ({s}): '
                    f'names {list(getattr(tr, "names", []))}, values shape {getattr(getattr(tr, "values", None), "shape", None)}',
                    {'case': case, 'trace': trace_arg, 'repeat': repeat, 'entry': entry, 'reset': reset})
        return s, mt, tags_t
    if labels and XTRA in list(tr.names):
        row = list(tr.names).index(XTRA)
        got = [float(x) for x in np.asarray(tr.values[row, :], dtype=float)]
        if any(x != XTRA_VALUE for x in got):
            rep.violate('trace-foreign-dtype', f'a float series ({XTRA_VALUE}) traced in an integer model is recorded as {sorted(set(got))}',
                        {'case': case, 'trace': trace_arg, 'repeat': repeat, 'entry': entry, 'reset': reset})
        rep.dist['trace:foreign-dtype-checked'] += 1
    for p in range(n):
        if p != pos and not mt['trace'][p].is_empty():
            rep.violate('trace-other-period', f'trace written for period {p} while solving {pos}',
                        {'case': case, 'trace': trace_arg, 'repeat': repeat, 'entry': entry, 'reset': reset})
    if not trace_arg:
        if labels:
            rep.violate('trace-written-when-off', f'trace={trace_arg!r} but trace has labels {labels}',
                        {'case': case, 'trace': trace_arg, 'repeat': repeat, 'entry': entry, 'reset': reset})
        return s, mt, tags_t
    if repeat == 1 and labels and not reset:
        # shape: start, before, 0, 1..k [, end]; snapshot j = traced values after pass j; last = stored solution
        passes = [p for p in mt.passes if p[0] == pos]
        solved = tags_t[-1] == 'ret:T'
        ok = labels[:1] == ['start']
        body = labels[1:]
        if body[:1] == ['before']:
            body = body[1:]
            ints = [x for x in body if isinstance(x, (int, np.integer))]
            ok = ok and ints == list(range(len(ints))) and body[:len(ints)] == ints
            rest = body[len(ints):]
            ok = ok and (rest == (['end'] if solved else []))
            if solved:
                ok = ok and len(ints) == int(mt.iterations[pos]) + 1
            keep = [i for i, nm in enumerate(tr.names) if nm != XTRA]
            cols = {lab: col for lab, col in zip(tr.index, tr.values[keep, :].T)}
            for (pp, k, cvv, allv) in passes:
                if k in cols and [bits(x) for x in cols[k]] != [bits(allv[i]) for i in names_idx]:
                    # a raising pass records its state but takes no snapshot; a later snapshot with the same label cannot exist
                    ok = False
            if solved:
                final = [float(mt.__dict__['_' + sc.names_of(case)[i]][pos]) for i in names_idx]
                ok = ok and [bits(x) for x in cols['end']] == [bits(x) for x in final]
        else:
            ok = ok and body == []
        if not ok:
            rep.violate('trace-shape', f'trace={trace_arg!r}: labels {labels} for result {tags_t}, iterations {int(mt.iterations[pos])}',
                        {'case': case, 'trace': trace_arg, 'repeat': repeat, 'entry': entry, 'reset': reset})
    return s, mt, tags_t


def variants(rng, case):
    nE = case['nE']
    names = sc.names_of(case)
    if case.get('trace_all'):
        return True, list(range(nE))
    if case.get('mix') in ('alias', 'all') and rng.random() < 0.6:
        # the traced variables may just as well be named through their aliases
        names = [rng.choice(['AL_', 'AL2_', '']) + nm for nm in names]
    r = rng.random()
    if r < 0.3:
        return True, list(range(nE))
    if r < 0.55:
        k = rng.randint(1, nE)
        idx = rng.sample(range(nE), k)
        return [names[i] for i in idx], idx
    if r < 0.75:
        i = rng.randrange(nE)
        return names[i], [i]
    if r < 0.9:
        return False, list(range(nE))
    return None, list(range(nE))


def _work(ctx, rep):
    rng = ctx.sub_rng('cases')
    cases = []
    core = list(core_cases(2))
    rng.shuffle(core)
    cases += core[: (2500 if ctx.tier == 'quick' else 7290)][ctx.part::ctx.parts]
    cases += [random_case(rng) for _ in range((2500 if ctx.tier == 'quick' else 400000) * ctx.scale // ctx.parts)]
    from props.c02 import dtype_case, scale_case
    dcs = [dtype_case(rng) for _ in range((600 if ctx.tier == 'quick' else 60000) * ctx.scale // ctx.parts)]
    for c in dcs:
        c['xtra'] = rng.random() < 0.5
    cases += dcs
    cases += [scale_case(rng, False) for _ in range((4 if ctx.tier == 'quick' else 60) * ctx.scale // ctx.parts)]
    cases += [scale_case(rng, True) for _ in range((2 if ctx.tier == 'quick' else 24) * ctx.scale // ctx.parts)]
    # a trace of well over 512 snapshots of several variables (slow convergence: hundreds of passes in one period)
    for _ in range((2 if ctx.tier == 'quick' else 40) * ctx.scale // ctx.parts):
        K = rng.choice([520, 700, 1100])
        nE = rng.choice([2, 3, 5])
        c = base_case(3, nE, list(range(nE)), rng.choice([0, 1, -1]), mkopts(0, K + rng.choice([1, 5]), 0, 'ignore', 'raise', True),
                      {}, vals=[[float(i + p) for p in range(3)] for i in range(nE)])
        pos = c['t'] + 3 if c['t'] < 0 else c['t']
        c['script'][pos] = sc.make_script(['far'] * K + ['same'], [c_ for c_ in [float(i + pos) for i in range(nE)]], nE)
        c['trace_all'] = True
        cases.append(sc.vary_implementation_side(c, rng))
    lines, expect = [], []
    for case in cases:
        if case['opts']['min_iter'] > case['opts']['max_iter'] and rng.random() < 0.8:
            continue   # keep a few rejected calls, not most of the stream
        trace_arg, idx = variants(rng, case)
        repeat = 2 if rng.random() < 0.25 else 1
        if repeat == 2 and rng.random() < 0.4:
            case['copy_between'] = True
        entry = 'solve_period' if rng.random() < 0.2 else 'solve_t'
        reset = rng.random() < 0.25
        s, mt, tags = oracle(case, trace_arg, idx, repeat, entry, rep, reset)
        on = bool(trace_arg)
        rep.dist[f'trace={"on" if on else "off"}:{tags[-1].split(":")[0]}'] += 1
        rep.case(json.dumps([case, trace_arg, repeat, entry, reset], sort_keys=True, default=str), nontrivial=on and bool(mt.passes),
                 sample={'opts': case['opts'], 't': case['t'], 'trace': trace_arg, 'result': tags, 'trace_seen': s[:160]}
                 if rep.evaluations % 499 == 0 else None)
        req = dict(case)
        req.update(traced=idx, on=on, repeat=repeat, reset=reset)
        lines.append(sc.line('traced_solve_t', req))
        expect.append((case, trace_arg, repeat, entry, reset, ','.join(tags) + '|' + state_str(mt, case['nE']) + '|' + s))
    if not ctx.oracle_only:
        outs = ctx.drive(lines)
        for (case, trace_arg, repeat, entry, reset, b), a in zip(expect, outs):
            if a != b:
                rep.disagree('traced solve: model != impl', {'case': case, 'trace': trace_arg, 'repeat': repeat, 'entry': entry, 'reset': reset}, a, b)
    natural(ctx, rep)


def run(ctx, rep):
    import framework
    framework.parallel(_work, ctx, rep, parts=(1 if ctx.tier == 'quick' else ctx.workers))


def natural(ctx, rep):
    """Parser-built systems through solve(): traced vs untraced twin, and trace shape per solved period."""
    rng = ctx.sub_rng('natural')
    for _ in range((150 if ctx.tier == 'quick' else 20000) * ctx.scale // ctx.parts):
        a, b, c = rng.uniform(-0.9, 0.9), rng.uniform(-0.9, 0.9), rng.uniform(-2, 2)
        script = f'Y = {a:.12f} * Z + {c:.12f} + 0.5 * Y[-1]\nZ = {b:.12f} * Y + X'
        Model = fsic.build_model(fsic.parse_model(script))
        Traced = type('T', (TracerMixin, Model), {})
        n = 5
        x = rng.uniform(-1, 1)
        kw = dict(max_iter=rng.choice([2, 5, 50]), tol=rng.choice([1e-10, 1e-4]), failures='ignore',
                  offset=rng.choice([0, -1]))
        trace_arg = rng.choice([True, ['Y'], 'Z', ['Z', 'Y', 'X']])
        mu, mt = Model(range(n), X=x), Traced(range(n), X=x)
        with warnings.catch_warnings():
            warnings.simplefilter('ignore')
            ru = mu.solve(**kw)
            rt = mt.solve(trace=trace_arg, **kw)
        same = (ru == rt and list(mu.status) == list(mt.status) and list(mu.iterations) == list(mt.iterations)
                and [bits(v) for v in mu.values.ravel()] == [bits(v) for v in mt.values.ravel()])
        if not same:
            rep.violate('trace-interferes', f'parser-built system {script!r}: solve(trace={trace_arg!r}) differs from solve()',
                        {'script': script, 'kw': kw, 'trace': trace_arg, 'x': x})
        names = mt.names if trace_arg is True else ([trace_arg] if isinstance(trace_arg, str) else trace_arg)
        for p in range(n):
            tr = mt['trace'][p]
            if p == 0:
                if not tr.is_empty():
                    rep.violate('trace-other-period', 'trace written for a period that was not solved', {'script': script})
                continue
            k = int(mt.iterations[p])
            want = ['start', 'before'] + list(range(k + 1)) + (['end'] if mt.status[p] == '.' else [])
            last_ok = [bits(v) for v in tr.values[:, -1]] == [bits(mt[nm][p]) for nm in names]
            if list(tr.index) != want or not last_ok or list(tr.names) != list(names):
                rep.violate('trace-shape', f'parser-built system: labels {list(tr.index)} expected {want}; last==solution {last_ok}',
                            {'script': script, 'kw': kw, 'trace': trace_arg, 'x': x})
        rep.case(json.dumps([script, kw, str(trace_arg)]), nontrivial=True)
        rep.dist['natural'] += 1


def replay(ctx, rep, data):
    if 'script' in data:
        print('  parser-built system case:', data)
        return
    case = data['case']
    idx = list(range(case['nE']))
    if isinstance(data['trace'], list):
        idx = [int(x[1:]) for x in data['trace']]
    elif isinstance(data['trace'], str):
        idx = [int(data['trace'][1:])]
    s, mt, tags = oracle(case, data['trace'], idx, data.get('repeat', 1), data.get('entry', 'solve_t'), rep, data.get('reset', False))
    print('  impl :', tags, state_str(mt, case['nE']), s)
